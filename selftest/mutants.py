"""Checker self-validation catalogue.

Each entry is applied to a scratch copy of the *current* /repo (outside /repo and /verif; removed afterwards) either
as a unified diff (`patch`) or as an exact string replacement (`file`, `old`, `new`). `props` lists the checks
expected to react; `expect` is a substring of a violating instance key (mutants) or None (benign variants, which
must leave every listed check silent). A mutant whose text no longer applies is reported as `stale`.

Every mutant was confirmed, when written, to compile; those marked suite=True were also run against the pinned
suite (still passing). They are checker tests, not claims about the product.
"""

M = []


def mut(name, props, expect, file=None, old=None, new=None, patch=None, note="", suite=None):
    M.append(dict(name=name, kind="mutant", props=props, expect=expect, file=file, old=old, new=new, patch=patch, note=note, suite=suite))


def benign(name, props, file, old, new, note=""):
    M.append(dict(name=name, kind="benign", props=props, expect=None, file=file, old=old, new=new, patch=None, note=note, suite=None))


# ---- the eight repaired defects, reverted (first positive examples of their rules)
mut("revert_D1", ["C05", "C01", "C03"], "LCK-", patch="revert_D1_get_memtable_in_unlocked_closure.diff", note="DB::get loads memtable pointer after unlock")
mut("revert_D2", ["C08", "C05"], "PAIR-2|db::DB::apply_changes|leader-returns-group-result", patch="revert_D2_apply_changes_returns_ok.diff")
mut("revert_D3", ["C08", "C15"], "ERR-1|versioning::version_set::VersionSet::log_and_apply", patch="revert_D3_log_and_apply_swallows_error.diff")
mut("revert_D4", ["C10", "C01", "C07"], "ROLE-1|versioning::version_set::VersionSet::write_snapshot", patch="revert_D4_write_snapshot_swapped_range.diff")
mut("revert_D6", ["C13", "C01", "C03"], "VERD-1|tables::table::Table::get", patch="revert_D6_table_get_index_miss_is_deleted.diff")
mut("revert_D7", ["C09"], "LCK-3|db::DB::get_descriptor", patch="revert_D7_get_descriptor_relock.diff")
mut("revert_D8", ["C12", "C15", "C16"], "TS-1|logs::LogReader::read_record", patch="revert_D8_log_reader_no_reset.diff")
mut("revert_D9", ["C11", "C03"], "PAIR-1|compaction::worker::CompactionWorker::coordinate_compaction", patch="revert_D9_trivial_move_no_release.diff")

# ---- C05 / C06
mut("publish_sequence_before_apply", ["C05", "C06", "C02"], "ORD-8", file="src/db.rs",
    old="""            // Add to the write-ahead log and apply changes to the memtable
            write_result = parking_lot::MutexGuard::<'_, GuardedDbFields>::unlocked_fair(""",
    new="""            fields_mutex_guard
                .version_set
                .set_prev_sequence_number(sequence_number_after_write);
            // Add to the write-ahead log and apply changes to the memtable
            write_result = parking_lot::MutexGuard::<'_, GuardedDbFields>::unlocked_fair(""",
    note="sequence published before WAL+memtable section (an extra early publication)")
mut("rotation_release_between_swap_and_store", ["C05"], "ORD-9", file="src/db.rs",
    old="""                let old_memtable = self.memtable_ptr.swap(new_memtable);
                log::info!("Move the current memtable to the immutable memtable field.");""",
    new="""                let old_memtable = self.memtable_ptr.swap(new_memtable);
                parking_lot::MutexGuard::<'_, GuardedDbFields>::unlocked_fair(mutex_guard, || {
                    thread::yield_now();
                });
                log::info!("Move the current memtable to the immutable memtable field.");""")
mut("snapshot_sequence_read_then_relock", ["C05", "C06", "C03"], "LCK-", file="src/db.rs",
    old="""        let mut db_fields_guard = self.guarded_fields.lock();
        let latest_sequence_num = db_fields_guard.version_set.get_prev_sequence_number();
        db_fields_guard.snapshots.new_snapshot(latest_sequence_num)""",
    new="""        let latest_sequence_num = self
            .guarded_fields
            .lock()
            .version_set
            .get_prev_sequence_number();
        let mut db_fields_guard = self.guarded_fields.lock();
        db_fields_guard.snapshots.new_snapshot(latest_sequence_num)""",
    note="sequence read under one lock acquisition, snapshot registered under another")
mut("iterator_drops_sequence_filter_backward", ["C06", "C03"], "GRD-3", file="src/iterator.rs",
    old="""                let curr_operation = current_key.get_operation();
                if curr_sequence_num > self.sequence_snapshot {
                    // This record is more recent than our snapshot allows, don't process it
                } else {
                    if last_operation_type != Operation::Delete""",
    new="""                let curr_operation = current_key.get_operation();
                if curr_sequence_num > u64::MAX {
                    // This record is more recent than our snapshot allows, don't process it
                } else {
                    if last_operation_type != Operation::Delete""")

# ---- C09
mut("worker_epilogue_no_notify", ["C09"], "ORD-10", file="src/compaction/worker.rs",
    old="""        db_fields_guard.background_compaction_scheduled = false;

        background_work_finished_signal.notify_all();
""",
    new="""        db_fields_guard.background_compaction_scheduled = false;
""")
mut("schedule_flag_set_but_not_scheduled", ["C09"], "PAIR-4", file="src/db.rs",
    old="""                if DB::should_schedule_compaction(&self.generate_portable_state(), mutex_guard) {
                    log::info!(
                        "Determined that compaction is necessary. Scheduling compaction task."
                    );
                    self.compaction_worker.schedule_task(TaskKind::Compaction);
                }""",
    new="""                if DB::should_schedule_compaction(&self.generate_portable_state(), mutex_guard) {
                    log::info!(
                        "Determined that compaction is necessary. Scheduling compaction task."
                    );
                }""")
mut("wait_without_loop", ["C09"], "LCK-4", file="src/db.rs",
    old="""        while db_fields_guard.maybe_immutable_memtable.is_some()
            && db_fields_guard.maybe_bad_database_state.is_none()
        {""",
    new="""        if db_fields_guard.maybe_immutable_memtable.is_some()
            && db_fields_guard.maybe_bad_database_state.is_none()
        {""")
mut("helper_relocks_from_new_iterator", ["C09"], "LCK-3", file="src/db.rs",
    old="""        let read_sampling_seed = db_fields_guard.read_sampling_seed;
        db_fields_guard.read_sampling_seed += 1;""",
    new="""        let read_sampling_seed = db_fields_guard.read_sampling_seed;
        db_fields_guard.read_sampling_seed += self.max_next_level_overlapping_bytes() % 2 + 1;""",
    note="max_next_level_overlapping_bytes locks the DB mutex itself")
mut("leader_does_not_notify_new_head", ["C09"], "ORD-11", file="src/db.rs",
    old="""        if !fields_mutex_guard.writer_queue.is_empty() {
            fields_mutex_guard
                .writer_queue
                .front()
                .unwrap()
                .notify_writer();
        }""",
    new="""        if fields_mutex_guard.writer_queue.len() > 1 {
            fields_mutex_guard
                .writer_queue
                .front()
                .unwrap()
                .notify_writer();
        }""")

# ---- C08
mut("make_room_ignores_sticky_error", ["C08"], "GRD-4", file="src/db.rs",
    old="""            if mutex_guard.maybe_bad_database_state.is_some() {
                // We encountered an issue with a background task. Return with the error.""",
    new="""            if mutex_guard.maybe_bad_database_state.is_some() && force_compaction {
                // We encountered an issue with a background task. Return with the error.""")
mut("flush_build_error_dropped", ["C08", "C15"], "ERR-1", file="src/db.rs",
    old="""            table_builder.finalize()?;
            metadata.set_file_size(table_builder.file_size());""",
    new="""            if let Err(finalize_err) = table_builder.finalize() {
                log::error!("Failed to finalize the table file. Error: {}", finalize_err);
            }
            metadata.set_file_size(table_builder.file_size());""")
mut("wal_error_not_sticky", ["C08", "C02"], "wal-error-is-sticky", file="src/db.rs",
    old="""                DB::set_bad_database_state(
                    &self.generate_portable_state(),
                    &mut fields_mutex_guard,
                    write_result.clone().unwrap_err(),
                );""",
    new="""                log::error!("The write to the WAL failed: {:?}", write_result.as_ref().err());""")
mut("gc_runs_under_sticky_error", ["C08"], "GRD-4", file="src/db.rs",
    old="""                db_fields_guard.maybe_bad_database_state.clone().unwrap()
            );
            return;
        }""",
    new="""                db_fields_guard.maybe_bad_database_state.clone().unwrap()
            );
        }""")

# ---- C02
mut("current_switched_before_manifest_append", ["C02"], "ORD-5", file="src/versioning/version_set.rs",
    old="""                let serialized_manifest: Vec<u8> = Vec::from(change_manifest);
                manifest_file.lock().append(&serialized_manifest)?;

                if is_new_manifest_file {""",
    new="""                let serialized_manifest: Vec<u8> = Vec::from(change_manifest);

                if is_new_manifest_file {""")
mut("gc_before_manifest_in_flush", ["C02", "C08", "C05"], "ORD-3", file="src/compaction/worker.rs",
    old="""        let apply_result = VersionSet::log_and_apply(db_fields_guard, &mut change_manifest);
        if let Err(apply_error) = apply_result {""",
    new="""        db_fields_guard.maybe_immutable_memtable.take();
        let apply_result = VersionSet::log_and_apply(db_fields_guard, &mut change_manifest);
        if let Err(apply_error) = apply_result {""",
    note="immutable memtable dropped before the manifest records the flush")
mut("memtable_before_wal", ["C02", "C08"], "ORD-2", file="src/db.rs",
    old="""                    unsafe {
                        // SAFETY: RainDB only allows one writer thread at a time.
                        (*self.wal().get()).append(&Vec::<u8>::from(&write_batch))?;
                    }

                    // Write the changes to the memtable
                    DB::apply_batch_to_memtable(&**self.memtable(), &write_batch);
""",
    new="""                    // Write the changes to the memtable
                    DB::apply_batch_to_memtable(&**self.memtable(), &write_batch);

                    unsafe {
                        // SAFETY: RainDB only allows one writer thread at a time.
                        (*self.wal().get()).append(&Vec::<u8>::from(&write_batch))?;
                    }
""")
mut("replay_skips_manifest_wal", ["C02"], "GRD-1", file="src/db.rs",
    old="""                        if file_num >= min_log_num {""", new="""                        if file_num > min_log_num {""")
mut("rename_before_temp_write", ["C02"], "ORD-4", file="src/db.rs",
    old="""        let temp_file_write_result = temp_file.append(&contents);
        if temp_file_write_result.is_err() {""",
    new="""        let temp_file_write_result = temp_file.append(&contents);
        if temp_file_write_result.is_err() && contents.is_empty() {""",
    note="write failure no longer stops the rename")

# ---- C11
mut("wal_guard_forgets_prev_wal", ["C11", "C03"], "GRD-5", file="src/db.rs",
    old="""                            if !is_live_wal && !is_being_compacted {""", new="""                            if !is_live_wal {""")
mut("manifest_guard_off_by_one", ["C11"], "GRD-5", file="src/db.rs",
    old="""                            if manifest_file_num
                                < db_fields_guard.version_set.get_manifest_file_number()""",
    new="""                            if manifest_file_num
                                <= db_fields_guard.version_set.get_manifest_file_number()""")
mut("pending_output_registered_after_build", ["C11"], "ORD-13", file="src/db.rs",
    old="""        let mut file_metadata = FileMetadata::new(file_number);
        db_fields_guard.tables_in_use.insert(file_number);
""",
    new="""        let mut file_metadata = FileMetadata::new(file_number);
""")
mut("live_files_only_current_version", ["C11", "C03"], "GRD-5", file="src/versioning/version_set.rs",
    old="""        for version in self.versions.iter() {
            for level in 0..MAX_NUM_LEVELS {
                let files = &version.read().element.files[level];""",
    new="""        for version in [self.get_current_version()].iter() {
            for level in 0..MAX_NUM_LEVELS {
                let files = &version.read().element.files[level];""")

# ---- C17
mut("blocking_lock", ["C17"], "GRD-9", file="src/fs/fs_disk.rs",
    old="""            .open(path)?;
        file.try_lock_exclusive()?;""",
    new="""            .open(path)?;
        file.lock_exclusive()?;""")
mut("lock_error_ignored", ["C17"], "GRD-9", file="src/fs/fs_disk.rs",
    old="""            .open(self.get_rooted_path(path))?;
        file.try_lock_exclusive()?;""",
    new="""            .open(self.get_rooted_path(path))?;
        if file.try_lock_exclusive().is_err() {
            log::warn!("The lock file is held by someone else");
        }""")
mut("destroy_without_lock_result", ["C17"], "ORD-15", file="src/db.rs",
    old="""                return Err(RainDBError::Destruction(err.to_string()));
            }
        };

        log::info!("Deleting the WAL directory.");""",
    new="""                return Err(RainDBError::Destruction(err.to_string()));
            }
        };
        drop(db_lock);
        let db_lock = ();

        log::info!("Deleting the WAL directory.");""",
    note="lock released before the data directories are removed")

# ---- C03 / C07
mut("smallest_snapshot_from_newest", ["C03", "C07"], "ORD-7", file="src/compaction/worker.rs",
    old="""                    .snapshots
                    .oldest()
                    .read()""",
    new="""                    .snapshots
                    .newest()
                    .read()""")
mut("tombstone_dropped_above_base_level", ["C03", "C07"], "GRD-2", file="src/compaction/worker.rs",
    old="""                        && current_key.get_sequence_number()
                            <= compaction_state.get_smallest_snapshot()
                        && compaction_state
                            .compaction_manifest_mut()
                            .is_base_level_for_key(current_key)
                    {""",
    new="""                        && current_key.get_sequence_number()
                            <= compaction_state.get_smallest_snapshot()
                    {""")
mut("largest_key_accumulator_flipped", ["C07", "C01"], "ACC-1|compaction::manifest::CompactionManifest::find_largest_key", file="src/compaction/manifest.rs",
    old="""            if file.largest_key() > largest_key {""", new="""            if file.largest_key() < largest_key {""")
mut("flush_records_swapped_range", ["C10", "C07", "C01"], "ROLE-1", file="src/db.rs",
    old="""                file_metadata.smallest_key().clone()..file_metadata.largest_key().clone(),""",
    new="""                file_metadata.largest_key().clone()..file_metadata.smallest_key().clone(),""")
mut("compaction_output_largest_not_updated", ["C10", "C07"], "PAIR-3", file="src/compaction/worker.rs",
    old="""                        compaction_state
                            .current_output_mut()
                            .set_largest_key(Some(current_key.clone()));
                        compaction_state
                            .table_builder_mut()""",
    new="""                        if compaction_state.table_builder_mut().get_num_entries() == 0 {
                            compaction_state
                                .current_output_mut()
                                .set_largest_key(Some(current_key.clone()));
                        }
                        compaction_state
                            .table_builder_mut()""")

# ---- C01 / C13
mut("table_get_ignores_user_key_mismatch", ["C13", "C01"], "VERD-1", file="src/tables/table.rs",
    old="""                if found_key.get_user_key() != key.get_user_key() {
                    return Err(ReadError::KeyNotFound);
                }

                if found_key.get_operation() == Operation::Delete {""",
    new="""                if found_key.get_operation() == Operation::Delete {""")
mut("filter_miss_reported_as_deleted", ["C13", "C14"], "GRD-7", file="src/tables/table.rs",
    old="""            // The key was not found in the filter so it is not in the block and hence not in the
            // table
            return Err(ReadError::KeyNotFound);""",
    new="""            // The key was not found in the filter so it is not in the block and hence not in the
            // table
            return Ok(None);""")

# ---- C12 / C15 / C16 / C14
mut("first_fragment_keeps_old_partial", ["C12", "C16", "C15"], "TS-1", file="src/logs.rs",
    old="""                        // Drop fragments of an unfinished record
                        data_buffer.clear();
                        data_buffer.extend(record.data);""",
    new="""                        data_buffer.extend(record.data);""")
mut("any_io_error_is_eof", ["C12", "C16"], "GRD-6", file="src/logs.rs",
    old="""                        ErrorKind::UnexpectedEof => return Ok((vec![], true)),
                        _ => return Err(physical_read_err),""",
    new="""                        ErrorKind::UnexpectedEof => return Ok((vec![], true)),
                        _ => return Ok((vec![], true)),""")
mut("block_used_before_checksum", ["C15"], "ORD-14", file="src/tables/table.rs",
    old="""        if unmasked_stored_checksum != calculated_block_checksum {
            return Err(ReadError::FailedToParse(
                "Failed to parse the block. There was a mismatch in the checksum".to_string(),
            ));
        }
""",
    new="""        if unmasked_stored_checksum != calculated_block_checksum {
            log::warn!("Failed to parse the block. There was a mismatch in the checksum");
        }
""")
mut("fragment_crc_not_enforced", ["C15"], "ORD-14", file="src/logs.rs",
    old="""        if calculated_checksum != unmasked_checksum {
            return Err(LogIOError::Seralization(LogSerializationErrorKind::Other(""",
    new="""        if calculated_checksum != unmasked_checksum && data.is_empty() {
            return Err(LogIOError::Seralization(LogSerializationErrorKind::Other(""")
mut("filter_key_registered_conditionally", ["C14"], "PAIR-5", file="src/tables/table_builder.rs",
    old="""        // Add entry to the filter block
        self.filter_block_builder
            .add_key(key.get_user_key().to_vec());""",
    new="""        // Add entry to the filter block
        if key.get_operation() == crate::Operation::Put {
            self.filter_block_builder
                .add_key(key.get_user_key().to_vec());
        }""")
mut("filter_policy_error_fails_closed", ["C14"], "GRD-8", file="src/tables/filter_block.rs",
    old="""                        "There was an error checking the filter for a match. Ignoring the error \\
                        and forcing a disk seek. Original error: {}",
                        error
                    );
                }""",
    new="""                        "There was an error checking the filter for a match. Ignoring the error \\
                        and forcing a disk seek. Original error: {}",
                        error
                    );
                    return false;
                }""")

# ---- benign variants: behaviour-preserving edits that must leave the listed checks silent
benign("get_reorder_independent_captures", ["C05", "C01", "C03", "C06"], "src/db.rs",
       """        let memtable = self.memtable();
        let maybe_immutable_memtable = db_fields_guard.maybe_immutable_memtable.clone();
        let current_version = db_fields_guard.version_set.get_current_version();""",
       """        let current_version = db_fields_guard.version_set.get_current_version();
        log::debug!("captured the version");
        let maybe_immutable_memtable = db_fields_guard.maybe_immutable_memtable.clone();
        let active_memtable_handle = self.memtable();
        let memtable = active_memtable_handle;""")
benign("rename_drop_flag", ["C03", "C07"], "src/compaction/worker.rs", "should_drop_entry", "skip_this_entry")
benign("match_instead_of_if_let", ["C08", "C02", "C05"], "src/compaction/worker.rs",
       """        if let Err(write_table_error) = write_table_result {
            DB::set_bad_database_state(
                db_state,
                db_fields_guard,
                CompactionWorkerError::WriteTable(Box::new(write_table_error)).into(),
            );
            return;
        }""",
       """        match write_table_result {
            Ok(()) => {}
            Err(write_table_error) => {
                DB::set_bad_database_state(
                    db_state,
                    db_fields_guard,
                    CompactionWorkerError::WriteTable(Box::new(write_table_error)).into(),
                );
                return;
            }
        }""")
benign("gc_scan_order_changed", ["C11", "C08"], "src/db.rs",
       """        // Check WAL file directory for stale files
        if let Ok(wal_files) = filesystem_provider.list_dir(&file_name_handler.get_wal_dir()) {""",
       """        log::debug!("Scanning the WAL directory");
        // Check WAL file directory for stale files
        if let Ok(wal_files) = filesystem_provider.list_dir(&file_name_handler.get_wal_dir()) {""")
benign("retention_comparison_operands_swapped", ["C03", "C07"], "src/compaction/worker.rs",
       """                    if last_sequence_for_key <= compaction_state.get_smallest_snapshot() {""",
       """                    if compaction_state.get_smallest_snapshot() >= last_sequence_for_key {""")
benign("accumulator_operands_swapped", ["C07", "C01"], "src/compaction/manifest.rs",
       """            if file.largest_key() > largest_key {""", """            if largest_key < file.largest_key() {""")
benign("log_reader_reset_in_each_arm", ["C12", "C15", "C16"], "src/logs.rs",
       """                    BlockType::Full => {
                        // Fragments of an unfinished record (e.g. the writer died between
                        // fragments) are dropped
                        return Ok((record.data, false));
                    }""",
       """                    BlockType::Full => {
                        // Fragments of an unfinished record (e.g. the writer died between
                        // fragments) are dropped
                        data_buffer.clear();
                        data_buffer.extend(record.data);
                        return Ok((data_buffer, false));
                    }""")
benign("worker_epilogue_extra_logging", ["C09"], "src/compaction/worker.rs",
       """        db_fields_guard.background_compaction_scheduled = false;

        background_work_finished_signal.notify_all();""",
       """        db_fields_guard.background_compaction_scheduled = false;
        log::debug!("Cleared the scheduled flag");

        background_work_finished_signal.notify_all();""")
benign("open_lock_error_mapped", ["C17"], "src/db.rs",
       """        let db_lock = Some(options.filesystem_provider().lock_file(&lock_file_path)?);""",
       """        let lock_result = options.filesystem_provider().lock_file(&lock_file_path);
        let db_lock = match lock_result {
            Ok(lock) => Some(lock),
            Err(lock_err) => return Err(lock_err.into()),
        };""")

# ---- added with the ROLE-3 / PAIR-6 / eviction rules
mut("oversized_writer_marked_done", ["C05"], "PAIR-6", file="src/db.rs",
    old="""            let curr_writer_batch = writer.maybe_batch().unwrap();
            batch_size += curr_writer_batch.get_approximate_size();
            if batch_size > max_size {""",
    new="""            let curr_writer_batch = writer.maybe_batch().unwrap();
            batch_size += curr_writer_batch.get_approximate_size();
            last_writer = writer;
            if batch_size > max_size {""",
    note="the writer whose batch did not fit is popped and acknowledged without having been written")
mut("compaction_outputs_at_input_level", ["C07", "C10"], "ROLE-3", file="src/compaction/state.rs",
    old="""        let parent_level = self.compaction_manifest.level() + 1;
        for output_file in &self.output_files {""",
    new="""        let parent_level = self.compaction_manifest.level();
        for output_file in &self.output_files {""")
mut("trivial_move_keeps_level", ["C07", "C10"], "ROLE-3", file="src/compaction/manifest.rs",
    old="""        self.change_manifest.add_file(
            self.level + 1,
            file_to_compact.file_number(),""",
    new="""        self.change_manifest.add_file(
            self.level,
            file_to_compact.file_number(),""")
mut("deleted_table_stays_in_cache", ["C11"], "evict-before-delete", file="src/db.rs",
    old="""                                table_cache.remove(table_number);
                                files_to_delete.push(file);""",
    new="""                                files_to_delete.push(file);""")

# ---- ORD-8b / ORD-17 / ERR-2 / GRD-10 / verdict-stops-search / ORD-16
mut("published_sequence_counts_only_leader_batch", ["C05", "C06"], "ORD-8b", file="src/db.rs",
    old="""            let sequence_number_after_write = prev_sequence_number + (write_batch.len() as u64);""",
    new="""            let sequence_number_after_write =
                prev_sequence_number + (writer.maybe_batch().unwrap().len() as u64);""",
    note="followers' entries get sequence numbers above the published bound")
mut("manual_request_kept_after_error", ["C09"], "ORD-17", file="src/compaction/worker.rs",
    old="""        if is_manual_compaction {
            /*
            The `.take` is fine""",
    new="""        if is_manual_compaction && !has_compaction_error {
            /*
            The `.take` is fine""",
    note="after a failed manual compaction the request stays in the slot: force_level_compaction never returns")
mut("iterator_status_not_consulted", ["C08", "C07"], "ERR-2", file="src/compaction/worker.rs",
    old="""            if compaction_error.is_none() {
                compaction_error = file_iterator.get_error();
            }
""", new="")
mut("base_level_excludes_smallest_key", ["C01", "C07"], "GRD-10", file="src/compaction/manifest.rs",
    old="""                    if user_key >= file.smallest_key().get_user_key() {""",
    new="""                    if user_key > file.smallest_key().get_user_key() {""")
mut("imm_tombstone_falls_through", ["C01"], "verdict-stops-search", file="src/db.rs",
    old="""                    if let Ok(maybe_value) = immutable_memtable.get(&internal_key) {
                        match maybe_value {
                            Some(value) => return Ok(Some(value.clone())),
                            None => {
                                // The value was deleted, as opposed to not found, so we stop
                                // processing
                                return Ok(None);
                            }
                        }
                    }""",
    new="""                    if let Ok(Some(value)) = immutable_memtable.get(&internal_key) {
                        return Ok(Some(value.clone()));
                    }""")
mut("wal_gc_uses_optimistic_wal_number", ["C11", "C08", "C03"], "GRD-5", file="src/db.rs",
    old="""                                wal_number >= db_fields_guard.version_set.get_curr_wal_number();""",
    new="""                                wal_number >= db_fields_guard.curr_wal_file_number;""")

# ---- PAIR-7 / GRD-11 / GRD-6
mut("two_level_seek_does_not_skip_empty_blocks", ["C13", "C04"], "PAIR-7", file="src/tables/table.rs",
    old="""            self.maybe_data_block_iter.as_mut().unwrap().seek(target)?;
        }

        self.skip_empty_data_blocks_forward()?;
""",
    new="""            self.maybe_data_block_iter.as_mut().unwrap().seek(target)?;
        }
""")
mut("merging_prev_picks_smallest", ["C04"], "PAIR-7", file="src/versioning/file_iterators.rs",
    old="""        self.reverse_current_iterator();
        self.find_largest();""",
    new="""        self.reverse_current_iterator();
        self.find_smallest();""")
mut("files_iterator_seek_to_last_skips_forward", ["C04", "C13"], "PAIR-7", file="src/versioning/file_iterators.rs",
    old="""            self.current_table_iter.as_mut().unwrap().seek_to_last()?;
        }

        self.skip_empty_table_files_backward()?;""",
    new="""            self.current_table_iter.as_mut().unwrap().seek_to_last()?;
        }

        self.skip_empty_table_files_forward()?;""")
mut("reopen_offset_only_for_multi_block_files", ["C12", "C16"], "GRD-11", file="src/logs.rs",
    old="""        if log_file_size > 0 {
            block_offset = log_file_size % BLOCK_SIZE_BYTES;""",
    new="""        if log_file_size > BLOCK_SIZE_BYTES {
            block_offset = log_file_size % BLOCK_SIZE_BYTES;""")
mut("short_header_is_parsed", ["C12", "C16", "C02"], "GRD-6", file="src/logs.rs",
    old="""        if header_bytes_read < HEADER_LENGTH_BYTES {""", new="""        if header_bytes_read == 0 {""")
benign("reopen_offset_unconditional", ["C12", "C16"], "src/logs.rs",
       """        if log_file_size > 0 {
            block_offset = log_file_size % BLOCK_SIZE_BYTES;
        }""",
       """        block_offset = log_file_size % BLOCK_SIZE_BYTES;
        log::debug!("Continuing at block offset {}", block_offset);""")

# ---- more behaviour-preserving refactorings
benign("get_capture_extracted_into_guarded_helper", ["C05", "C01", "C03", "C06", "C09", "C11"], "src/db.rs",
       """        let mut db_fields_guard = self.guarded_fields.lock();
        let snapshot: u64 = if let Some(snapshot_handle) = read_options.snapshot.as_ref() {
            snapshot_handle.sequence_number()
        } else {
            db_fields_guard.version_set.get_prev_sequence_number()
        };
        // The active memtable must be captured together with the immutable memtable and the current
        // version while the lock is held. Otherwise a memtable rotation followed by a flush can
        // slip in between and the read would miss the rotated entries in every source.
        let memtable = self.memtable();
        let maybe_immutable_memtable = db_fields_guard.maybe_immutable_memtable.clone();
        let current_version = db_fields_guard.version_set.get_current_version();
""",
       """        let mut db_fields_guard = self.guarded_fields.lock();
        let (snapshot, memtable, maybe_immutable_memtable, current_version) =
            DB::capture_read_state(self, &mut db_fields_guard, &read_options);
""")
# the helper itself is added by a second replacement in the same file: emulate with a combined patch below
M[-1]["extra"] = [("src/db.rs",
                   """    /// Get a shared reference to the memtable.
    fn memtable(&self) -> Arc<Box<dyn MemTable>> {""",
                   """    /// Capture everything a point read needs while the database lock is held.
    #[allow(clippy::type_complexity)]
    fn capture_read_state(
        &self,
        db_fields_guard: &mut MutexGuard<GuardedDbFields>,
        read_options: &ReadOptions,
    ) -> (
        u64,
        Arc<Box<dyn MemTable>>,
        Option<Arc<Box<dyn MemTable>>>,
        SharedNode<Version>,
    ) {
        let snapshot: u64 = if let Some(snapshot_handle) = read_options.snapshot.as_ref() {
            snapshot_handle.sequence_number()
        } else {
            db_fields_guard.version_set.get_prev_sequence_number()
        };
        let memtable = self.memtable();
        let maybe_immutable_memtable = db_fields_guard.maybe_immutable_memtable.clone();
        let current_version = db_fields_guard.version_set.get_current_version();
        (snapshot, memtable, maybe_immutable_memtable, current_version)
    }

    /// Get a shared reference to the memtable.
    fn memtable(&self) -> Arc<Box<dyn MemTable>> {""")]
benign("get_uses_unlocked_instead_of_unlocked_fair", ["C05", "C01", "C03", "C09", "C08"], "src/db.rs",
       """        let get_result = parking_lot::MutexGuard::unlocked_fair(
            &mut db_fields_guard,
            || -> RainDBResult<Option<Vec<u8>>> {""",
       """        let get_result = parking_lot::MutexGuard::unlocked(
            &mut db_fields_guard,
            || -> RainDBResult<Option<Vec<u8>>> {""")
benign("question_mark_spelled_out", ["C08", "C02", "C15"], "src/db.rs",
       """        let mut temp_file = filesystem_provider.create_file(&temp_file_path, false)?;""",
       """        let mut temp_file = match filesystem_provider.create_file(&temp_file_path, false) {
            Ok(file) => file,
            Err(create_err) => return Err(create_err),
        };""")
benign("drop_wait_loop_rewritten", ["C09", "C17"], "src/db.rs",
       """        while db_fields_guard.background_compaction_scheduled {
            log::info!("Detected pending background work. Waiting for it to finish.");
            self.background_work_finished_signal
                .wait(&mut db_fields_guard);

            log::info!("Checking for more background work.");
        }""",
       """        loop {
            if !db_fields_guard.background_compaction_scheduled {
                break;
            }
            log::info!("Detected pending background work. Waiting for it to finish.");
            self.background_work_finished_signal
                .wait(&mut db_fields_guard);
        }""")

# ---- ROLE-4
mut("edit_does_not_record_file_number", ["C02", "C01"], "ROLE-4", file="src/versioning/version_set.rs",
    old="""        change_manifest.curr_file_number = Some(version_set.curr_file_number);
""", new="""        if change_manifest.curr_file_number.is_none() && !change_manifest.new_files.is_empty() {
            change_manifest.curr_file_number = Some(version_set.curr_file_number);
        }
""", note="edits without new files no longer persist the file-number counter: WAL numbers can be reused after reopen")
mut("recover_does_not_restore_prev_wal", ["C02"], "ROLE-4", file="src/versioning/version_set.rs",
    old="""        self.prev_wal_number = maybe_prev_wal_num;

        // A manifest that ends""",
    new="""        // A manifest that ends""")

# ---- PAIR-8
mut("reversal_does_not_step_inner_iterator", ["C04"], "PAIR-8", file="src/iterator.rs",
    old="""            if !self.inner_iter.is_valid() {
                let _seek_result = self.inner_iter.seek_to_first();
            } else {
                self.inner_iter.next();
            }
""",
    new="""            if !self.inner_iter.is_valid() {
                let _seek_result = self.inner_iter.seek_to_first();
            }
""")
mut("merging_next_does_not_advance_current", ["C04"], "PAIR-8", file="src/versioning/file_iterators.rs",
    old="""        self.advance_current_iterator();
        self.find_smallest();""",
    new="""        self.find_smallest();""", note="fails tests probably; checker test only", suite=False)

# ---- D13 reverted, PAIR-9, C17 lock lifetime
mut("revert_D13", ["C16", "C02"], "GRD-12", file="src/db.rs",
    old="""        if self.options.reuse_log_files() && is_last_wal && num_compactions == 0 && is_wal_complete
        {""",
    new="""        if self.options.reuse_log_files() && is_last_wal && num_compactions == 0 {""",
    note="append-mode reuse of a WAL / manifest with a torn tail (D13 reverted at both sites)")
M[-1]["extra"] = [("src/versioning/version_set.rs", """        if is_manifest_complete && self.maybe_reuse_manifest(&manifest_file_path) {""",
                   """        if self.maybe_reuse_manifest(&manifest_file_path) {""")]
mut("boundary_inputs_not_added_for_compaction_level", ["C07"], "PAIR-9", file="src/compaction/manifest.rs",
    old="""        let input_version = self.maybe_input_version.as_ref().unwrap();
        CompactionManifest::add_boundary_inputs(
            &input_version.write().element.files[self.level],
            &mut self.input_files[0],
        );
        let mut compaction_level_key_range =""",
    new="""        let input_version = self.maybe_input_version.as_ref().unwrap();
        let mut compaction_level_key_range =""")
mut("destroy_lock_not_kept", ["C17"], "ORD-15", file="src/db.rs",
    old="""        let db_lock = match fs.lock_file(&lock_file_path) {""",
    new="""        let _ = match fs.lock_file(&lock_file_path) {""",
    note="needs the later drop(db_lock) removed too", suite=False)
M[-1]["extra"] = [("src/db.rs", """        drop(db_lock);

        log::info!("Deleting database lock file.");""", """        log::info!("Deleting database lock file.");""")]
mut("lock_released_before_waiting_for_background_work", ["C17", "C09"], "ORD-12", file="src/db.rs",
    old="""        self.is_shutting_down.store(true, Ordering::Release);
        while db_fields_guard.background_compaction_scheduled {""",
    new="""        self.is_shutting_down.store(true, Ordering::Release);
        self.db_lock.take();
        while db_fields_guard.background_compaction_scheduled {""")
mut("revert_D14", ["C15"], "MAN-1", patch="revert_D14_manifest_reader_skips_damage.diff", note="manifest read with WAL (skip) semantics")

# ---- ORD-8c / PAIR-10 / ORD-10 notify kind / OWN-5 / create mode / eof-always
mut("recovered_sequence_is_first_of_last_batch", ["C06", "C02"], "ORD-8c", file="src/db.rs",
    old="""            let last_transaction_seq_num =
                transaction.get_starting_seq_number().unwrap() + (transaction.len() as u64) - 1;""",
    new="""            let last_transaction_seq_num = transaction.get_starting_seq_number().unwrap();""")
mut("failed_finalize_leaves_closed_builder", ["C09", "C08"], "PAIR-10", file="src/compaction/state.rs",
    old="""            let finalize_result = self.table_builder_mut().finalize();
            if let Err(finalize_err) = finalize_result {
                maybe_error = Some(RainDBError::TableBuild(finalize_err));
            }""",
    new="""            self.table_builder_mut().finalize()?;""")
mut("worker_notifies_one_waiter", ["C09"], "ORD-10", file="src/compaction/worker.rs",
    old="""        background_work_finished_signal.notify_all();

        // The previous compaction may have created too many files in a level, so check and""",
    new="""        background_work_finished_signal.notify_one();

        // The previous compaction may have created too many files in a level, so check and""")
mut("filter_block_read_without_checksum", ["C15"], "OWN-5", file="src/tables/table.rs",
    old="""                let raw_filter_block = Table::read_block_from_disk(file, &filter_block_handle)?;
""",
    new="""                let mut raw_filter_block: Vec<u8> = vec![0; filter_block_handle.get_size() as usize];
                file.read_from(&mut raw_filter_block, filter_block_handle.get_offset() as usize)?;
""")
mut("new_manifest_opened_in_append_mode", ["C16"], "OWN-7", file="src/versioning/version_set.rs",
    old="""                version_set.options.filesystem_provider(),
                manifest_path.clone(),
                false,
            )?;""",
    new="""                version_set.options.filesystem_provider(),
                manifest_path.clone(),
                true,
            )?;""")
mut("eof_during_reassembly_is_an_error", ["C16", "C12", "C02"], "unexpected-eof-is-always-end-of-log", file="src/logs.rs",
    old="""                        ErrorKind::UnexpectedEof => return Ok((vec![], true)),""",
    new="""                        ErrorKind::UnexpectedEof if !in_fragmented_record => return Ok((vec![], true)),""")
mut("orphaned_last_fragment_completes_a_record", ["C15", "C12", "C16"], "TS-1", file="src/logs.rs",
    old="""                        // A fragment without the start of its record is dropped
                        if in_fragmented_record {
                            data_buffer.extend(record.data);
                            return Ok((data_buffer, false));
                        }""",
    new="""                        data_buffer.extend(record.data);
                        return Ok((data_buffer, false));""")

# ---- LCK-5
mut("finalize_inputs_under_version_read_guard", ["C09"], "LCK-5", file="src/versioning/version_set.rs",
    old="""                compaction_manifest
                    .get_mut_compaction_level_files()
                    .append(&mut new_compaction_files);
            }
        }

        self.release_version(current_version_node);
        compaction_manifest.finalize_compaction_inputs();
""",
    new="""                compaction_manifest
                    .get_mut_compaction_level_files()
                    .append(&mut new_compaction_files);
            }
            compaction_manifest.finalize_compaction_inputs();
        }

        self.release_version(current_version_node);
""", note="finalize_compaction_inputs takes the node's write lock while pick_compaction still holds its read guard: self-deadlock")

# ---- OWN-8 / LCK-6
mut("reuse_file_number_always_decrements", ["C10"], "OWN-8", file="src/versioning/version_set.rs",
    old="""        if self.curr_file_number == file_number {
            self.curr_file_number -= 1;
        }""",
    new="""        if self.curr_file_number >= file_number {
            self.curr_file_number -= 1;
        }""", note="a number handed back late is subtracted although newer numbers were issued: duplicate file numbers")
mut("mark_file_number_used_can_lower_counter", ["C10"], "OWN-8", file="src/versioning/version_set.rs",
    old="""        if self.curr_file_number <= file_number {
            self.curr_file_number = file_number;
        }""",
    new="""        self.curr_file_number = file_number;""")

mut("revert_D5", ["C07", "C01"], "ACC-1", patch="revert_D5_key_range_upper_bound.diff", note="upper bound of a file set's key range shrinks")

# ---- LCK-4b / ORD-9 pending imm / ORD-13
mut("forced_flush_wait_ignores_sticky_error", ["C09"], "LCK-4b", file="src/db.rs",
    old="""        while db_fields_guard.maybe_immutable_memtable.is_some()
            && db_fields_guard.maybe_bad_database_state.is_none()
        {""",
    new="""        while db_fields_guard.maybe_immutable_memtable.is_some() {""",
    note="after a failed flush the immutable memtable stays and compact_range waits forever")
mut("forced_flush_rotates_over_pending_imm", ["C05"], "ORD-9", file="src/db.rs",
    old="""            } else if mutex_guard.maybe_immutable_memtable.is_some() {
                /*
                We have filled up the current memtable, but the previous one is still being""",
    new="""            } else if !force_compaction && mutex_guard.maybe_immutable_memtable.is_some() {
                /*
                We have filled up the current memtable, but the previous one is still being""")
mut("flush_leaves_output_registered", ["C11"], "ORD-13", file="src/db.rs",
    old="""        db_fields_guard.tables_in_use.remove(&file_number);

        // If the file size is zero""",
    new="""        // If the file size is zero""")

# ---- TS-1 dropped fragment / GRD-14 / PAIR-11 / C10 error subset
mut("reader_tracks_fragmentation_by_buffer_emptiness", ["C12", "C16"], "TS-1", patch="ts_flag_replaced_by_buffer_emptiness.diff",
    note="in_fragmented_record replaced by !data_buffer.is_empty(): after a zero-length First fragment the Middle/Last fragments are dropped")
mut("manual_compaction_truncates_level0_inputs", ["C01", "C07"], "GRD-14", file="src/versioning/version_set.rs",
    old="""        if level_to_compact > 0 {
            /*
            Avoid compacting too much in one shot in case the range is large.""",
    new="""        if level_to_compact + 1 > 0 {
            /*
            Avoid compacting too much in one shot in case the range is large.""",
    note="level-0 inputs overlap; dropping one of them moves newer data below older data")
mut("manual_compaction_truncation_can_empty_inputs", ["C09"], "GRD-14", file="src/versioning/version_set.rs",
    old="""                    compaction_input_files.truncate(file_index + 1);""",
    new="""                    compaction_input_files.truncate(file_index);""",
    note="first file already over the limit -> empty inputs -> assert on the compaction thread")
mut("two_level_seek_to_first_keeps_stale_block_cursor", ["C04", "C13"], "PAIR-11", file="src/tables/table.rs",
    old="""        self.index_block_iter.seek_to_first()?;
        self.init_data_block()?;

        if self.maybe_data_block_iter.is_some() {
            self.maybe_data_block_iter
                .as_mut()
                .unwrap()
                .seek_to_first()?;
        }

        self.skip_empty_data_blocks_forward()?;""",
    new="""        self.index_block_iter.seek_to_first()?;
        self.init_data_block()?;
        self.skip_empty_data_blocks_forward()?;""")
mut("files_iterator_seek_to_last_positions_child_first", ["C04"], "PAIR-11", file="src/versioning/file_iterators.rs",
    old="""        self.set_table_iter(Some(new_file_index))?;

        if self.current_table_iter.is_some() {
            self.current_table_iter.as_mut().unwrap().seek_to_last()?;
        }

        self.skip_empty_table_files_backward()?;""",
    new="""        self.set_table_iter(Some(new_file_index))?;

        if self.current_table_iter.is_some() {
            self.current_table_iter.as_mut().unwrap().seek_to_first()?;
        }

        self.skip_empty_table_files_backward()?;""")
mut("filter_told_block_end_without_trailer", ["C13", "C14"], "PAIR-5", file="src/tables/table_builder.rs",
    old="""        self.filter_block_builder
            .notify_new_data_block(self.current_offset as usize);""",
    new="""        let block_end_offset = block_handle.get_offset() + block_handle.get_size();
        self.filter_block_builder
            .notify_new_data_block(block_end_offset as usize);""")
benign("two_level_seek_to_first_position_via_if_let", ["C04", "C13"], "src/tables/table.rs",
    old="""        self.index_block_iter.seek_to_first()?;
        self.init_data_block()?;

        if self.maybe_data_block_iter.is_some() {
            self.maybe_data_block_iter
                .as_mut()
                .unwrap()
                .seek_to_first()?;
        }
""",
    new="""        self.index_block_iter.seek_to_first()?;
        self.init_data_block()?;

        if let Some(data_block_iter) = self.maybe_data_block_iter.as_mut() {
            data_block_iter.seek_to_first()?;
        }
""", note="same behaviour written with if-let")
benign("manual_compaction_truncate_len_in_local", ["C09", "C01"], "src/versioning/version_set.rs",
    old="""                    compaction_input_files.truncate(file_index + 1);""",
    new="""                    let keep = file_index + 1;
                    compaction_input_files.truncate(keep);""")

# ---- TS-2 writer fragment typing / GRD-12 cursor
mut("writer_swaps_first_and_last_types", ["C12"], "TS-2", file="src/logs.rs",
    old="""            } else if is_first_data_chunk {
                BlockType::First
            } else if is_last_data_chunk {
                BlockType::Last""",
    new="""            } else if is_last_data_chunk {
                BlockType::First
            } else if is_first_data_chunk {
                BlockType::Last""")
mut("writer_clears_first_flag_only_at_the_end", ["C12"], "TS-2", file="src/logs.rs",
    old="""            is_first_data_chunk = false;

            if data_to_write.is_empty() {""",
    new="""            if data_to_write.is_empty() {
                is_first_data_chunk = false;""")
mut("writer_last_flag_compares_with_room", ["C12"], "TS-2", file="src/logs.rs",
    old="""            let is_last_data_chunk = data_to_write.len() == block_data_chunk_length;""",
    new="""            let is_last_data_chunk = data_to_write.len() == space_available_for_data;""")
mut("writer_chunk_is_max_of_remaining_and_room", ["C12"], "TS-2", file="src/logs.rs",
    old="""            let block_data_chunk_length = if data_to_write.len() < space_available_for_data {""",
    new="""            let block_data_chunk_length = if data_to_write.len() > space_available_for_data {""")
mut("reader_cursor_counts_partial_reads", ["C16", "C02"], "GRD-12", patch="reader_cursor_counts_partial_reads.diff",
    note="a torn tail is counted as consumed, so is_fully_consumed() lets the torn log be re-opened for appending")
benign("writer_reordered_equivalent_type_chain", ["C12"], "src/logs.rs",
    old="""            } else if is_first_data_chunk {
                BlockType::First
            } else if is_last_data_chunk {
                BlockType::Last""",
    new="""            } else if is_last_data_chunk {
                BlockType::Last
            } else if is_first_data_chunk {
                BlockType::First""", note="same truth table (Full is decided first)")
benign("writer_type_by_tuple_match", ["C12"], "src/logs.rs",
    old="""            let block_type = if is_first_data_chunk && is_last_data_chunk {
                BlockType::Full
            } else if is_first_data_chunk {
                BlockType::First
            } else if is_last_data_chunk {
                BlockType::Last
            } else {
                BlockType::Middle
            };""",
    new="""            let block_type = match (is_first_data_chunk, is_last_data_chunk) {
                (true, true) => BlockType::Full,
                (true, false) => BlockType::First,
                (false, true) => BlockType::Last,
                (false, false) => BlockType::Middle,
            };""")
benign("writer_chunk_by_cmp_min", ["C12"], "src/logs.rs",
    old="""            let block_data_chunk_length = if data_to_write.len() < space_available_for_data {
                data_to_write.len()
            } else {
                space_available_for_data
            };""",
    new="""            let block_data_chunk_length = std::cmp::min(data_to_write.len(), space_available_for_data);""")
benign("reader_cursor_amount_in_local", ["C16", "C02", "C12"], "src/logs.rs",
    old="""        self.current_cursor_position += header_buffer.len() + data_bytes_read;""",
    new="""        let consumed = header_buffer.len() + data_bytes_read;
        self.current_cursor_position += consumed;""")

# ---- C14 builder / Bloom agreement / D15; C17 unlink; C11 recovery WAL number
mut("revert_D15", ["C14"], "GRD-15", patch="revert_D15_metaindex_key_check.diff", note="filter block of another policy handed to the configured one")
mut("filter_builder_skips_empty_key", ["C14"], "PAIR-5b", file="src/tables/filter_block_builder.rs",
    old="""    pub(crate) fn add_key(&mut self, key: Vec<u8>) {
        self.keys.push(key);""",
    new="""    pub(crate) fn add_key(&mut self, key: Vec<u8>) {
        if key.is_empty() {
            return;
        }
        self.keys.push(key);""")
mut("filter_builder_clears_keys_before_filter", ["C14"], "PAIR-5b", file="src/tables/filter_block_builder.rs",
    old="""        let filter = self.filter_policy.create_filter(&self.keys);
        self.filters.push(filter);

        self.keys.clear();""",
    new="""        let pending = self.keys.split_off(self.keys.len() / 2);
        self.keys.clear();
        let filter = self.filter_policy.create_filter(&pending);
        self.filters.push(filter);""", note="half of the pending keys never reach a filter")
mut("bloom_reader_probe_count_from_config", ["C14"], "AGR-1", file="src/filter_policy.rs",
    old="""        for _ in 0..*num_hash_functions {""",
    new="""        for _ in 0..self.num_hash_functions {""")
mut("bloom_reader_rotation_differs", ["C14"], "AGR-1", file="src/filter_policy.rs",
    old="""        let delta: u32 = (hash >> 17) | (hash << 15);
        for _ in 0..*num_hash_functions {""",
    new="""        let delta: u32 = (hash >> 15) | (hash << 17);
        for _ in 0..*num_hash_functions {""")
benign("bloom_reader_rotation_by_rotate_right", ["C14"], "src/filter_policy.rs",
    old="""        let delta: u32 = (hash >> 17) | (hash << 15);
        for _ in 0..*num_hash_functions {""",
    new="""        let delta: u32 = hash.rotate_right(17);
        for _ in 0..*num_hash_functions {""")
mut("lock_file_unlinks_on_refusal", ["C17"], "GRD-9", patch="lock_file_unlinks_on_refusal.diff")
mut("recovery_edit_keeps_old_wal_number", ["C11"], "ORD-16", file="src/db.rs",
    old="""            version_change_manifest.prev_wal_file_number = None;
            version_change_manifest.wal_file_number = Some(db_fields_guard.curr_wal_file_number);""",
    new="""            version_change_manifest.prev_wal_file_number = None;""")
mut("edit_wal_number_from_db_field", ["C11", "C02"], "ROLE-4", patch="edit_wal_number_from_db_field.diff")

# ---- KEY-1
mut("internal_key_sequence_ascending", ["C01", "C03", "C04", "C13"], "KEY-1", file="src/key.rs",
    old="""        other.sequence_number.cmp(&self.sequence_number)
    }""",
    new="""        self.sequence_number.cmp(&other.sequence_number)
    }""")
benign("internal_key_cmp_by_match", ["C01", "C13"], "src/key.rs",
    old="""        if self.user_key.as_slice().ne(other.user_key.as_slice()) {
            return self.user_key.as_slice().cmp(other.user_key.as_slice());
        }

        // Check the sequence number if the keys are equal.
        // This orders the sequence numbers in descending order because we want to bias toward the
        // most recent operations.
        other.sequence_number.cmp(&self.sequence_number)""",
    new="""        match self.user_key.as_slice().cmp(other.user_key.as_slice()) {
            std::cmp::Ordering::Equal => other.sequence_number.cmp(&self.sequence_number),
            ordering => ordering,
        }""")
benign("internal_key_cmp_by_then_with", ["C01", "C13"], "src/key.rs",
    old="""        if self.user_key.as_slice().ne(other.user_key.as_slice()) {
            return self.user_key.as_slice().cmp(other.user_key.as_slice());
        }

        // Check the sequence number if the keys are equal.
        // This orders the sequence numbers in descending order because we want to bias toward the
        // most recent operations.
        other.sequence_number.cmp(&self.sequence_number)""",
    new="""        self.user_key
            .as_slice()
            .cmp(other.user_key.as_slice())
            .then_with(|| other.sequence_number.cmp(&self.sequence_number))""")

# ---- ROLE-5
mut("version_builder_merge_emits_larger_first", ["C10", "C01"], "ROLE-5", file="src/versioning/version_builder.rs",
    old="""                if FileMetadataBySmallestKey::compare(base_file, added_file) == Ordering::Less {""",
    new="""                if FileMetadataBySmallestKey::compare(added_file, base_file) == Ordering::Less {""")
mut("file_order_descending", ["C10", "C01"], "ROLE-5", file="src/versioning/file_metadata.rs",
    old="""        let order = a_smallest_key.cmp(b_smallest_key);""",
    new="""        let order = b_smallest_key.cmp(a_smallest_key);""")
mut("readded_file_stays_deleted", ["C10"], "ROLE-5", file="src/versioning/version_builder.rs",
    old="""            self.deleted_files[*level].remove(&new_file.file_number());
""",
    new="""""")
mut("deleted_files_kept_in_new_version", ["C10", "C01"], "ROLE-5", file="src/versioning/version_builder.rs",
    old="""        if self.deleted_files[level].contains(&file.file_number()) {
            // Don't add the file if it is marked for deletion
            return;
        }

        let files""",
    new="""        let files""")
benign("version_builder_merge_negated_comparison", ["C10", "C01"], "src/versioning/version_builder.rs",
    old="""                if FileMetadataBySmallestKey::compare(base_file, added_file) == Ordering::Less {""",
    new="""                if FileMetadataBySmallestKey::compare(added_file, base_file) != Ordering::Less {""")

mut("new_snapshot_pushed_at_the_oldest_end", ["C03", "C07"], "ORD-7", file="src/snapshots.rs",
    old="""        Snapshot::new(self.list.push(snapshot))""",
    new="""        Snapshot::new(self.list.push_front(snapshot))""", note="oldest() then returns the newest snapshot: entries older snapshots need are dropped")

mut("read_sample_level_outside_first_file_guard", ["C10"], "PAIR-12", patch="read_sample_level_outside_first_file_guard.diff",
    note="the charged file is paired with the level of the last overlapping file: a trivial move then lists it at two levels")

# ---- SRC-1
mut("iterator_skips_last_level", ["C04", "C03"], "SRC-1", file="src/versioning/version.rs",
    old="""        for level in 1..MAX_NUM_LEVELS {
            let level_files = &self.files[level];
            if level_files.is_empty() {
                continue;
            }

            let file_list_iter = Box::new(FilesEntryIterator::new(""",
    new="""        for level in 1..MAX_NUM_LEVELS - 1 {
            let level_files = &self.files[level];
            if level_files.is_empty() {
                continue;
            }

            let file_list_iter = Box::new(FilesEntryIterator::new(""")
mut("iterator_ignores_imm_while_flag_set", ["C04", "C06"], "SRC-1", file="src/db.rs",
    old="""        if db_fields_guard.maybe_immutable_memtable.is_some() {
            let immutable_memtable_iter = db_fields_guard""",
    new="""        if db_fields_guard.maybe_immutable_memtable.is_some() && !self.has_immutable_memtable.load(Ordering::Acquire) {
            let immutable_memtable_iter = db_fields_guard""")
benign("iterator_imm_by_if_let", ["C04", "C03", "C06"], "src/db.rs",
    old="""        if db_fields_guard.maybe_immutable_memtable.is_some() {
            let immutable_memtable_iter = db_fields_guard
                .maybe_immutable_memtable
                .as_ref()
                .unwrap()
                .iter();
            db_iterators.push(immutable_memtable_iter);
        }""",
    new="""        if let Some(immutable_memtable) = db_fields_guard.maybe_immutable_memtable.as_ref() {
            db_iterators.push(immutable_memtable.iter());
        }""")

# ---- SRC-2
mut("level0_candidates_oldest_first", ["C01", "C03"], "SRC-2", file="src/versioning/version.rs",
    old="""        files[0].sort_by_key(|f| Reverse(f.file_number()));""",
    new="""        files[0].sort_by_key(|f| f.file_number());""")
benign("level0_candidates_sorted_by_cmp", ["C01", "C03"], "src/versioning/version.rs",
    old="""        files[0].sort_by_key(|f| Reverse(f.file_number()));""",
    new="""        files[0].sort_by(|a, b| b.file_number().cmp(&a.file_number()));""")

# ---- GRD-16
mut("trivial_move_with_parent_level_overlap", ["C10", "C09"], "GRD-16", file="src/compaction/manifest.rs",
    old="""        num_compaction_level_files == 1
            && num_parent_level_files == 0
            && is_grandparents_overlap_under_limit""",
    new="""        num_compaction_level_files == 1
            && (num_parent_level_files == 0 || is_grandparents_overlap_under_limit)""")
benign("trivial_move_by_early_return", ["C10", "C09"], "src/compaction/manifest.rs",
    old="""        num_compaction_level_files == 1
            && num_parent_level_files == 0
            && is_grandparents_overlap_under_limit""",
    new="""        if num_compaction_level_files != 1 || !self.input_files[1].is_empty() {
            return false;
        }
        is_grandparents_overlap_under_limit""")

# ---- GRD-17
mut("flush_level_skips_next_level_overlap_check_at_level0", ["C01", "C07"], "GRD-17", file="src/versioning/version.rs",
    old="""            if self.has_overlap_in_level(level + 1, Some(smallest_user_key), Some(largest_user_key))
            {
                break;
            }
""",
    new="""            if level > 0
                && self.has_overlap_in_level(level + 1, Some(smallest_user_key), Some(largest_user_key))
            {
                break;
            }
""", note="a flush whose range overlaps level 1 is placed at level 1 or deeper next to / below older data")
benign("flush_level_overlap_test_in_local", ["C01", "C07"], "src/versioning/version.rs",
    old="""            if self.has_overlap_in_level(level + 1, Some(smallest_user_key), Some(largest_user_key))
            {
                break;
            }
""",
    new="""            let next_level_overlaps =
                self.has_overlap_in_level(level + 1, Some(smallest_user_key), Some(largest_user_key));
            if next_level_overlaps {
                break;
            }
""")

# ---- PAIR-13
mut("first_flushed_block_not_indexed", ["C13"], "PAIR-13", file="src/tables/table_builder.rs",
    old="""            if let Some(block_handle) = maybe_block_handle {
                // Insert an index entry if a block was written
                let last_key_added = self.maybe_last_key_added.as_ref().unwrap();
                let key_separator =
                    BinarySeparable::find_shortest_separator(last_key_added.as_ref(), key.as_ref());""",
    new="""            if let (Some(block_handle), true) = (maybe_block_handle, self.num_entries > 1) {
                // Insert an index entry if a block was written
                let last_key_added = self.maybe_last_key_added.as_ref().unwrap();
                let key_separator =
                    BinarySeparable::find_shortest_separator(last_key_added.as_ref(), key.as_ref());""",
    note="with max_block_size small enough for one-entry blocks the first block is written but never indexed")
mut("footer_handles_swapped", ["C13"], "PAIR-13", file="src/tables/table_builder.rs",
    old="""        let footer = Footer::new(metaindex_handle, index_block_handle);""",
    new="""        let footer = Footer::new(index_block_handle, metaindex_handle);""")

# ---- round-3 misses: stale block handle, GC after scheduling in open, iterator capture before the lock
mut("two_level_stale_block_handle", ["C04"], "PAIR-12", patch="two_level_stale_block_handle.diff",
    note="data_block_handle survives while the block iterator is dropped: the first block is skipped on re-entry")
mut("open_schedules_before_gc", ["C11"], "ORD-16", patch="open_schedules_before_gc.diff",
    note="a compaction scheduled before the opener's GC can re-issue an orphan's file number, which the opener then unlinks")
mut("new_iterator_memtable_before_lock", ["C04", "C05", "C03"], "LCK-", patch="new_iterator_memtable_before_lock.diff")

# ---- ORD-8c running maximum; AGR-1 header; PAIR-12 in C13
mut("recovered_sequence_is_the_last_logs_not_the_maximum", ["C06", "C02", "C01"], "ORD-8c", file="src/db.rs",
    old="""            if last_sequence_seen > max_sequence_num_seen {
                max_sequence_num_seen = last_sequence_seen;
            }""",
    new="""            max_sequence_num_seen = last_sequence_seen;""", note="an empty last WAL resets the recovered sequence to 0")
benign("recovered_sequence_by_cmp_max", ["C06", "C02", "C01"], "src/db.rs",
    old="""            if last_sequence_seen > max_sequence_num_seen {
                max_sequence_num_seen = last_sequence_seen;
            }""",
    new="""            max_sequence_num_seen = std::cmp::max(max_sequence_num_seen, last_sequence_seen);""")
mut("bloom_probes_clamped_only_in_the_loop", ["C14"], "AGR-1", patch="bloom_probes_clamped_only_in_the_loop.diff",
    note="header byte says 31..44 probes, 30 are set: the reader reports added keys as absent for bits_per_key >= 45")
mut("l0_count_hoisted_out_of_wait_loop", ["C09"], "LCK-4c", patch="l0_count_hoisted_out_of_wait_loop.diff",
    note="the level-0 file count is read once before the stall loop: a writer stalled on 12 level-0 files is never released")

# ---- 30 behaviour-preserving refactorings written by two independent sub-agents (given only the instruction to keep behaviour
#      unchanged; suite passing with each): every check must stay silent on each of them
ALL = ['C%02d' % i for i in range(1, 18)]


def benign_patch(name, patch, note=""):
    M.append(dict(name=name, kind="benign", props=ALL, expect=None, file=None, old=None, new=None, patch=patch, note=note, suite=True))


benign_patch("refactor_db_get_cloned_and_then", "benign/set1_refactor01.diff", note='DB::get: match on Option -> .cloned(); result match -> and_then/ok_or')
benign_patch("refactor_apply_changes_loop_and_if_let_front", "benign/set1_refactor02.diff", note='DB::apply_changes: while -> loop/break (De Morgan); is_empty+front().unwrap() -> if let Some')
benign_patch("refactor_make_room_match_on_wal_writer", "benign/set1_refactor03.diff", note='DB::make_room_for_write: is_err/err().unwrap()/unwrap() -> one match')
benign_patch("refactor_gc_if_let_extend_eq_some", "benign/set1_refactor04.diff", note='DB::remove_obsolete_files: is_some+clone().unwrap() -> if let; insert loop -> extend; match -> == Some(x)')
benign_patch("refactor_writer_min_and_block_type_helper", "benign/set1_refactor05.diff", note='LogWriter::append: if -> cmp::min; block type selection extracted into a helper')
benign_patch("refactor_reader_if_let_err_to_match", "benign/set1_refactor06.diff", note='LogReader::read_record: if let Err .. else unwrap -> match')
benign_patch("refactor_compact_tables_smallest_snapshot_local", "benign/set1_refactor07.diff", note='compact_tables: smallest snapshot selected into a local; CompactionState::new hoisted')
benign_patch("refactor_open_output_file_block_expression", "benign/set1_refactor08.diff", note='CompactionState::open_compaction_output_file: deferred init -> block expression')
benign_patch("refactor_compact_range_enumerate_truncate_after_loop", "benign/set1_refactor09.diff", note='VersionSet::compact_range: index loop -> enumerate; truncate after the loop via Option')
benign_patch("refactor_some_file_overlaps_de_morgan_match", "benign/set1_refactor10.diff", note='Version::some_file_overlaps_range: De Morgan; is_none/is_some+unwrap -> match')
benign_patch("refactor_table_get_match_if_let", "benign/set1_refactor11.diff", note='Table::get: is_none/unwrap -> match; is_some && !unwrap -> if let')
benign_patch("refactor_table_builder_add_index_entry_helper", "benign/set1_refactor12.diff", note='TableBuilder: duplicated index-entry statements extracted into a helper')
benign_patch("refactor_set_table_iter_guarded_match", "benign/set1_refactor13.diff", note='FilesEntryIterator::set_table_iter: is_none || unwrap()==len -> guarded match')
benign_patch("refactor_writer_locals_inlined_renamed", "benign/set1_refactor14.diff", note='writers.rs: single-use local inlined, guard renamed')
benign_patch("refactor_bloom_new_min_max", "benign/set1_refactor15.diff", note='BloomFilterPolicy::new/create_filter: if/else-if clamp -> cmp::max/min')
benign_patch("refactor_db_get_capture_order", "benign/set2_refactor01.diff", note='DB::get: version / immutable memtable / memtable captured in a different order under the lock')
benign_patch("refactor_apply_changes_loop_break", "benign/set2_refactor02.diff", note='DB::apply_changes: while !a && !b -> loop { if a || b { break } }')
benign_patch("refactor_make_room_operand_swaps", "benign/set2_refactor03.diff", note='DB::make_room_for_write: operand swaps with flipped operators')
benign_patch("refactor_gc_ok_true_false_arms", "benign/set2_refactor04.diff", note='DB::remove_obsolete_files: Ok(is_dir) => if -> Ok(true)/Ok(false) arms')
benign_patch("refactor_reader_match_err_ok", "benign/set2_refactor05.diff", note='LogReader::read_record: if let Err/else unwrap -> match')
benign_patch("refactor_writer_type_by_tuple_match_agent", "benign/set2_refactor06.diff", note='LogWriter::append: if chain -> match on (is_first, is_last)')
benign_patch("refactor_drop_decision_one_boolean_expression", "benign/set2_refactor07.diff", note='compact_tables: mutable drop flag -> one boolean expression')
benign_patch("refactor_finish_output_file_match_expression", "benign/set2_refactor08.diff", note='CompactionState::finish_compaction_output_file: mutable Option -> match expression')
benign_patch("refactor_compact_range_enumerate_single_truncate", "benign/set2_refactor09.diff", note='VersionSet::compact_range: enumerate with a single truncate(len or index+1) after the loop')
benign_patch("refactor_overlap_tests_de_morgan", "benign/set2_refactor10.diff", note='Version::some_file_overlaps_range / get_overlapping_compaction_inputs: De Morgan')
benign_patch("refactor_read_block_map_err_question_mark", "benign/set2_refactor11.diff", note='Table::read_block_from_disk: match Err => return -> .map_err(f)?')
benign_patch("refactor_write_block_single_emit", "benign/set2_refactor12.diff", note='TableBuilder::write_block: slice and compression type selected, one emit call')
benign_patch("refactor_db_iterator_seek_else_branch", "benign/set2_refactor13.diff", note='DatabaseIterator::seek / seek_to_first: early return -> else branch')
benign_patch("refactor_writer_temporaries_inlined", "benign/set2_refactor14.diff", note='writers.rs: struct literal and guard temporaries inlined')
benign_patch("refactor_bloom_min_max_assignments", "benign/set2_refactor15.diff", note='BloomFilterPolicy: cmp::min/max instead of if-assignments')

mut("cache_id_read_then_write", ["C13", "C05"], "OWN-10", patch="cache_id_read_then_write.diff",
    note="tables opened concurrently can share a block-cache partition id and serve each other's blocks")

# ---- 35 more, aimed at the functions the rules anchor on (sets 3 and 4)
benign_patch("refactor_s3_01", "benign/set3_refactor01.diff", note='DB::open: if let Err {log; return Err} -> .map_err(..)?')
benign_patch("refactor_s3_02", "benign/set3_refactor02.diff", note='DB::recover: mut local dropped; named locals')
benign_patch("refactor_s3_03", "benign/set3_refactor03.diff", note='DB::recover_unrecorded_logs: nested match flattened into Ok(Pattern) arms')
benign_patch("refactor_s3_04", "benign/set3_refactor04.diff", note='DB::recover_wal_records: while !is_eof -> loop { if is_eof { break } }')
benign_patch("refactor_s3_05", "benign/set3_refactor05.diff", note='DB::destroy_database: lock acquisition extracted into a private helper')
benign_patch("refactor_s3_06", "benign/set3_refactor06.diff", note='Drop for DB: local for the WAL pointer, narrower unsafe block')
benign_patch("refactor_s3_07", "benign/set3_refactor07.diff", note='DB::set_current_file: is_err()/err().unwrap() -> if let Err(e)')
benign_patch("refactor_s3_08", "benign/set3_refactor08.diff", note='DB::build_group_commit_batch: iter()+next() -> iter().skip(1)')
benign_patch("refactor_s3_09", "benign/set3_refactor09.diff", note='DB::apply_batch_to_memtable: map_or(vec![], ..) -> match')
benign_patch("refactor_s3_10", "benign/set3_refactor10.diff", note='DB::convert_memtable_to_file: let mut level + if -> immutable if/else; if let -> match')
benign_patch("refactor_s3_11", "benign/set3_refactor11.diff", note='DB::build_table_from_iterator: duplicated remove_file extracted into helper remove_table_file')
benign_patch("refactor_s3_12", "benign/set3_refactor12.diff", note='DB::new_iterator: is_some()/as_ref().unwrap() -> if let Some')
benign_patch("refactor_s3_13", "benign/set3_refactor13.diff", note='DB::get_descriptor: early return Err -> if/else expression')
benign_patch("refactor_s3_14", "benign/set3_refactor14.diff", note='DB::force_level_compaction: is_some() && ptr_eq(unwrap()) -> match into a named bool')
benign_patch("refactor_s3_15", "benign/set3_refactor15.diff", note='DB::should_schedule_compaction: De Morgan on the three-way condition')
benign_patch("refactor_s4_01", "benign/set4_refactor01.diff", note='compaction_task: early return -> if/else tail expression')
benign_patch("refactor_s4_02", "benign/set4_refactor02.diff", note='coordinate_compaction: is_some()/unwrap() -> if let Some + local')
benign_patch("refactor_s4_03", "benign/set4_refactor03.diff", note='compact_tables merge loop: while a && !b -> loop/break (De Morgan)')
benign_patch("refactor_s4_04", "benign/set4_refactor04.diff", note='compact_tables drop logic: local smallest_snapshot for a repeated getter')
benign_patch("refactor_s4_05", "benign/set4_refactor05.diff", note='finish_compaction_output_file: let mut + nested if let -> one match')
benign_patch("refactor_s4_06", "benign/set4_refactor06.diff", note='add_boundary_inputs: is_none/unwrap -> match; loop/break -> while let')
benign_patch("refactor_s4_07", "benign/set4_refactor07.diff", note='is_base_level_for_key: operand swap with flipped operators')
benign_patch("refactor_s4_08", "benign/set4_refactor08.diff", note='log_and_apply: if let Err {log; return Err} -> .map_err(..)?')
benign_patch("refactor_s4_09", "benign/set4_refactor09.diff", note='persist_changes: ? spelled out')
benign_patch("refactor_s4_10", "benign/set4_refactor10.diff", note='write_snapshot: index loop + is_some/unwrap -> enumerate + if let')
benign_patch("refactor_s4_11", "benign/set4_refactor11.diff", note='get_overlapping_compaction_inputs: empty if/else -> negated condition')
benign_patch("refactor_s4_12", "benign/set4_refactor12.diff", note='record_read_sample: early return -> short-circuit && expression')
benign_patch("refactor_s4_13", "benign/set4_refactor13.diff", note='LogReader::read_record: match on error kind -> if == / return')
benign_patch("refactor_s4_14", "benign/set4_refactor14.diff", note='LogWriter::emit_block: log messages reworded')
benign_patch("refactor_s4_15", "benign/set4_refactor15.diff", note='Table::get: is_none/unwrap -> match; is_some && .. -> nested if let')
benign_patch("refactor_s4_16", "benign/set4_refactor16.diff", note='TwoLevelIterator: data-block positioning extracted into helper seek_data_block_to_first')
benign_patch("refactor_s4_17", "benign/set4_refactor17.diff", note='MergingIterator::next/prev: trivial step helpers inlined and removed')
benign_patch("refactor_s4_18", "benign/set4_refactor18.diff", note='DatabaseIterator::next: duplicated block hoisted out of both branches')
benign_patch("refactor_s4_19", "benign/set4_refactor19.diff", note='FilterBlockReader::key_may_match: else + trailing true -> early return, match as tail')
benign_patch("refactor_s4_20", "benign/set4_refactor20.diff", note='lock_file (both disk file systems): shared private fn create_and_lock_file')

# ---- round 4: GRD-19 / GRD-20 / GRD-21
mut("seek_compaction_skips_level0_expansion", ["C05", "C03", "C01", "C07"], "GRD-19", patch="seek_compaction_skips_level0_expansion.diff")
mut("any_current_open_error_reinitialises", ["C08", "C02", "C11"], "GRD-20", patch="any_current_open_error_reinitialises.diff",
    note="a transient failure to open CURRENT of an existing database starts a new one; GC then deletes every table")
mut("failed_install_removes_live_manifest", ["C08", "C02", "C11"], "GRD-21", patch="failed_install_removes_live_manifest.diff")

# ---- 30 more (sets 5 and 6), aimed at the functions the newest rules anchor on
benign_patch("refactor_s5_01", "benign/set5_refactor01.diff", note='pick_compaction: is_none()||unwrap() -> match on a hoisted Option')
benign_patch("refactor_s5_02", "benign/set5_refactor02.diff", note='compact_range: enumerate; truncate after the loop via Option<usize>')
benign_patch("refactor_s5_03", "benign/set5_refactor03.diff", note='DB::recover: re-assigned mut local removed')
benign_patch("refactor_s5_04", "benign/set5_refactor04.diff", note='log_and_apply: Ok arm extracted into install_new_version')
benign_patch("refactor_s5_05", "benign/set5_refactor05.diff", note='get_new_version_from_current: is_some/unwrap -> if let; computed flag reused')
benign_patch("refactor_s5_06", "benign/set5_refactor06.diff", note='InternalKey::cmp: one match on the user-key ordering')
benign_patch("refactor_s5_07", "benign/set5_refactor07.diff", note='VersionBuilder::apply_changes: drain loops over remaining sub-slices')
benign_patch("refactor_s5_08", "benign/set5_refactor08.diff", note='maybe_add_file: !is_empty()+last().unwrap() -> if let Some(last)')
benign_patch("refactor_s5_09", "benign/set5_refactor09.diff", note='FileMetadataBySmallestKey::compare: early return when not Equal')
benign_patch("refactor_s5_10", "benign/set5_refactor10.diff", note='get_representative_iterators: 1..MAX -> files.iter().skip(1); continue -> inverted if')
benign_patch("refactor_s5_11", "benign/set5_refactor11.diff", note='get_overlapping_files: operand swaps; Arc::clone spelling')
benign_patch("refactor_s5_12", "benign/set5_refactor12.diff", note='pick_level_for_memtable_output: while -> loop/break; threshold local')
benign_patch("refactor_s5_13", "benign/set5_refactor13.diff", note='is_trivial_move: getter inlined; len()==0 -> is_empty(); locals')
benign_patch("refactor_s5_14", "benign/set5_refactor14.diff", note='TableCache::find_table: disk open extracted into open_table_file')
benign_patch("refactor_s5_15", "benign/set5_refactor15.diff", note='recover_unrecorded_logs: nested match flattened')
benign_patch("refactor_s6_01", "benign/set6_refactor01.diff", note='TableBuilder::add_entry: single-use local inlined; Rc::clone dropped')
benign_patch("refactor_s6_02", "benign/set6_refactor02.diff", note='TableBuilder::finalize: write_footer extracted')
benign_patch("refactor_s6_03", "benign/set6_refactor03.diff", note='notify_new_data_block: while -> loop/break with swapped operands')
benign_patch("refactor_s6_04", "benign/set6_refactor04.diff", note='create_filter: cmp::max; mut local split')
benign_patch("refactor_s6_05", "benign/set6_refactor05.diff", note='key_may_match: is_bit_set helper')
benign_patch("refactor_s6_06", "benign/set6_refactor06.diff", note='read_filter_meta_block: map_err(..)?')
benign_patch("refactor_s6_07", "benign/set6_refactor07.diff", note='LogWriter::append: cmp::min; get_block_type helper')
benign_patch("refactor_s6_08", "benign/set6_refactor08.diff", note='LogReader::read_record: if let Err/else -> match')
benign_patch("refactor_s6_09", "benign/set6_refactor09.diff", note='InMemoryFileSystem::lock_file: nested match flattened')
benign_patch("refactor_s6_10", "benign/set6_refactor10.diff", note='Version::update_stats: guard clauses; De Morgan')
benign_patch("refactor_s6_11", "benign/set6_refactor11.diff", note='make_room_for_write: if let Some(..)=.as_ref(); else-if split; log reworded')
benign_patch("refactor_s6_12", "benign/set6_refactor12.diff", note='DB::get: Option::cloned() for both memtables')
benign_patch("refactor_s6_13", "benign/set6_refactor13.diff", note='Drop for DB: while -> loop/break')
benign_patch("refactor_s6_14", "benign/set6_refactor14.diff", note='coordinate_compaction: if let Some; local')
benign_patch("refactor_s6_15", "benign/set6_refactor15.diff", note='destroy_database: map_err(..)?; lock path local reused')

# ---- FS-1
mut("mem_fs_append_keeps_cursor", ["C01", "C02", "C12", "C16"], "FS-1", patch="mem_fs_append_keeps_cursor.diff",
    note="InMemoryFileSystem::create_file(append=true) no longer moves the cursor to the end: a re-used manifest is overwritten from its start")
mut("disk_fs_create_never_truncates", ["C12", "C02"], "FS-1", file="src/fs/fs_disk.rs",
    old="""        if append {
            open_options.append(true);
        } else {
            open_options.truncate(true);
        }

        let file = open_options.open(path)?;""",
    new="""        if append {
            open_options.append(true);
        }

        let file = open_options.open(path)?;""")
benign("disk_fs_modes_from_flag", ["C12", "C02", "C16", "C01"], "src/fs/fs_disk.rs",
    old="""        if append {
            open_options.append(true);
        } else {
            open_options.truncate(true);
        }

        let file = open_options.open(path)?;""",
    new="""        open_options.append(append).truncate(!append);

        let file = open_options.open(path)?;""")

# ---- D16 / PAIR-14
mut("revert_D16", ["C09", "C10"], "GRD-22", patch="revert_D16_flush_level_during_compaction.diff", note="a flush inside a table compaction may be placed at the compaction's output level")
mut("parent_inputs_from_the_hull_range", ["C10", "C09"], "PAIR-14", patch="parent_inputs_from_the_hull_range.diff")
mut("grown_inputs_adopted_without_parents", ["C10", "C09"], "PAIR-14", patch="grown_inputs_adopted_without_parents.diff")

# ---- PAIR-15 / ORD-3c
mut("seek_charge_applied_to_fresh_version", ["C07", "C01"], "PAIR-15", patch="seek_charge_applied_to_fresh_version.diff")
mut("shutdown_shortened_merge_installed", ["C07", "C01"], "ORD-3c", patch="shutdown_shortened_merge_installed.diff",
    note="a merge loop stopped by shutdown before any output was opened is installed: all inputs are deleted")

# ---- round 4 wave 3
mut("table_block_written_with_write", ["C13"], "GRD-18", patch="table_block_written_with_write.diff", note="a short write shifts every later block handle")
mut("filter_policy_error_fails_closed_two_sites", ["C14", "C13"], "GRD-8", patch="filter_policy_error_fails_closed_two_sites.diff")
mut("filter_index_offset_truncated", ["C14", "C13"], "GRD-8", patch="filter_index_offset_truncated.diff", note="block offsets >= 4 GiB probe the wrong filter")
mut("wal_reuse_when_eof_or_consumed", ["C12", "C16", "C02"], "GRD-12", patch="wal_reuse_when_eof_or_consumed.diff")
mut("gc_after_scheduled_flag_cleared", ["C17", "C09"], "ORD-10", patch="gc_after_scheduled_flag_cleared.diff",
    note="Drop sees the flag cleared and releases LOCK while the old instance is still unlinking files")
mut("version_get_error_breaks_inner_loop_only", ["C15", "C08", "C01"], "VERD-1", patch="version_get_error_breaks_inner_loop_only.diff",
    note="a damaged newer table is skipped and an older value from a deeper level is returned")
mut("recovery_flush_with_base_version", ["C16", "C02"], "GRD-22", patch="recovery_flush_with_base_version.diff",
    note="a table written during WAL replay is placed below level 0 although earlier replayed WALs' tables are still pending")

# ---- GRD-23
mut("read_sample_charges_single_file_keys", ["C09"], "GRD-23", file="src/versioning/version.rs",
    old="""        if num_files_with_key >= 2 {
            return self.update_stats(&seek_charge_metadata);""",
    new="""        if num_files_with_key >= 1 {
            return self.update_stats(&seek_charge_metadata);""",
    note="sustained scanning walks the only file holding a key down to the last level; the next seek compaction trips an assertion")
benign("read_sample_threshold_as_greater_than_one", ["C09", "C10"], "src/versioning/version.rs",
    old="""        if num_files_with_key >= 2 {
            return self.update_stats(&seek_charge_metadata);""",
    new="""        if num_files_with_key > 1 {
            return self.update_stats(&seek_charge_metadata);""")

# ---- 30 more (sets 7 and 8), aimed at the anchors of the round-4 rules
benign_patch("refactor_s7_01", "benign/set7_refactor01.diff", note='pick_compaction size branch: for+break -> iterator find')
benign_patch("refactor_s7_02", "benign/set7_refactor02.diff", note='pick_compaction: level-0 expansion extracted into add_overlapping_level_files')
benign_patch("refactor_s7_03", "benign/set7_refactor03.diff", note='DB::recover CURRENT handling: guard clauses; if let NotFound -> !=')
benign_patch("refactor_s7_04", "benign/set7_refactor04.diff", note='log_and_apply: tail-expression match')
benign_patch("refactor_s7_05", "benign/set7_refactor05.diff", note='log_and_apply error arm: discard_new_manifest_file helper called with ?')
benign_patch("refactor_s7_06", "benign/set7_refactor06.diff", note='get_new_version_from_current: if let Some; local reused')
benign_patch("refactor_s7_07", "benign/set7_refactor07.diff", note='OsFileSystem::create_file: .append(append).truncate(!append)')
benign_patch("refactor_s7_08", "benign/set7_refactor08.diff", note='TmpFileSystem::create_file: get_create_options helper')
benign_patch("refactor_s7_09", "benign/set7_refactor09.diff", note='InMemoryFileSystem::create_file: conditions swapped; get; clone before insert')
benign_patch("refactor_s7_10", "benign/set7_refactor10.diff", note='compact_memtable: early return -> else')
benign_patch("refactor_s7_11", "benign/set7_refactor11.diff", note='convert_memtable_to_file: file_size local')
benign_patch("refactor_s7_12", "benign/set7_refactor12.diff", note='recover_wal_records after the loop: if let Ok -> match')
benign_patch("refactor_s7_13", "benign/set7_refactor13.diff", note='finalize_compaction_inputs expansion: operand swaps; named sum')
benign_patch("refactor_s7_14", "benign/set7_refactor14.diff", note='compact_tables after the merge: locals removed/added')
benign_patch("refactor_s7_15", "benign/set7_refactor15.diff", note='compaction_task: early return true -> if/else + result local')
benign_patch("refactor_s8_01", "benign/set8_refactor01.diff", note='DB::get tail: charge_seek_to_version helper')
benign_patch("refactor_s8_02", "benign/set8_refactor02.diff", note='TableBuilder::write_block: one emit call')
benign_patch("refactor_s8_03", "benign/set8_refactor03.diff", note='FilterBlockReader::key_may_match: early return; match arms yield values')
benign_patch("refactor_s8_04", "benign/set8_refactor04.diff", note='FilterBlockReader::new: locals')
benign_patch("refactor_s8_05", "benign/set8_refactor05.diff", note='BloomFilterPolicy::key_may_match: range for -> countdown while')
benign_patch("refactor_s8_06", "benign/set8_refactor06.diff", note='Version::get: nested if / if let take()')
benign_patch("refactor_s8_07", "benign/set8_refactor07.diff", note='record_read_sample: short-circuit && expression')
benign_patch("refactor_s8_08", "benign/set8_refactor08.diff", note='recover_unrecorded_logs: cmp::max')
benign_patch("refactor_s8_09", "benign/set8_refactor09.diff", note='is_fully_consumed: locals; swapped operands')
benign_patch("refactor_s8_10", "benign/set8_refactor10.diff", note='read_physical_record: unexpected_eof_error helper')
benign_patch("refactor_s8_11", "benign/set8_refactor11.diff", note='make_room_for_write: match on LogWriter::new result')
benign_patch("refactor_s8_12", "benign/set8_refactor12.diff", note='Drop for DB: while -> loop/break')
benign_patch("refactor_s8_13", "benign/set8_refactor13.diff", note='skip_empty_data_blocks_*: if let Some')
benign_patch("refactor_s8_14", "benign/set8_refactor14.diff", note='finish_compaction_output_file: immutable match expression')
benign_patch("refactor_s8_15", "benign/set8_refactor15.diff", note='apply_changes tail: if let Some(..) = front()')

# ---- round 5 wave 1
mut("release_version_pops_front", ["C03", "C11", "C05"], "OWN-12", patch="release_version_pops_front.diff")
mut("backward_state_updated_for_invisible_records", ["C03", "C04"], "ITR-1", patch="backward_state_updated_for_invisible_records.diff")
mut("backward_cache_refreshed_conditionally", ["C04", "C03"], "ITR-1", patch="backward_cache_refreshed_conditionally.diff")
mut("write_result_shadowed", ["C05", "C08"], "PAIR-2", patch="write_result_shadowed.diff", note="a failed WAL append is acknowledged with Ok to the whole group")
mut("forward_delete_does_not_turn_skipping_on", ["C04", "C03"], "ITR-2", file="src/iterator.rs",
    old="""                        is_skipping = true;

                        let current_user_key =""",
    new="""                        let current_user_key =""")
mut("forward_shadowed_put_with_equal_key_yielded", ["C04", "C03"], "ITR-2", file="src/iterator.rs",
    old="""                            && current_key.get_user_key() <= self.cached_user_key.as_ref().unwrap()""",
    new="""                            && current_key.get_user_key() < self.cached_user_key.as_ref().unwrap()""")
mut("backward_leaves_key_on_equal_user_key", ["C04", "C03"], "ITR-1", file="src/iterator.rs",
    old="""                        && current_key.get_user_key() < self.cached_user_key.as_ref().unwrap()""",
    new="""                        && current_key.get_user_key() <= self.cached_user_key.as_ref().unwrap()""")
mut("log_trailer_skipped_eagerly", ["C12", "C16", "C02"], "GRD-6|logs::LogReader::read_physical_record|parsed-fragment-is-returned", patch="log_trailer_skipped_eagerly.diff",
    note="the last record of a log ending 1..6 bytes before a block boundary is dropped")
mut("recovered_wal_number_marked_conditionally", ["C08", "C02", "C16"], "ORD-6|db::DB::recover_unrecorded_logs|mark-file-number-used", patch="recovered_wal_number_marked_conditionally.diff")
mut("manifest_number_adopted_before_reuse_decided", ["C11"], "GRD-24", patch="manifest_number_adopted_before_reuse_decided.diff")
mut("gc_before_release_inputs", ["C11"], "ORD-18", patch="gc_before_release_inputs.diff")
mut("replay_skips_short_records", ["C01", "C02", "C06"], "ORD-6|db::DB::recover_wal_records|every-record-applied", patch="replay_skips_short_records.diff")
mut("batch_count_decoded_as_u8", ["C01", "C02", "C08"], "AGR-2", patch="batch_count_decoded_as_u8.diff")
mut("block_handle_offset_u32", ["C13", "C01"], "AGR-2", file="src/tables/block_handle.rs", old="value.offset.encode_var_vec()", new="(value.offset as u32).encode_var_vec()", suite=False)
mut("revert_D17", ["C15", "C08"], "ERR-3", patch="revert_D17_merge_seek_swallows_child_error.diff", note="MergingIterator::seek* return Ok although a child could not be positioned")
mut("finish_output_without_builder_test", ["C09", "C10"], "GRD-25", patch="finish_output_without_builder_test.diff")
mut("blocking_file_lock", ["C09", "C17"], "GRD-9", patch="blocking_file_lock.diff")
mut("recover_reports_torn_manifest_as_reused", ["C16", "C11", "C02"], "GRD-26", patch="recover_reports_torn_manifest_as_reused.diff")
mut("damaged_record_report_before_eof_classification", ["C16", "C12", "C02"], "GRD-6|logs::LogReader::read_record|error-kind-examined-before-any-exit", patch="damaged_record_report_before_eof_classification.diff")
mut("table_get_no_filter_means_absent", ["C14", "C13", "C01"], "GRD-7|tables::table::Table::get|no-filter-means-may-match", patch="table_get_no_filter_means_absent.diff")
benign_patch("table_get_filter_probe_map_or_true", "benign/table_get_filter_probe_map_or_true.diff", note="Table::get: is_some && !unwrap().key_may_match -> map_or(true, |f| f.key_may_match(..))")
benign_patch("refactor_s9_01", "benign/set9_refactor01.diff", note="TryFrom<&[u8]> for Batch: for -> while with counter")
benign_patch("refactor_s9_02", "benign/set9_refactor02.diff", note="From<&BatchElement>: locals")
benign_patch("refactor_s9_03", "benign/set9_refactor03.diff", note="BatchElement::read_element: if/else -> match on Operation")
benign_patch("refactor_s9_04", "benign/set9_refactor04.diff", note="read_physical_record: skip_block_trailer helper")
benign_patch("refactor_s9_05", "benign/set9_refactor05.diff", note="recover_wal_records: while -> loop/break with a single read site")
benign_patch("refactor_s9_06", "benign/set9_refactor06.diff", note="recover_unrecorded_logs: cmp::max; x = x || y -> if")
benign_patch("refactor_s9_07", "benign/set9_refactor07.diff", note="maybe_reuse_manifest: flattened into match + early return; plain u64")
benign_patch("refactor_s9_08", "benign/set9_refactor08.diff", note="coordinate_compaction: Ok arm extracted into finish_table_compaction")
benign_patch("refactor_s9_09", "benign/set9_refactor09.diff", note="release_version: early return")
benign_patch("refactor_s9_10", "benign/set9_refactor10.diff", note="DatabaseIterator::prev: if let -> match")
benign_patch("refactor_s9_11", "benign/set9_refactor11.diff", note="DatabaseIterator::next: hoisted trailing validity check")
benign_patch("refactor_s9_12", "benign/set9_refactor12.diff", note="apply_changes: pop-and-notify loop extracted into a helper")
benign_patch("refactor_s9_13", "benign/set9_refactor13.diff", note="BlockHandle::deserialize: is_none/unwrap -> match")
benign_patch("refactor_s9_14", "benign/set9_refactor14.diff", note="FileMetadata::deserialize: read_internal_key helper")
benign_patch("refactor_s9_15", "benign/set9_refactor15.diff", note="BlockBuilder::add_entry: shared_prefix_length helper")
benign_patch("refactor_s9_16", "benign/set9_refactor16.diff", note="record_read_sample: early return")
mut("revert_D18", ["C09"], "ORD-19", patch="revert_D18_manual_request_withdrawn_early.diff", note="force_level_compaction withdraws its request while the compaction thread may still be working on it")
mut("separator_may_equal_next_key", ["C13", "C01"], "GRD-27", patch="separator_may_equal_next_key.diff")
mut("finalize_before_emptiness_test", ["C13", "C09"], "ORD-20", patch="finalize_before_emptiness_test.diff")
mut("followers_completed_only_on_success", ["C05", "C09"], "PAIR-16", patch="followers_completed_only_on_success.diff")
mut("memtable_before_wal_append", ["C05", "C08"], "ORD-2", patch="memtable_before_wal_append.diff")
mut("every_wal_flagged_last", ["C02", "C01", "C16"], "GRD-28", patch="every_wal_flagged_last.diff")
mut("final_recovery_flush_not_reported", ["C02", "C08"], "PAIR-17", patch="final_recovery_flush_not_reported.diff")
mut("file_index_recorded_before_table_open", ["C04", "C08", "C03"], "ORD-21", patch="file_index_recorded_before_table_open.diff")
mut("merge_step_before_reseek", ["C04", "C03"], "PAIR-8", patch="merge_step_before_reseek.diff")
mut("trailer_write_error_swallowed", ["C08", "C15"], "ERR-1", patch="trailer_write_error_swallowed.diff")
mut("revert_D12", ["C08", "C15"], "ERR-", patch="revert_D12_iterators_without_status.diff", note="next/prev log the error that cut the step short and nobody can ask for it")
mut("get_error_ignores_child_status", ["C15", "C08"], "ERR-4", patch="get_error_ignores_child_status.diff", note="the compaction does not see an error a child iterator met while stepping")
mut("writer_offset_advanced_before_write", ["C12", "C08"], "ORD-22", patch="writer_offset_advanced_before_write.diff")
mut("full_fragment_appended_to_stale_buffer", ["C12", "C16"], "TS-1", patch="full_fragment_appended_to_stale_buffer.diff")
mut("recovery_output_never_unregistered", ["C11"], "ORD-13", patch="recovery_output_never_unregistered.diff")
mut("manifest_number_allocated_only_without_reuse", ["C11", "C02"], "ROLE-4", patch="manifest_number_allocated_only_without_reuse.diff")
mut("revert_D12b", ["C15", "C08"], "ERR-4", patch="revert_D12b_status_lost_at_list_ends.diff", note="the skip helpers drop the table iterator at either end of the file list without keeping its status")
mut("revert_D19", ["C07", "C01"], "PAIR-9", patch="revert_D19_parent_set_not_expanded.diff", note="the grown parent-level inputs are not boundary-expanded")
benign_patch("refactor_s10_01", "benign/set10_refactor01.diff", note='MergingIterator::seek_to_first: record_seek_error helper')
benign_patch("refactor_s10_02", "benign/set10_refactor02.diff", note='MergingIterator::next: direction switch with Option == and .err()')
benign_patch("refactor_s10_03", "benign/set10_refactor03.diff", note='MergingIterator::get_error: iter_mut().find + take')
benign_patch("refactor_s10_04", "benign/set10_refactor04.diff", note='FilesEntryIterator::set_table_iter: single match with guard')
benign_patch("refactor_s10_05", "benign/set10_refactor05.diff", note='FilesEntryIterator::next: record_forward_skip_error helper')
benign_patch("refactor_s10_06", "benign/set10_refactor06.diff", note='TwoLevelIterator::next: named local + match')
benign_patch("refactor_s10_07", "benign/set10_refactor07.diff", note='force_level_compaction: withdraw_manual_compaction helper')
benign_patch("refactor_s10_08", "benign/set10_refactor08.diff", note='compact_tables: add_entry_to_compaction_output helper')
benign_patch("refactor_s10_09", "benign/set10_refactor09.diff", note='flush_data_block: explicit match + local')
benign_patch("refactor_s10_10", "benign/set10_refactor10.diff", note='LogWriter::append: cmp::min + match on (first,last)')
benign_patch("refactor_s10_11", "benign/set10_refactor11.diff", note='read_record: kind() == UnexpectedEof if instead of match')
benign_patch("refactor_s10_12", "benign/set10_refactor12.diff", note='VersionSet::recover tail: match + named bool')
benign_patch("refactor_s10_13", "benign/set10_refactor13.diff", note='recover_wal_records tail: reuse_wal_file helper')
benign_patch("refactor_s10_14", "benign/set10_refactor14.diff", note='apply_changes: complete_group_commit helper')
benign_patch("refactor_s10_15", "benign/set10_refactor15.diff", note='find_shortest_separator: zip/take_while/count')
benign_patch("refactor_s10_16", "benign/set10_refactor16.diff", note='Table::get: filter_may_match helper')
mut('base_level_cursor_overshoots', ['C07', 'C03'], 'GRD-30', patch='base_level_cursor_overshoots.diff')
mut('base_level_cursor_single_step', ['C06', 'C07'], 'GRD-30', patch='base_level_cursor_single_step.diff')
mut('parent_boundary_before_fill', ['C07', 'C01'], 'PAIR-9', patch='parent_boundary_before_fill.diff')
mut('version_builder_skips_last_level', ['C06', 'C10', 'C11'], 'LVL-1', patch='version_builder_skips_last_level.diff')
mut('open_failure_reported_as_miss', ['C13', 'C01'], 'VERD-2', patch='open_failure_reported_as_miss.diff')
mut('mem_read_from_seek_then_read', ['C13', 'C05'], 'ATOM-1', patch='mem_read_from_seek_then_read.diff')
mut('flush_time_measured_from_compaction_start', ['C09', 'C10'], 'GRD-32', patch='flush_time_measured_from_compaction_start.diff')
mut('sampling_counter_assigned', ['C09'], 'PROG-1', patch='sampling_counter_assigned.diff')
mut('level0_miss_breaks_candidate_loop', ['C01', 'C05'], 'VERD-1', patch='level0_miss_breaks_candidate_loop.diff')
mut('wal_listing_failure_defaulted', ['C01', 'C08', 'C02'], 'ERR-1', patch='wal_listing_failure_defaulted.diff')
mut('new_snapshot_decided_by_option', ['C16', 'C02', 'C11'], 'GRD-31', patch='new_snapshot_decided_by_option.diff')
mut('current_written_in_place', ['C16', 'C02'], 'ORD-4', patch='current_written_in_place.diff')
mut('open_schedules_without_flag', ['C17', 'C09'], 'PAIR-4', patch='open_schedules_without_flag.diff')
mut('rotation_schedules_without_flag', ['C17', 'C09'], 'PAIR-4', patch='rotation_schedules_without_flag.diff')
mut('empty_record_skips_checksum', ['C15', 'C12'], 'ORD-14', patch='empty_record_skips_checksum.diff')
mut('bloom_lower_clamp_dropped', ['C14'], 'AGR-1', patch='bloom_lower_clamp_dropped.diff')
mut('filter_reader_ignores_stored_exponent', ['C14'], 'GRD-8', patch='filter_reader_ignores_stored_exponent.diff')
mut("seek_level_overwritten_by_later_file", ["C10", "C07"], "PAIR-12", patch="seek_level_overwritten_by_later_file.diff")
mut("previous_output_unregistered_early", ["C10", "C11", "C03"], "ORD-13", patch="previous_output_unregistered_early.diff")
mut("snapshot_sequence_read_and_registered_separately", ["C03", "C05"], "LCK-", patch="snapshot_sequence_read_and_registered_separately.diff")
mut("hidden_rule_strict_at_snapshot_boundary", ["C03", "C07"], "GRD-2", patch="hidden_rule_strict_at_snapshot_boundary.diff")

# ---- round 9 blind-spot rules: BSRCH-1 (binary searches), BLK-1 (block cursor), MRG-1 (merge selection)
mut("block_seek_equal_goes_right", ["C13", "C04", "C01"], "BSRCH-1|<tables::block::BlockIter<K> as iterator::RainDbIterator>::seek", patch="block_seek_equal_goes_right.diff",
    note="Equal filed under the Less arm: a seek for a key that is present lands on its successor")
mut("find_file_upper_bound_le", ["C01", "C13"], "BSRCH-1|versioning::utils::find_file_with_upper_bound_range", patch="find_file_upper_bound_le.diff",
    note="a file whose largest key equals the target is passed over")
mut("find_file_returns_right", ["C01"], "BSRCH-1|versioning::utils::find_file_with_upper_bound_range|delivers-lo", patch="find_file_returns_right.diff")
mut("block_prev_refused_keeps_cursor", ["C13", "C04"], "BLK-1|<tables::block::BlockIter<K> as iterator::RainDbIterator>::prev|step-discipline", patch="block_prev_refused_keeps_cursor.diff",
    note="prev at the first entry of a block reports None but stays valid there: the two-level iterator never leaves the block")
mut("block_seek_to_last_is_len", ["C13", "C04"], "BLK-1|<tables::block::BlockIter<K> as iterator::RainDbIterator>::seek_to_last|position", patch="block_seek_to_last_is_len.diff")
mut("merge_find_largest_keeps_smaller", ["C04", "C03"], "MRG-1|versioning::file_iterators::MergingIterator::find_largest|replaced-only-by-a-strictly-larger-key", patch="merge_find_largest_keeps_smaller.diff")
mut("merge_find_largest_unmapped_index", ["C04", "C03"], "MRG-1|versioning::file_iterators::MergingIterator::find_largest|walk-covers-every-child", patch="merge_find_largest_unmapped_index.diff",
    note="index of the reversed walk stored unmapped: a different child becomes current")
mut("merge_find_smallest_skips_first_child", ["C04", "C07"], "MRG-1|versioning::file_iterators::MergingIterator::find_smallest|walk-covers-every-child", patch="merge_find_smallest_skips_first_child.diff")
mut("level0_trigger_above_stop", ["C09"], "TRIG-1|db::DB::make_room_for_write|a-stalled-writer-has-a-due-compaction", patch="level0_trigger_above_stop.diff",
    note="compaction trigger 16 > stop trigger 12: writers park at 12 level-0 files with no compaction due")
mut("level0_scored_by_bytes", ["C09"], "TRIG-1|versioning::version::Version::finalize|level-0-scored-by-file-count", patch="level0_scored_by_bytes.diff")
mut("list_remove_tail_not_updated", ["C11", "C03"], "LST-1|utils::linked_list::LinkedList::<T>::remove_node|tail=predecessor", patch="list_remove_tail_not_updated.diff",
    note="removing the newest node leaves `tail` pointing at it: later pushes hang off a removed node and are invisible from the head")
mut("list_remove_prev_link_not_repaired", ["C11", "C03"], "LST-1|utils::linked_list::LinkedList::<T>::remove_node|successor.prev=node.prev", patch="list_remove_prev_link_not_repaired.diff")
mut("list_push_old_tail_not_linked", ["C11", "C03"], "LST-1|utils::linked_list::LinkedList::<T>::push_node|oldtail.next=node", patch="list_push_old_tail_not_linked.diff")
mut("revert_D20", ["C17"], "ORD-15|db::DB::destroy_database|lock-file-unlinked-while-locked", patch="revert_D20_lock_released_before_unlink.diff",
    note="destroy_database releases the lock before it unlinks LOCK (defect D20)")
mut("revert_D21", ["C15", "C12"], "ORD-23|logs::LogReader::read_physical_record|a-completely-read-fragment-is-always-counted", patch="revert_D21_fragment_counted_after_parse.diff",
    note="a fragment that fails its checksum is not counted: the reader loses its alignment with the file (defect D21)")
mut("memfs_rename_keeps_source", ["C02", "C16"], "FS-3|<fs::fs_mem::InMemoryFileSystem as fs::traits::FileSystem>::rename|moves-the-file", patch="memfs_rename_keeps_source.diff",
    note="in-memory rename copies instead of moving: the temp file of the CURRENT switch stays behind")
mut("block_type_decoder_swaps_middle_and_last", ["C12", "C02"], "ENUM-1|<logs::BlockType as std::convert::TryFrom<u8>>::try_from", patch="block_type_decoder_swaps_middle_and_last.diff",
    note="records of three or more fragments are reassembled wrongly (two-fragment records are unaffected)")

# ---- eleventh set: 20 refactorings of the anchors of the round-9 blind-spot rules (5 alarmed on first contact, all repaired in the checker)
benign_patch("refactor_s11_01", "benign/set11_01_block_seek_match_to_if_else.diff", note='BlockIter::seek: match on Ordering -> if cmp == Ordering::Less / else (BSRCH-1 learned bool tests of an Ordering)')
benign_patch("refactor_s11_02", "benign/set11_02_block_seek_if_let_current.diff", note='02 block seek if let current')
benign_patch("refactor_s11_03", "benign/set11_03_block_next_tail_expression.diff", note='03 block next tail expression')
benign_patch("refactor_s11_04", "benign/set11_04_block_prev_nested_else.diff", note='04 block prev nested else')
benign_patch("refactor_s11_05", "benign/set11_05_block_seek_to_last_named_temp.diff", note='05 block seek to last named temp')
benign_patch("refactor_s11_06", "benign/set11_06_block_current_get_map.diff", note='BlockIter::current: entries.get(index).map(..) (BLK-1 accepts the checked get)')
benign_patch("refactor_s11_07", "benign/set11_07_find_file_swap_operands.diff", note='07 find file swap operands')
benign_patch("refactor_s11_08", "benign/set11_08_find_smallest_match_option.diff", note='08 find smallest match option')
benign_patch("refactor_s11_09", "benign/set11_09_find_largest_enumerate_rev.diff", note='find_largest: iter().enumerate().rev() with the plain index (MRG-1 maps the index back only when rev precedes enumerate)')
benign_patch("refactor_s11_10", "benign/set11_10_remove_node_and_then_upgrade.diff", note='remove_node: prev.as_ref().and_then(Weak::upgrade) (LST-1 recognises the predecessor by its provenance)')
benign_patch("refactor_s11_11", "benign/set11_11_push_node_if_let.diff", note='11 push node if let')
benign_patch("refactor_s11_12", "benign/set11_12_finalize_extract_score_helper.diff", note='12 finalize extract score helper')
benign_patch("refactor_s11_13", "benign/set11_13_requires_size_compaction_swap.diff", note='13 requires size compaction swap')
benign_patch("refactor_s11_14", "benign/set11_14_make_room_named_trigger_temps.diff", note='14 make room named trigger temps')
benign_patch("refactor_s11_15", "benign/set11_15_make_room_swap_operands_debug_log.diff", note='15 make room swap operands debug log')
benign_patch("refactor_s11_16", "benign/set11_16_destroy_database_reuse_lock_path.diff", note='16 destroy database reuse lock path')
benign_patch("refactor_s11_17", "benign/set11_17_new_iterator_cleanup_named_guard.diff", note='17 new iterator cleanup named guard')
benign_patch("refactor_s11_18", "benign/set11_18_read_physical_record_extract_eof_error.diff", note='18 read physical record extract eof error')
benign_patch("refactor_s11_19", "benign/set11_19_mem_rename_if_let.diff", note='19 mem rename if let')
benign_patch("refactor_s11_20", "benign/set11_20_mem_remove_file_is_none_early_return.diff", note='mem remove_file: named Option + is_none() early return (FS-3 uses the generic Option tests)')
mut("revert_D23", ["C09"], "PROG-2|db::DB::make_room_for_write", patch="revert_D23_empty_memtable_has_no_room.diff", note="tiny max_memtable_size: the first write rotates empty memtables for ever (defect D23)")
mut("revert_D10", ["C09"], "ORD-12|<db::DB as std::ops::Drop>::drop|the-worker-is-stopped-whoever-else-holds-it", patch="revert_D10_drop_unwraps_arc_get_mut.diff", note="closing with a live iterator panics in Drop (defect D10)")
mut("revert_D25", ["C15", "C13"], "GRD-37|tables::table::Table::read_block_from_disk", patch="revert_D25_block_handle_unchecked.diff", note="a damaged footer handle aborts the process in the allocator (defect D25)")
mut("revert_D24", ["C15"], "MAN-2|logs::LogReader::read_record", patch="revert_D24_strict_reader_skips_orphans.diff", note="the manifest reader skips a fragment without a start (defect D24)")

# ---- round 11: second blind-spot review
mut("mem_prev_finds_greater_or_equal", ["C04", "C03"], "MEM-1|<memtable::SkipListMemTableIter as iterator::RainDbIterator>::prev|primitives", patch="mem_prev_finds_greater_or_equal.diff",
    note="memtable iterator steps back with the forward primitive")
mut("mem_seek_keyed_by_current", ["C04", "C01"], "MEM-1|<memtable::SkipListMemTableIter as iterator::RainDbIterator>::seek|keyed-by-param2", patch="mem_seek_keyed_by_current.diff",
    note="memtable seek never moves backwards (keyed by max(current, target))")
mut("caching_prev_refreshes_only_when_valid", ["C04", "C03"], "CACHE-1|<iterator::CachingIterator as iterator::RainDbIterator>::prev|cache-refreshed-after-the-child-moved", patch="caching_prev_refreshes_only_when_valid.diff",
    note="a child that ran off its front keeps is_valid = true in the cache")
mut("caching_refresh_keeps_entry_when_key_unchanged", ["C04", "C01"], "CACHE-1|iterator::CachingIterator::update_cached_values|refreshes-validity-and-entry", patch="caching_refresh_keeps_entry_when_key_unchanged.diff",
    note="the cached entry is only filled once")
mut("memfile_read_exact_reports_invalid_input", ["C12", "C16", "C02"], "FS-4|<fs::fs_mem::LockableInMemoryFile as std::io::Read>::read_exact", patch="seed_C12-T_memfile_read_exact_invalid_input.diff",
    note="seed C12-T: an overridden read_exact reports the end of the file as InvalidInput; a log torn inside a block trailer fails the open")

# ---- round 12: third blind-spot review (the LRU cache behind the table cache and the block cache)
mut("lru_new_id_not_incremented", ["C13", "C01"], "CACHE-2|<utils::cache::LRUCache<K, V> as utils::cache::Cache<K, V>>::new_id|fresh-id", patch="lru_new_id_not_incremented.diff",
    note="every table gets block-cache partition 1: tables serve each other's blocks at equal offsets")
mut("lru_eviction_removes_the_new_key", ["C13", "C01"], "CACHE-2|<utils::cache::LRUCache<K, V> as utils::cache::Cache<K, V>>::insert|eviction-removes-the-evicted-key", patch="lru_eviction_removes_the_new_key.diff",
    note="an eviction unmaps the entry just inserted and leaves the evicted key mapped to an unlinked node")
benign_patch("refactor_s12_01", "benign/set12_01_new_id_post_increment.diff", note='new_id hands out the value before the increment (just as fresh)')
mut("table_builder_flush_unwrapped", ["C08", "C09"], "ERR-6|tables::table_builder::TableBuilder::flush_data_block|callee=std::io::Write::flush", patch="table_builder_flush_unwrapped.diff",
    note="a failed flush of a table file panics the flushing / compacting thread instead of being reported")
mut("log_writer_flush_unwrapped", ["C08", "C09"], "ERR-6|logs::LogWriter::emit_block|callee=std::io::Write::flush", patch="log_writer_flush_unwrapped.diff",
    note="a failed WAL flush panics the writer")
benign_patch("refactor_s12_02", "benign/set12_02_overlap_tests_map_or.diff", note='get_overlapping_compaction_inputs: before / after tests as map_or over the widening accumulators (benign twin of seed C01-T)')
benign_patch("refactor_s12_03", "benign/set12_03_fragment_type_direct_comparisons.diff", note="LogWriter::append: fragment type decided by `remaining <= room` directly, chunk = min() (correct twin of seed C12-S)")
mut("revert_D27", ["C17"], "GRD-9|<fs::fs_disk::OsFileSystem as fs::traits::FileSystem>::lock_file|locked-file-is-the-one-the-path-names", patch="revert_D27_lock_file_without_identity_check.diff",
    note="a lock granted on a LOCK file that destroy_database unlinked in the meantime excludes nobody (defect D27)")
benign_patch("refactor_s12_04", "benign/set12_04_c05u_worker_half.diff", note="compact_memtable lowers has_immutable_memtable right after the table was written (one half of seed C05-U: harmless while no reader trusts the flag)")
benign_patch("refactor_s12_05", "benign/set12_05_c05u_db_half.diff", note="DB::get clones the immutable memtable only when has_immutable_memtable is set (the other half of seed C05-U: harmless while the flag mirrors the slot)")
benign_patch("refactor_s12_A_01", "benign/set12_A_01_extract_lru_eviction_helper.diff", note='extract_lru_eviction_helper (round-12 anchors, set A)')
benign_patch("refactor_s12_A_02", "benign/set12_A_02_lru_get_match_expression.diff", note='lru_get_match_expression (round-12 anchors, set A)')
benign_patch("refactor_s12_A_03", "benign/set12_A_03_lru_remove_if_let.diff", note='lru_remove_if_let (round-12 anchors, set A)')
benign_patch("refactor_s12_A_04", "benign/set12_A_04_table_cache_get_explicit_match.diff", note='table_cache_get_explicit_match (round-12 anchors, set A)')
benign_patch("refactor_s12_A_05", "benign/set12_A_05_find_table_split_miss_path.diff", note='find_table_split_miss_path (round-12 anchors, set A)')
benign_patch("refactor_s12_A_06", "benign/set12_A_06_get_block_reader_flatten_match.diff", note='get_block_reader_flatten_match (round-12 anchors, set A)')
benign_patch("refactor_s12_A_07", "benign/set12_A_07_block_cache_lookup_reorder.diff", note='block_cache_lookup_reorder (round-12 anchors, set A)')
benign_patch("refactor_s12_A_08", "benign/set12_A_08_cache_block_reader_named_temporary.diff", note='cache_block_reader_named_temporary (round-12 anchors, set A)')
benign_patch("refactor_s12_A_09", "benign/set12_A_09_block_seek_loop_break.diff", note='block_seek_loop_break (round-12 anchors, set A)')
benign_patch("refactor_s12_A_10", "benign/set12_A_10_block_next_de_morgan.diff", note='block_next_de_morgan (round-12 anchors, set A)')
benign_patch("refactor_s12_A_11", "benign/set12_A_11_block_prev_tail_if_else.diff", note='block_prev_tail_if_else (round-12 anchors, set A)')
benign_patch("refactor_s12_A_12", "benign/set12_A_12_db_iter_seek_nested_else.diff", note='db_iter_seek_nested_else (round-12 anchors, set A)')
benign_patch("refactor_s12_A_13", "benign/set12_A_13_db_iter_seek_to_first_explicit_error.diff", note='db_iter_seek_to_first_explicit_error (round-12 anchors, set A)')
benign_patch("refactor_s12_A_14", "benign/set12_A_14_find_next_entry_swap_operands.diff", note='find_next_entry_swap_operands (round-12 anchors, set A)')
benign_patch("refactor_s12_B_01", "benign/set12_B_01_os_lock_file_extract_open_helper.diff", note='os_lock_file_extract_open_helper (round-12 anchors, set B)')
benign_patch("refactor_s12_B_02", "benign/set12_B_02_tmp_lock_file_single_rooted_path.diff", note='tmp_lock_file_single_rooted_path (round-12 anchors, set B)')
benign_patch("refactor_s12_B_03", "benign/set12_B_03_ensure_lock_file_is_current_guard_to_bool.diff", note='ensure_lock_file_is_current_guard_to_bool (round-12 anchors, set B)')
benign_patch("refactor_s12_B_04", "benign/set12_B_04_overlapping_inputs_early_continue.diff", note='overlapping_inputs_early_continue (round-12 anchors, set B)')
benign_patch("refactor_s12_B_05", "benign/set12_B_05_recover_fold_is_some_to_if_let.diff", note='recover_fold_is_some_to_if_let (round-12 anchors, set B)')
benign_patch("refactor_s12_B_06", "benign/set12_B_06_set_prev_sequence_number_debug_log.diff", note='set_prev_sequence_number_debug_log (round-12 anchors, set B)')
benign_patch("refactor_s12_B_07", "benign/set12_B_07_log_and_apply_cleanup_if_let_to_match.diff", note='log_and_apply_cleanup_if_let_to_match (round-12 anchors, set B)')
benign_patch("refactor_s12_B_08", "benign/set12_B_08_read_physical_record_extract_eof_error_helper.diff", note='read_physical_record_extract_eof_error_helper (round-12 anchors, set B)')
benign_patch("refactor_s12_B_09", "benign/set12_B_09_log_append_fragment_type_match_on_tuple.diff", note='log_append_fragment_type_match_on_tuple (round-12 anchors, set B)')
benign_patch("refactor_s12_B_10", "benign/set12_B_10_emit_block_question_mark_to_match.diff", note='emit_block_question_mark_to_match (round-12 anchors, set B)')
benign_patch("refactor_s12_B_11", "benign/set12_B_11_flush_data_block_early_return_to_else.diff", note='flush_data_block_early_return_to_else (round-12 anchors, set B)')
benign_patch("refactor_s12_B_12", "benign/set12_B_12_write_block_select_then_emit_once.diff", note='write_block_select_then_emit_once (round-12 anchors, set B)')
benign_patch("refactor_s12_B_13", "benign/set12_B_13_file_metadata_serialiser_named_key_temporaries.diff", note='file_metadata_serialiser_named_key_temporaries (round-12 anchors, set B)')
benign_patch("refactor_s12_B_14", "benign/set12_B_14_version_manifest_serialiser_is_some_unwrap_to_if_let.diff", note='version_manifest_serialiser_is_some_unwrap_to_if_let (round-12 anchors, set B)')
mut("revert_D28", ["C08"], "GRD-4|compaction::worker::CompactionWorker::compact_tables", patch="revert_D28_compaction_appends_behind_a_failed_manifest_write.diff",
    note="a table compaction keeps appending to the manifest behind a failed (torn) append of a flush that ran inside it: the database cannot be reopened (defect D28)")
mut("sep_successor_guard_or", ["C13", "C01"], "SEP-1|<&key::InternalKey as utils::bytes::BinarySeparable>::find_shortest_successor", patch="sep_successor_guard_or.diff",
    note="successor guard with <= on both tests: an all-0xff user key is 'shortened' to itself at MAX_SEQUENCE_NUMBER (sorts before the last key of the table; the assert in front of it fires on the flush thread)")
mut("sep_separator_only_shorter", ["C13", "C01"], "SEP-1|<&key::InternalKey as utils::bytes::BinarySeparable>::find_shortest_separator", patch="sep_separator_only_shorter.diff",
    note="separator accepted as soon as it is shorter")
benign_patch("refactor_s12_06", "benign/set12_06_output_level_helper.diff", note="CompactionManifest::output_level() helper used for every `level + 1` (correct twin of seed C03-W; PAIR-14 had read `output_level() + 1` as a parent-level query)")
benign_patch("refactor_s12_07", "benign/set12_07_write_snapshot_enumerate.diff", note="write_snapshot: one read lock, `for (level, files) in version.files.iter().enumerate()` (correct twin of seed C10-W)")
mut("batch_decoder_loops_until_empty", ["C01", "C15"], "GRD-34|<batch::Batch as std::convert::TryFrom<&[u8]>>::try_from", patch="batch_decoder_loops_until_empty.diff",
    note="the batch decoder ignores the stored count and decodes until the payload is used up")
mut("revert_D29", ["C09"], "ORD-10b|compaction::worker::CompactionWorker::new::{closure#0}|thread-ends-only-on-terminate", patch="revert_D29_worker_leaves_on_the_shutdown_flag.diff",
    note="the compaction thread exits on is_shutting_down with a scheduled task still queued: closing the database hangs (defect D29)")

# ---- round 12: benign set D (12 refactorings of wave 3-5 anchors) and the wrong twins of two of them
benign_patch("refactor_s12_D_01", "benign/set12_D_01_read_record_eof_kind_if.diff", note='LogReader::read_record (src/logs.rs) (round-12 anchors, set D)')
benign_patch("refactor_s12_D_02", "benign/set12_D_02_read_physical_record_trailer_length_temp.diff", note='LogReader::read_physical_record (src/logs.rs) (round-12 anchors, set D)')
benign_patch("refactor_s12_D_03", "benign/set12_D_03_is_fully_consumed_explicit_match_len.diff", note='LogReader::is_fully_consumed (src/logs.rs) (round-12 anchors, set D)')
benign_patch("refactor_s12_D_04", "benign/set12_D_04_filter_block_name_push_str.diff", note='get_filter_block_name (src/filter_policy.rs) (round-12 anchors, set D)')
benign_patch("refactor_s12_D_05", "benign/set12_D_05_key_may_match_while_countdown.diff", note='BloomFilterPolicy::key_may_match (src/filter_policy.rs) (round-12 anchors, set D)')
benign_patch("refactor_s12_D_06", "benign/set12_D_06_separator_user_key_temp_swapped_cmp.diff", note='<&InternalKey as BinarySeparable>::find_shortest_separator (src/key.rs) (round-12 anchors, set D)')
benign_patch("refactor_s12_D_07", "benign/set12_D_07_db_iter_next_flipped_branches.diff", note='DatabaseIterator::next (src/iterator.rs) (round-12 anchors, set D)')
benign_patch("refactor_s12_D_08", "benign/set12_D_08_db_iter_prev_match_on_inner_prev.diff", note='DatabaseIterator::prev (src/iterator.rs) (round-12 anchors, set D)')
benign_patch("refactor_s12_D_09", "benign/set12_D_09_db_get_snapshot_match_and_ok_or.diff", note='DB::get (src/db.rs) (round-12 anchors, set D)')
benign_patch("refactor_s12_D_10", "benign/set12_D_10_new_iterator_if_let_immutable_memtable.diff", note='DB::new_iterator (src/db.rs) (round-12 anchors, set D)')
benign_patch("refactor_s12_D_11", "benign/set12_D_11_remove_obsolete_files_map_or_de_morgan.diff", note='DB::remove_obsolete_files (src/db.rs) (round-12 anchors, set D)')
benign_patch("refactor_s12_D_12", "benign/set12_D_12_batch_try_from_while_countdown.diff", note='<Batch as TryFrom<&[u8]>>::try_from (src/batch.rs) (round-12 anchors, set D)')
mut("batch_decoder_leaves_loop_on_empty_payload", ["C01", "C15"], "GRD-34|<batch::Batch as std::convert::TryFrom<&[u8]>>::try_from|loop-left-only-at-the-stored-count", patch="batch_decoder_leaves_loop_on_empty_payload.diff",
    note="the element loop of the batch decoder has a second way out (payload used up): a truncated batch decodes to a shorter one")
mut("wal_guard_map_or_wrong_relation", ["C11", "C03"], "GRD-5|db::DB::remove_obsolete_files", patch="wal_guard_map_or_wrong_relation.diff",
    note="the previous-WAL guard written as map_or(false, |prev| prev > n): the WAL being flushed is deleted (wrong twin of benign set D #11)")

# ---- round 12: benign set C (12 refactorings of wave 3-5 anchors; all silent on arrival)
benign_patch("refactor_s12_C_01", "benign/set12_C_01_task_loop_while_let_pop_front.diff", note='CompactionWorker::new (thread body) (round-12 anchors, set C)')
benign_patch("refactor_s12_C_02", "benign/set12_C_02_thread_loop_while_not_terminated.diff", note='CompactionWorker::new (thread body) (round-12 anchors, set C)')
benign_patch("refactor_s12_C_03", "benign/set12_C_03_compact_memtable_match_apply_result.diff", note='CompactionWorker::compact_memtable (round-12 anchors, set C)')
benign_patch("refactor_s12_C_04", "benign/set12_C_04_compact_tables_extract_flush_helper.diff", note='CompactionWorker::compact_tables (round-12 anchors, set C)')
benign_patch("refactor_s12_C_05", "benign/set12_C_05_compact_tables_match_background_error_before_install.diff", note='CompactionWorker::compact_tables (round-12 anchors, set C)')
benign_patch("refactor_s12_C_06", "benign/set12_C_06_is_base_level_for_key_early_continue.diff", note='CompactionManifest::is_base_level_for_key (round-12 anchors, set C)')
benign_patch("refactor_s12_C_07", "benign/set12_C_07_add_boundary_inputs_match_and_while_let.diff", note='CompactionManifest::add_boundary_inputs (round-12 anchors, set C)')
benign_patch("refactor_s12_C_08", "benign/set12_C_08_find_smallest_boundary_file_map_or.diff", note='CompactionManifest::find_smallest_boundary_file (round-12 anchors, set C)')
benign_patch("refactor_s12_C_09", "benign/set12_C_09_apply_changes_sequence_number_temporaries.diff", note='DB::apply_changes (round-12 anchors, set C)')
benign_patch("refactor_s12_C_10", "benign/set12_C_10_apply_changes_explicit_wal_append_error.diff", note='DB::apply_changes (round-12 anchors, set C)')
benign_patch("refactor_s12_C_11", "benign/set12_C_11_build_group_commit_batch_skip_and_match.diff", note='DB::build_group_commit_batch (round-12 anchors, set C)')
benign_patch("refactor_s12_C_12", "benign/set12_C_12_write_snapshot_enumerate_compaction_pointers.diff", note='VersionSet::write_snapshot (round-12 anchors, set C)')

# ---- round 12: benign sets E (closures in front of closures; #03 and #06 are known false alarms, see DESIGN 11.6) and F
benign_patch("refactor_s12_E_01", "benign/set12_E_01_get_snapshot_map_or_else.diff", note='DB::get (src/db.rs) (a new closure in front of an existing one, set E)')
benign_patch("refactor_s12_E_02", "benign/set12_E_02_apply_changes_group_commit_result_then.diff", note='DB::apply_changes (src/db.rs) (a new closure in front of an existing one, set E)')
benign_patch("refactor_s12_E_04", "benign/set12_E_04_new_iterator_immutable_memtable_iter_map.diff", note='DB::new_iterator (src/db.rs) (a new closure in front of an existing one, set E)')
benign_patch("refactor_s12_E_05", "benign/set12_E_05_remove_obsolete_files_is_being_compacted_is_some_and.diff", note='DB::remove_obsolete_files (src/db.rs) (a new closure in front of an existing one, set E)')
benign_patch("refactor_s12_E_07", "benign/set12_E_07_compact_tables_smallest_snapshot_then_unwrap_or_else.diff", note='CompactionWorker::compact_tables (src/compaction/worker.rs) (a new closure in front of an existing one, set E)')
benign_patch("refactor_s12_E_08", "benign/set12_E_08_persist_changes_manifest_file_map_clone.diff", note='VersionSet::persist_changes (src/versioning/version_set.rs) (a new closure in front of an existing one, set E)')
benign_patch("refactor_s12_E_09", "benign/set12_E_09_version_builder_apply_changes_compaction_pointers_filter_for_each.diff", note='VersionBuilder::apply_changes (src/versioning/version_builder.rs) (a new closure in front of an existing one, set E)')
benign_patch("refactor_s12_E_10", "benign/set12_E_10_table_builder_add_entry_is_accepting_entries_helper_closure.diff", note='TableBuilder::add_entry (src/tables/table_builder.rs) (a new closure in front of an existing one, set E)')
benign_patch("refactor_s12_F_01", "benign/set12_F_01_append_cmp_min.diff", note='LogWriter::append (src/logs.rs) (older anchors, set F)')
benign_patch("refactor_s12_F_02", "benign/set12_F_02_emit_block_named_serialized.diff", note='LogWriter::emit_block (src/logs.rs) (older anchors, set F)')
benign_patch("refactor_s12_F_03", "benign/set12_F_03_finalize_extract_write_footer.diff", note='TableBuilder::finalize (src/tables/table_builder.rs) (older anchors, set F)')
benign_patch("refactor_s12_F_04", "benign/set12_F_04_write_block_named_threshold_swapped_cmp.diff", note='TableBuilder::write_block (src/tables/table_builder.rs) (older anchors, set F)')
benign_patch("refactor_s12_F_05", "benign/set12_F_05_table_open_footer_offset_temp.diff", note='Table::open (src/tables/table.rs) (older anchors, set F)')
benign_patch("refactor_s12_F_06", "benign/set12_F_06_table_get_filter_if_let.diff", note='Table::get (src/tables/table.rs) (older anchors, set F)')
benign_patch("refactor_s12_F_07", "benign/set12_F_07_key_may_match_inverted_branches_named_filter.diff", note='FilterBlockReader::key_may_match (src/tables/filter_block.rs) (older anchors, set F)')
benign_patch("refactor_s12_F_08", "benign/set12_F_08_pick_compaction_pointer_match.diff", note='VersionSet::pick_compaction (src/versioning/version_set.rs) (older anchors, set F)')
benign_patch("refactor_s12_F_09", "benign/set12_F_09_pick_level_loop_break_named_levels.diff", note='Version::pick_level_for_memtable_output (src/versioning/version.rs) (older anchors, set F)')
benign_patch("refactor_s12_F_10", "benign/set12_F_10_build_group_commit_batch_first_batch_match.diff", note='DB::build_group_commit_batch (src/db.rs) (older anchors, set F)')
mut("smallest_snapshot_then_else_takes_newest", ["C03", "C07"], "ORD-7|compaction::worker::CompactionWorker::compact_tables", patch="smallest_snapshot_then_else_takes_newest.diff",
    note="`snapshots.is_empty().then(|| last).unwrap_or_else(|| newest)`: the newest snapshot for the oldest one in the combinator form (wrong twin of benign set E #07)")

# ---- directly called local helper closures are inlined (inline.py): set E #03 / #06 and their wrong twins
benign_patch("refactor_s12_E_03", "benign/set12_E_03_make_room_for_write_l0_trigger_helper_closure.diff", note="DB::make_room_for_write: `let has_reached_l0_trigger = |t| n >= t;` called for the slow-down test (a directly called helper closure, set E)")
benign_patch("refactor_s12_E_06", "benign/set12_E_06_convert_memtable_to_file_mark_table_in_use_helper_closure.diff", note="DB::convert_memtable_to_file: tables_in_use.insert routed through a directly called helper closure (set E)")
mut("helper_closure_registers_another_table_number", ["C11", "C03"], "ORD-13|db::DB::convert_memtable_to_file|register-before-build", patch="helper_closure_registers_another_table_number.diff",
    note="the helper closure of set E #06 is called with file_number + 1: the table being built is not the registered one (decided through the inlined closure)")
mut("helper_closure_stalls_below_the_due_threshold", ["C09"], "TRIG-1|db::DB::make_room_for_write|a-stalled-writer-has-a-due-compaction", patch="helper_closure_stalls_below_the_due_threshold.diff",
    note="the helper closure of set E #03 is called with 2: writers are delayed at a level-0 count at which no compaction is due (decided through the inlined closure)")

# ---- an iterator-adapter closure that fills the collector's live set, and its wrong twin
benign_patch("refactor_s12_G_01", "benign/set12_G1_gc_live_set_for_each.diff", note="DB::remove_obsolete_files: the insert loop over get_live_files() written as `.into_iter().for_each(|f| { live.insert(f); })`")
mut("gc_live_set_for_each_filtered", ["C11", "C03"], "GRD-5|db::DB::remove_obsolete_files|live-set", patch="gc_live_set_for_each_filtered.diff",
    note="the for_each form with a `.filter(|f| tables_in_use.contains(f))` in front: only tables that are ALSO being built count as live - tables of the current version are deleted")

# ---- the iterator's sequence chosen by a combinator (GRD-3 follows it with deep_origins), and its wrong twin
benign_patch("refactor_s12_G_02", "benign/set12_G2_new_iterator_snapshot_map_or_else.diff", note="DB::new_iterator: the read sequence chosen by `snapshot.as_ref().map_or_else(|| prev_sequence(), |s| s.sequence_number())`")
mut("new_iterator_sequence_is_a_constant", ["C03", "C06"], "GRD-3|db::DB::new_iterator|iterator-sequence-provenance", patch="new_iterator_sequence_is_a_constant.diff",
    note="without a snapshot the iterator reads at the largest sequence number instead of the one captured under the mutex: it sees writes made after its creation")
