#!/bin/sh
# tools/r9_confirm.sh <Cnn> <LETTER> [round dir, default /tmp/r9] : confirm <round>/out/<Cnn>/<LETTER> (mut.diff, demo/, NOTES.md) as seed <Cnn>-<LETTER>
P=$1; L=$2; RD=${3:-/tmp/r9}
O=$RD/out/$P/$L
needs=$(grep -i -A3 -m1 "manifest" $O/NOTES.md | tr '\n' ' ' | cut -c1-300)
mkdir -p $RD/confirm
cd /verif && python3 tools/seed_confirm.py $P-$L $P $RD/$P $O/mut.diff $O/demo --needs "$needs" > $RD/confirm/$P-$L.log 2>&1
tail -12 $RD/confirm/$P-$L.log
