#!/bin/sh
# tools/r9_confirm.sh <Cnn> <LETTER> : confirm /tmp/r9/out/<Cnn>/<LETTER> (mut.diff, demo/, NOTES.md) as seed <Cnn>-<LETTER>
P=$1; L=$2
O=/tmp/r9/out/$P/$L
needs=$(grep -i -A3 -m1 "manifest" $O/NOTES.md | tr '\n' ' ' | cut -c1-300)
cd /verif && python3 tools/seed_confirm.py $P-$L $P /tmp/r9/$P $O/mut.diff $O/demo --needs "$needs" > /tmp/r9/confirm/$P-$L.log 2>&1
tail -12 /tmp/r9/confirm/$P-$L.log
