#!/bin/sh
# tools/triage_diff.sh <diff> [props...] : apply a diff to a scratch worktree of /repo's HEAD (never to /repo), run the quick checks
# against it with --repo, print which rule instances fire, and reset the worktree.
WT=${TRIAGE_WT:-/tmp/triage_wt}
D=$(readlink -f "$1"); shift
PROPS=${*:-C01 C02 C03 C04 C05 C06 C07 C08 C09 C10 C11 C12 C13 C14 C15 C16 C17}
[ -d "$WT" ] || git -C /repo worktree add -q --detach "$WT" HEAD
git -C "$WT" checkout -q -- . && git -C "$WT" apply "$D" || { echo "diff does not apply"; exit 2; }
cd /verif
for p in $PROPS; do
  out=$(./check $p --repo "$WT" 2>&1); rc=$?
  if [ $rc -ne 0 ]; then echo "$p FIRES:"; echo "$out" | grep -E "instance: " | sort -u | head -8; fi
done
git -C "$WT" checkout -q -- .
