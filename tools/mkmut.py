#!/usr/bin/env python3
"""tools/mkmut.py <name> <file> <old> <new> : write selftest/patches/<name>.diff (exact, unique string replacement in a scratch worktree of
/repo's HEAD, TRIAGE_WT, default /tmp/triage_wt); reads old/new from files when they start with '@'."""
import os, subprocess, sys
wt = os.environ.get("TRIAGE_WT", "/tmp/triage_wt")
name, file, old, new = sys.argv[1:5]
rd = lambda x: open(x[1:]).read() if x.startswith("@") else x
old, new = rd(old), rd(new)
subprocess.run("git checkout -q -- .", cwd=wt, shell=True, check=True)
p = os.path.join(wt, file)
s = open(p).read()
if s.count(old) != 1:
    sys.exit("%s: `old` occurs %d times" % (name, s.count(old)))
open(p, "w").write(s.replace(old, new))
d = subprocess.run("git diff", cwd=wt, shell=True, capture_output=True, text=True).stdout
out = os.path.join(os.path.dirname(os.path.dirname(os.path.abspath(__file__))), "selftest", "patches", name + ".diff")
open(out, "w").write(d)
subprocess.run("git checkout -q -- .", cwd=wt, shell=True, check=True)
print(out)
