#!/usr/bin/env python3
"""tools/rule_on_diff.py <diff|-> <rule function in props.common>... : run single rule functions against a scratch worktree
(TRIAGE_WT, default /tmp/triage_wt) with the diff applied ('-' = unchanged tree); prints every instance that does not hold."""
import os, subprocess, sys
sys.path.insert(0, os.path.join(os.path.dirname(os.path.dirname(os.path.abspath(__file__))), "engine"))
from rdbcheck import facts, cfg, report, lck  # noqa
from rdbcheck.props import common  # noqa
wt = os.environ.get("TRIAGE_WT", "/tmp/triage_wt")
d = sys.argv[1]
subprocess.run("git checkout -q -- .", cwd=wt, shell=True)
if d != "-":
    subprocess.run(["git", "apply", os.path.abspath(d)], cwd=wt, check=True)
try:
    f, m = facts.load(repo=wt)
    P = cfg.Program(f); L = lck.LockInfo(P); R = report.Report("C00")
    for fn in sys.argv[2:]:
        mod = common
        if "." in fn:
            import importlib
            mn, fn = fn.rsplit(".", 1)
            mod = importlib.import_module("rdbcheck.props." + mn)
        getattr(mod, fn)(P, R, L)
    bad = [i for i in R.instances if not i.ok]
    print("%d instances, %d do not hold" % (len(R.instances), len(bad)))
    for i in bad:
        print("  FAIL", i.key, "@", i.where, "|", i.found)
finally:
    subprocess.run("git checkout -q -- .", cwd=wt, shell=True)
