#!/bin/bash
# tools/mut.sh <patch> <Cnn> [Cnn...] : apply a patch to a scratch copy of /repo (outside /repo and
# /verif, removed afterwards) and run the named checks against it. Evidence is not written.
set -u
PATCH=$(readlink -f "$1"); shift
D=$(mktemp -d /tmp/rdbmut.XXXXXX)
trap 'rm -rf "$D"' EXIT
cp -r /repo/src /repo/Cargo.toml /repo/Cargo.lock /repo/examples "$D"/ 2>/dev/null
( cd "$D" && patch -p1 -s < "$PATCH" ) || { echo "PATCH-FAILED"; exit 2; }
rc=0
for p in "$@"; do
  /verif/check "$p" --repo "$D" || rc=1
done
exit $rc
