#!/usr/bin/env python3
"""tools/benign_check.py <scratch worktree> <diff>...

False-alarm test: applies each behaviour-preserving diff to a scratch worktree of /repo (never to /repo itself), runs
every check with --repo on it and lists the instances that fire. A firing instance on a behaviour-preserving change is a
false alarm of the checker (to be fixed in the checker, never suppressed)."""
import re
import subprocess
import sys

PROPS = ["C%02d" % i for i in range(1, 18)]


def sh(cmd, cwd=None):
    r = subprocess.run(cmd, cwd=cwd, shell=True, stdout=subprocess.PIPE, stderr=subprocess.STDOUT, text=True)
    return r.returncode, r.stdout


def main():
    wt = sys.argv[1]
    total = {}
    for d in sys.argv[2:]:
        sh("git checkout -q -- .", cwd=wt)
        rc, out = sh("git apply %s" % d, cwd=wt)
        if rc != 0:
            print("%s: DOES NOT APPLY (%s)" % (d, out.strip()[:100]))
            continue
        fired = {}
        for p in PROPS:
            rc, out = sh("./check %s --repo %s" % (p, wt), cwd="/verif")
            if rc != 0:
                fired[p] = sorted(set(re.findall(r"instance: (.*)", out))) or ["(crash) " + out.strip()[-160:].replace("\n", " ")]
        sh("git checkout -q -- .", cwd=wt)
        total[d] = fired
        print("%s: %s" % (d.rsplit("/", 1)[-1], "silent" if not fired else "ALARM " + str({k: v[:3] for k, v in fired.items()})[:600]), flush=True)
    n = sum(1 for v in total.values() if v)
    print("%d diffs, %d with alarms" % (len(total), n))


if __name__ == "__main__":
    main()
