#!/usr/bin/env python3
"""Generate /verif/MANIFEST.json from the table below (only properties whose module exists are claimed)."""
import json
import os

HERE = os.path.dirname(os.path.dirname(os.path.abspath(__file__)))

TRUST = ("rustc nightly front end + MIR construction; Instance::try_resolve callee resolution; semantics tables for the "
         "external callees the rules interpret (parking_lot, ArcSwap, Option/Result, Vec, fs2); only the lib crate with "
         "cfg(test) off is analysed. Decides structural necessary conditions, not the behaviour.")

CLAIMS = {
    "C01": ("VERD-1 tombstone-vs-miss verdicts in Table::get / MemTable::get / Version::get / DB::get; ORD-1 newest-first source "
            "order in DB::get; ROLE-1 smallest/largest fidelity at every add_file site and in the FileMetadata codec; ACC-1 direction "
            "of min/max accumulators over file bounds", "§5 C01",
            "verdict discipline + role-colour dataflow + dominance over MIR"),
    "C02": ("ORD-2 write-ahead order, ORD-3 flush/compaction install order, ORD-4 CURRENT temp-then-rename, ORD-5 manifest before "
            "CURRENT, GRD-1/ORD-6 WAL replay selection and order", "§5 C02", "must-pass-through / success-edge dominance over MIR CFG"),
    "C03": ("GRD-2 compaction retention guards, ORD-7 smallest-snapshot source, LCK-1 capture under the mutex, PAIR-1 version pins, "
            "VERD-1", "§5 C03", "control-dependence guards + origin dataflow + lock regions"),
    "C04": ("PAIR-7 direction agreement of the 20 positioning methods of TwoLevelIterator / FilesEntryIterator / MergingIterator / "
            "DatabaseIterator (forward methods position through the forward helper, backward through the backward helper, a value is returned "
            "only after the helper ran, an exhausted child makes the two-level iterators move on) and GRD-3 the sequence filter of the "
            "client iterator; NOT the cursor-vs-sorted-map equivalence", "§6/§11.3 C04", "sibling direction table + must-pass-through"),
    "C05": ("LCK-2 atomic capture of (sequence, memtable, immutable memtable, version) under the mutex; ORD-8 publication after the "
            "unlocked WAL+memtable section; ORD-9 rotation without release point; OWN-2/OWN-3 single writer", "§5 C05",
            "lock-region dataflow + who-may-call over the call graph"),
    "C06": ("ORD-8 publication order, LCK-1 sequence captured under the mutex, GRD-3 sequence filter on every yielding path of the "
            "client iterator", "§5 C06", "lock-region dataflow + guards"),
    "C07": ("ACC-1 accumulator direction, GRD-2 retention/tombstone guards, ROLE-1 version-edit fidelity, PAIR-3 bounds captured from "
            "the entries added", "§5 C07", "accumulator-direction + control-dependence + role colours"),
    "C08": ("ERR-1 error discipline over every Result site of the lib crate, GRD-4 sticky-error gates, ORD-3, PAIR-2 group result "
            "delivered to followers and leader", "§5 C08", "error-edge path analysis over MIR"),
    "C09": ("LCK-3 no re-entrant DB-mutex acquisition, LCK-4 waits in re-testing loops, ORD-10 worker epilogue, PAIR-4 schedule flag, "
            "ORD-11 writer hand-off, ORD-12 Drop order", "§5 C09", "lock-region dataflow + call-graph summaries + must-pass-through"),
    "C10": ("ROLE-1 smallest/largest fidelity, ROLE-2 writer/reader field-order agreement of the manifest codec, PAIR-3", "§5 C10",
            "role-colour dataflow"),
    "C11": ("GRD-5 deletion guards, OWN-4 who may delete, ORD-13 pending outputs registered before build, PAIR-1 version pins "
            "released", "§5 C11", "control-dependence guards + who-may-call + pairing on flag-sensitive paths"),
    "C12": ("TS-1 fragment reassembly typestate, GRD-6 end-of-log only on UnexpectedEof / cursor at length", "§5 C12",
            "typestate automaton over MIR CFG"),
    "C13": ("VERD-1 lookup verdicts of Table::get, GRD-7 filter miss is control-dependent on key_may_match == false", "§5 C13",
            "verdict discipline"),
    "C14": ("PAIR-5 filter population paired with data-block entries, GRD-8 fail-open filter reader, constant agreement", "§5 C14",
            "pairing + guards"),
    "C15": ("ORD-14 verify checksum/magic before parse, OWN-5 parsers fed only by verified bytes, COV-1 checksum coverage, TS-1", "§5 C15",
            "success-edge dominance + who-may-call + data dependence"),
    "C16": ("GRD-6 torn header/payload maps to end-of-log, TS-1 torn multi-fragment record never merged with later appends", "§5 C16",
            "typestate + guards"),
    "C17": ("ORD-15 lock_file before recovery/any mutation in open and destroy_database, OWN-6 db_lock written only by open and Drop, "
            "GRD-9 non-blocking exclusive lock kind", "§5 C17", "success-edge dominance + who-may-write"),
}

NA = {}


def main():
    checks = []
    na = [{"property_id": k, "reason": v} for k, v in NA.items()]
    for pid, (text, ref, tech) in sorted(CLAIMS.items()):
        mod = os.path.join(HERE, "engine", "rdbcheck", "props", pid.lower() + ".py")
        if not os.path.exists(mod):
            na.append({"property_id": pid, "reason": "check not built yet (static rules designed in DESIGN.md %s)" % ref})
            continue
        checks.append({
            "property_id": pid,
            "quick_cmd": "./check %s" % pid,
            "thorough_cmd": "./check %s --tier thorough" % pid,
            "evidence_file": "/verif/evidence/%s.json" % pid,
            "replay_cmd_template": "./check %s --explain {path}" % pid,
            "engine": "rdbcheck",
            "level_claimed": {
                "category": "other",
                "text": "Exhaustive static analysis of the lib crate's type-checked MIR decides these structural clauses, each a "
                        "necessary condition of the property for every input/schedule/crash point at once: " + text +
                        ". It does not decide the behaviour itself.",
                "design_ref": "DESIGN.md " + ref,
            },
            "level_note": TRUST,
            "technique": "static analysis: " + tech,
        })
    m = {
        "version": 1,
        "setup_cmd": "cd engine/factgen && CARGO_NET_OFFLINE=true cargo build --release --offline",
        "hooks": {
            "guard": "raindb_verif",
            "enable": "none needed: the analysis reads rustc MIR of the unmodified crate (no hooks, no instrumentation)",
            "baseline_off_cmd": "cd /repo && (cargo nextest run --workspace --no-fail-fast --test-threads 8 --offline || cargo test --workspace --no-fail-fast --offline -- --test-threads 1)",
            "source_commits": [],
            "add_only": True,
        },
        "engines": [
            {"name": "factgen", "path": "engine/factgen", "serves_properties": sorted(CLAIMS),
             "kind_free_text": "rustc_private driver dumping resolved MIR facts (JSON) of the raindb lib crate"},
            {"name": "rdbcheck", "path": "engine/rdbcheck", "serves_properties": sorted(CLAIMS),
             "kind_free_text": "Python rule engines over the facts: CFG algebra, lock regions, error edges, role colours, guards, pairing, typestate"},
        ],
        "checks": checks,
        "not_applicable": na,
        "notes": "All checks are static (family: static analysis). Known findings: known_findings.json. See DESIGN.md.",
    }
    with open(os.path.join(HERE, "MANIFEST.json"), "w") as f:
        json.dump(m, f, indent=1)
    print("claimed:", [c["property_id"] for c in checks])


if __name__ == "__main__":
    main()
