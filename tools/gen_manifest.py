#!/usr/bin/env python3
"""Generate /verif/MANIFEST.json from the table below (only properties whose module exists are claimed)."""
import json
import os

HERE = os.path.dirname(os.path.dirname(os.path.abspath(__file__)))

TRUST = ("rustc nightly front end + MIR construction; Instance::try_resolve callee resolution; semantics tables for the "
         "external callees the rules interpret (parking_lot, ArcSwap, Option/Result, Vec, fs2); only the lib crate with "
         "cfg(test) off is analysed. Decides structural necessary conditions, not the behaviour.")

CLAIMS = {
    "C01": ("VERD-1 tombstone-vs-miss verdicts and verdict-stops-search in Table::get / MemTable::get / Version::get / DB::get; ORD-1 newest-first "
            "source order; KEY-1 InternalKey order (user key ascending, sequence descending); ROLE-1/ROLE-4/ROLE-5 file-bound fidelity, persisted "
            "counters, version-builder ordering; ACC-1 accumulator direction; GRD-10 closed-interval comparisons; GRD-13 internal-key file search; "
            "GRD-14 level-0 manual compaction inputs; ORD-3 flush install order; ORD-8c/GRD-11 sequence and WAL offset after reopen; GRD-3; LCK-2",
            "§5 C01, §11.3", "verdict discipline + role-colour dataflow + dominance over MIR"),
    "C02": ("ORD-2 write-ahead order, ORD-3 flush/compaction install order, ORD-4 CURRENT temp-then-rename, OWN-1 CURRENT never removed, ORD-5 "
            "manifest before CURRENT, GRD-1/ORD-6 WAL replay selection and order, ROLE-4 persisted counters, ORD-8c, OWN-9 create modes, GRD-5, "
            "TS-1/GRD-6/GRD-12 log reader and reuse of complete logs only", "§5 C02, §11.3", "must-pass-through / success-edge dominance over MIR CFG"),
    "C03": ("GRD-2 compaction retention guards, ORD-7 smallest-snapshot source and snapshot-list ends, LCK-1 capture under the mutex, ORD-8, "
            "ORD-3, GRD-3, GRD-13, PAIR-9 boundary inputs, KEY-1, PAIR-5 filter registration, VERD-1, PAIR-1 version pins, GRD-5",
            "§5 C03, §11.3", "control-dependence guards + origin dataflow + lock regions"),
    "C04": ("PAIR-7 direction agreement of the 20 positioning methods of TwoLevelIterator / FilesEntryIterator / MergingIterator / "
            "DatabaseIterator, PAIR-8 reversal repositions the inner iterator and the forward search is started in skipping mode by next() only, PAIR-11 a re-loaded child iterator is positioned before use, "
            "ITR-1 / ITR-2 state discipline of the client iterator's collapse loops (invisible records change nothing, every visible record rewrites the "
            "cache, exact key-boundary tests), KEY-1 key order, GRD-3 sequence filter of the client iterator; NOT the cursor-vs-sorted-map equivalence", "§6/§11.3 C04",
            "sibling direction table + must-pass-through"),
    "C05": ("LCK-2 atomic capture of (sequence, memtable, immutable memtable, version) under the mutex; ORD-8/ORD-8b publication after the "
            "unlocked WAL+memtable section; ORD-9 rotation without release point and never over a pending immutable memtable; OWN-2/OWN-3 "
            "single writer; PAIR-6 group membership; ORD-3; PAIR-2; PAIR-16 followers released whatever the result; ORD-2 write-ahead order; OWN-2 the visibility horizon is stored only by its setter and by recovery", "§5 C05, §11.3", "lock-region dataflow + who-may-call over the call graph"),
    "C06": ("ORD-8/ORD-8b/ORD-8c publication order and sequence ranges, LCK-1 sequence captured under the mutex, GRD-3 sequence filter on every "
            "yielding path of the client iterator, GRD-2/ORD-7/GRD-10 compaction keeps or drops the entries of one batch consistently",
            "§5 C06, §11.3", "lock-region dataflow + guards"),
    "C07": ("ACC-1 accumulator direction, GRD-2 retention/tombstone guards, ORD-7, ROLE-1 version-edit fidelity, ROLE-3 levels, GRD-10, GRD-13, "
            "GRD-14, PAIR-9 boundary inputs, PAIR-3 bounds captured from the entries added, ERR-2, ORD-3", "§5 C07, §11.3",
            "accumulator-direction + control-dependence + role colours"),
    "C08": ("ERR-1 error discipline over every Result site of the lib crate, GRD-4 sticky-error gates, ORD-3, ERR-2, GRD-5, PAIR-10, PAIR-2 group "
            "result delivered to followers and leader, ORD-2 sticky WAL error, ORD-4/ORD-5 CURRENT switch survives a failed manifest write, ERR-3 / ERR-4 iterator errors reach the caller (seek results, status chain), ORD-21, ERR-6 no fallible result is answered with unwrap / expect, PAIR-12 a failed block read leaves the two-level iterator consistent",
            "§5 C08, §11.3", "error-edge path analysis over MIR"),
    "C09": ("LCK-3 no re-entrant DB-mutex acquisition, LCK-4/LCK-4b waits in re-testing loops that leave on the sticky error, LCK-5/LCK-6 nested "
            "lock classes, ORD-10 worker epilogue, PAIR-4 schedule flag, ORD-11 writer hand-off, ORD-12 Drop order, PAIR-10, ORD-17, GRD-14 "
            "non-empty manual compaction inputs, ORD-19 manual request withdrawn only after the background work finished, GRD-25, PAIR-16, GRD-9 non-blocking lock, PROG-2 rotation only of a non-empty memtable, ORD-12 shared-worker shutdown, TRIG-1 a writer stalled for level-0 relief has a due compaction (evaluated trigger constants), ERR-6 no panic on a fallible storage result (the compaction thread stays alive)", "§5 C09, §11.3", "lock-region dataflow + call-graph summaries + must-pass-through"),
    "C10": ("ROLE-1 smallest/largest fidelity, ROLE-2 writer/reader field-order agreement of the manifest codec, ROLE-3 levels, ROLE-5 version "
            "builder ordering and deletion, PAIR-3, PAIR-12 (file, level) pairs, OWN-8 file-number counter, ROLE-4 counters recorded in every edit and restored from the newest manifest record, ERR-1 subset / ORD-3 / GRD-4 for "
            "half-written tables", "§5 C10, §11.3", "role-colour dataflow"),
    "C11": ("GRD-5 deletion guards, OWN-4 who may delete, ORD-13 pending outputs registered from before the build until after the install, "
            "ORD-16 GC on every open and the recovery edit names the current WAL, ROLE-4 WAL numbers in edits, PAIR-1 version pins released, "
            "cache eviction before delete, GRD-24 / GRD-26 manifest re-use bookkeeping, ORD-18 collect after releasing the inputs, ORD-18b (client iterator clean-up; known finding D22), LST-1 / LIST-1 / OWN-12 version list", "§5 C11, §11.3", "control-dependence guards + who-may-call + pairing on flag-sensitive paths"),
    "C12": ("TS-1 fragment reassembly typestate (incl. dropped fragments), TS-2 writer-side fragment typing and chunking, GRD-6 end-of-log only "
            "on UnexpectedEof / cursor at length, GRD-11 block offset on reopen and writer/reader trailer agreement, GRD-6 error kind examined before any exit / a parsed fragment is returned, AGR-2 codec agreement of the fragment header, ORD-22 writer offset after the write, ORD-23 reader position follows the file cursor, ENUM-1 fragment-type decoder", "§5 C12, §11.3",
            "typestate automaton over MIR CFG"),
    "C13": ("VERD-1 lookup verdicts of Table::get, GRD-7 filter miss is control-dependent on key_may_match == false, PAIR-7 two-level direction, "
            "PAIR-11 re-loaded child positioned, PAIR-5 filter population and offsets, KEY-1, AGR-2 writer/reader integer codecs of every table structure, GRD-27 separator strictly below the next key, ORD-20, BSRCH-1 BlockIter::seek is a lower-bound search, BSRCH-2 its shortcut only on an exact hit, BLK-1 block cursor discipline, CACHE-2 table / block cache identity, SRC-3, WRAP-1, ENUM-1", "§5 C13, §11.3", "verdict discipline"),
    "C14": ("PAIR-5/PAIR-5b filter population paired with data-block entries and unconditional in the filter builder, AGR-1 Bloom writer/reader "
            "probe-sequence agreement and probe count from the filter, GRD-8 fail-open filter reader, GRD-15 filter block belongs to the "
            "configured policy, GRD-7", "§5 C14, §11.3", "pairing + guards + sibling agreement"),
    "C15": ("ORD-14 verify checksum/magic before parse, OWN-5 parsers fed only by verified bytes, COV-1 checksum coverage, MAN-1 strict manifest "
            "reader, TS-1, ERR-1, ERR-2, ERR-3 / ERR-4 iterator errors reach the caller, ORD-23 a damaged fragment does not misalign the log reader, GRD-6 end-of-log only from a short read, GRD-34, ENUM-1", "§5 C15, §11.3", "success-edge dominance + who-may-call + data dependence"),
    "C16": ("GRD-6 torn header/payload maps to end-of-log whatever is being reassembled, TS-1, OWN-7 log create modes, GRD-11, GRD-12 reuse only "
            "completely consumed logs and the consumed-bytes cursor counts complete reads only", "§5 C16, §11.3", "typestate + guards"),
    "C17": ("ORD-15 lock_file before recovery/any mutation in open and destroy_database and held while data is removed, OWN-6 db_lock written "
            "only by open and Drop, OWN-6b, GRD-9 non-blocking exclusive lock kind that never unlinks the lock file and is granted only on the inode the path still names (D27), ORD-12, ORD-15 destroy_database unlinks LOCK while still holding the lock (D20), PAIR-4, FS-2", "§5 C17, §11.3",
            "success-edge dominance + who-may-write"),
}

_B = {
    "read": "read-path bundle (KEY-1, VERD-1/VERD-2, GRD-3, GRD-13, SRC-1/2/3, WRAP-1, OWN-10/11, ORD-21, LVL-1, ATOM-1, AGR-2, GRD-27, PAIR-13, BSRCH-1 lower-bound binary searches, BLK-1 block cursor, MRG-1 merge selection, ENUM-1 tag decoders, MEM-1 / CACHE-1 memtable and caching iterators, CACHE-2 LRU cache identity and fresh partition ids, BSRCH-2 seek shortcut only on an exact hit, OWN-16 the client iterator becomes valid only through its collapse loops, filter bundle PAIR-5/5b, AGR-1, GRD-8, GRD-15, GRD-7)",
    "retain": "retention bundle (GRD-2, ORD-7, GRD-10, GRD-14, GRD-19, GRD-17, PAIR-9, ACC-1, ORD-3, EXP-1 level-0 input expansion is a fixpoint over the widened range)",
    "live": "liveness bundle (GRD-5, PAIR-1, OWN-12, ORD-13, LIST-1, LST-1 link repairs of the version / snapshot list, cache eviction)",
    "recover": "recovery bundle (GRD-1, ORD-6, ORD-8c, ROLE-4 incl. the newest manifest record decides a recovered counter, GRD-11, GRD-12 incl. a fragment is counted as a whole, TS-1, GRD-6 incl. eof-only-from-a-short-read, ORD-23 reader position follows the file, FS-1/FS-2/FS-3, GRD-22, GRD-26/28/31/33/34/36, AGR-2/AGR-3, PAIR-17, ENUM-1, ERR-1 recovery subset)",
    "filter": "filter bundle (PAIR-5/5b, AGR-1, GRD-8, GRD-15, GRD-7)",
    "nopanic": "assertion bundle (PAIR-9, GRD-16, ROLE-5, OWN-13, GRD-35, GRD-14 non-empty, PAIR-10, ORD-17, GRD-22/23/25, PAIR-14, ORD-20, GRD-32)",
}
_USE = {"C01": ["read", "retain", "live", "recover"], "C03": ["read", "retain", "live"], "C04": ["read", "retain", "live"],
        "C05": ["read", "retain", "live"], "C06": ["read", "retain", "live", "recover"], "C07": ["read", "retain", "live"],
        "C02": ["recover"], "C08": ["recover"], "C16": ["recover"], "C13": ["filter"], "C09": ["nopanic"], "C10": ["nopanic"]}
BUNDLES = {p: "; plus the shared " + ", ".join(_B[b] for b in bs) + " (DESIGN.md §11.2b)" for p, bs in _USE.items()}

NA = {}


def main():
    checks = []
    na = [{"property_id": k, "reason": v} for k, v in NA.items()]
    for pid, (text, ref, tech) in sorted(CLAIMS.items()):
        mod = os.path.join(HERE, "engine", "rdbcheck", "props", pid.lower() + ".py")
        if not os.path.exists(mod):
            na.append({"property_id": pid, "reason": "check not built yet (static rules designed in DESIGN.md %s)" % ref})
            continue
        checks.append({
            "property_id": pid,
            "quick_cmd": "./check %s" % pid,
            "thorough_cmd": "./check %s --tier thorough" % pid,
            "evidence_file": "/verif/evidence/%s.json" % pid,
            "replay_cmd_template": "./check %s --explain {path}" % pid,
            "engine": "rdbcheck",
            "level_claimed": {
                "category": "other",
                "text": "Exhaustive static analysis of the lib crate's type-checked MIR decides these structural clauses, each a "
                        "necessary condition of the property for every input/schedule/crash point at once: " + text +
                        BUNDLES.get(pid, "") + ". It does not decide the behaviour itself.",
                "design_ref": "DESIGN.md " + ref,
            },
            "level_note": TRUST,
            "technique": "static analysis: " + tech,
        })
    m = {
        "version": 1,
        "setup_cmd": "cd engine/factgen && CARGO_NET_OFFLINE=true cargo build --release --offline",
        "hooks": {
            "guard": "raindb_verif",
            "enable": "none needed: the analysis reads rustc MIR of the unmodified crate (no hooks, no instrumentation)",
            "baseline_off_cmd": "cd /repo && (cargo nextest run --workspace --no-fail-fast --test-threads 8 --offline || cargo test --workspace --no-fail-fast --offline -- --test-threads 1)",
            "source_commits": [],
            "add_only": True,
        },
        "engines": [
            {"name": "factgen", "path": "engine/factgen", "serves_properties": sorted(CLAIMS),
             "kind_free_text": "rustc_private driver dumping resolved MIR facts (JSON) of the raindb lib crate"},
            {"name": "rdbcheck", "path": "engine/rdbcheck", "serves_properties": sorted(CLAIMS),
             "kind_free_text": "Python rule engines over the facts: CFG algebra, lock regions, error edges, role colours, guards, pairing, typestate"},
        ],
        "checks": checks,
        "not_applicable": na,
        "notes": "All checks are static (family: static analysis). Known findings: known_findings.json. See DESIGN.md.",
    }
    with open(os.path.join(HERE, "MANIFEST.json"), "w") as f:
        json.dump(m, f, indent=1)
    print("claimed:", [c["property_id"] for c in checks])


if __name__ == "__main__":
    main()
