#!/usr/bin/env python3
"""tools/seed_confirm.py <seed-id> <property> <worktree> <mut diff> <demo dir> [--needs "..."]

Confirms a seeded change produced by an independent sub-agent and files it under /verif/seeded/<seed-id>/:
  1. in the scratch worktree: apply the diff, run the whole suite + the demo tests (suite must pass, demo must fail)
  2. revert, run the demo tests again (must pass)
  3. apply the diff to /repo, run every check's quick command, record which fire, and undo it straight afterwards
Nothing is ever committed to /repo.
"""
import json
import os
import re
import shutil
import subprocess
import sys
import time

VERIF = os.path.dirname(os.path.dirname(os.path.abspath(__file__)))
FLAKY = {"create_dir_creates_an_empty_directory", "create_file_creates_a_file_we_can_write_to_and_read_from", "remove_file_removes_a_file"}
PROPS = ["C01", "C02", "C03", "C04", "C05", "C06", "C07", "C08", "C09", "C10", "C11", "C12", "C13", "C14", "C15", "C16", "C17"]


def sh(cmd, cwd=None, timeout=1800):
    r = subprocess.run(cmd, cwd=cwd, shell=True, stdout=subprocess.PIPE, stderr=subprocess.STDOUT, text=True, timeout=timeout)
    return r.returncode, r.stdout


def nextest(wt, extra=""):
    rc, out = sh("cargo nextest run --workspace --no-fail-fast --test-threads 8 --offline %s 2>&1 | tail -60" % extra, cwd=wt)
    failed = sorted(set(re.findall(r"^\s+(?:FAIL|TIMEOUT|SIGABRT|SIGSEGV)\s+\[[^\]]*\]\s+(?:\(.*?\)\s+)?(\S+ \S+)", out, re.M)))
    summ = re.findall(r"Summary \[.*?\] (.*)", out)
    return failed, (summ[-1] if summ else out[-300:])


def main():
    a = sys.argv[1:]
    needs = ""
    if "--needs" in a:
        i = a.index("--needs")
        needs = a[i + 1]
        a = a[:i] + a[i + 2:]
    incrate = []
    while "--incrate" in a:     # --incrate <demo file name>:<dest path in crate>:<file that gets the `mod` line>
        i = a.index("--incrate")
        incrate.append(a[i + 1].split(":"))
        a = a[:i] + a[i + 2:]
    scaffold = None
    if "--scaffold" in a:       # --scaffold <shell script>: test-only scaffolding the demonstration installs in the worktree (run after
        i = a.index("--scaffold")   # the mutation was applied / reverted, before the tests; must be idempotent); `--scaffold-test <name>`
        scaffold = a[i + 1]         # names the test binary the script installs under tests/
        a = a[:i] + a[i + 2:]
    scaffold_tests = []
    while "--scaffold-test" in a:
        i = a.index("--scaffold-test")
        scaffold_tests.append(a[i + 1])
        a = a[:i] + a[i + 2:]
    sid, prop, wt, diff, demo = a[:5]
    diff = os.path.abspath(diff)
    meta = {"seed_id": sid, "breaks_property": prop, "needs_to_manifest": needs, "source": "independent sub-agent given only the property text and a scratch worktree",
            "confirmed_at": time.strftime("%Y-%m-%dT%H:%M:%SZ", time.gmtime()), "ran": []}
    demo_tests = [f[:-3] for f in os.listdir(demo) if f.endswith(".rs") and os.path.exists(os.path.join(wt, "tests", f))]
    # demonstrations of sibling mutations are parked for the duration of the run (one of them may hang under this mutation)
    stash = os.path.join(wt, "_stash_other_demos")
    os.makedirs(stash, exist_ok=True)
    mine = {f for f in os.listdir(demo)}
    rc, untracked = sh("git ls-files --others --exclude-standard tests", cwd=wt)
    for rel in untracked.split():
        f = os.path.basename(rel)
        if rel == "tests/" + f and f.endswith(".rs") and f not in mine:      # top-level test binaries only; support dirs stay
            shutil.move(os.path.join(wt, "tests", f), os.path.join(stash, f))
    sh("git checkout -- src", cwd=wt)
    for (fn, dest, modfile) in incrate:
        os.makedirs(os.path.dirname(os.path.join(wt, dest)), exist_ok=True)
        shutil.copy(os.path.join(demo, fn), os.path.join(wt, dest))
        mod = os.path.basename(dest)[:-3]
        with open(os.path.join(wt, modfile), "a") as f:
            f.write("\n#[cfg(test)]\nmod %s;\n" % mod)
        demo_tests.append(mod)
    meta["demo_tests_run"] = demo_tests
    meta["in_crate_demo_scaffolding"] = [{"file": d, "mod_line_in": m} for (_, d, m) in incrate]
    rc, out = sh("git apply --check %s" % diff, cwd=wt)
    if rc != 0:
        print("diff does not apply:", out)
        return 2
    sh("git apply %s" % diff, cwd=wt)
    if scaffold:
        rc, out = sh("sh %s" % scaffold, cwd=wt)
        demo_tests += [t for t in scaffold_tests if t not in demo_tests]
        meta["demo_tests_run"] = demo_tests
        meta["demo_scaffold_script"] = os.path.basename(scaffold)
    failed_mut, summ_mut = nextest(wt)
    meta["ran"].append({"cmd": "git apply mut && cargo nextest run --workspace (suite + demo)", "summary": summ_mut, "failed": failed_mut})
    if scaffold:
        sh("git checkout -- src && git clean -fdq src", cwd=wt)
    else:
        sh("git apply -R %s" % diff, cwd=wt)
    if scaffold:
        sh("sh %s" % scaffold, cwd=wt)
    if incrate:
        filt = "-E '%s'" % " | ".join("test(%s)" % t for t in demo_tests)
    else:
        filt = " ".join("--test %s" % t for t in demo_tests) if demo_tests else ""
    failed_clean, summ_clean = nextest(wt, filt)
    meta["ran"].append({"cmd": "git checkout -- src && cargo nextest run %s (demo only)" % filt, "summary": summ_clean, "failed": failed_clean})
    sh("git checkout -- src", cwd=wt)
    if scaffold:
        sh("git clean -fdq src", cwd=wt)
        for t in scaffold_tests:
            if os.path.exists(os.path.join(wt, "tests", t + ".rs")):
                os.remove(os.path.join(wt, "tests", t + ".rs"))
    for (fn, dest, modfile) in incrate:
        if os.path.exists(os.path.join(wt, dest)):
            os.remove(os.path.join(wt, dest))
    for f in os.listdir(stash):
        shutil.move(os.path.join(stash, f), os.path.join(wt, "tests", f))
    os.rmdir(stash)
    # the fs_disk unit tests share one on-disk scratch directory and race with each other (3 are listed as flaky in the
    # pinned baseline; the others fail the same way on the unmodified tree when binaries run concurrently)
    flaky_seen = [f for f in failed_mut if "fs::fs_disk::" in f]
    meta["flaky_fs_disk_failures_ignored"] = flaky_seen
    # demonstrations of the sibling mutation live in the same worktree (tests/<cNN>_demo_*.rs): they are not part of the suite
    other_demos = [f for f in failed_mut if "_demo" in f.split(" ")[0] and not any(d in f for d in demo_tests)]
    meta["other_demo_failures_ignored"] = other_demos
    suite_failed = [f for f in failed_mut if not any(d in f for d in demo_tests) and f.split("::")[-1] not in FLAKY and "fs::fs_disk::" not in f
                    and f not in other_demos]
    demo_failed = [f for f in failed_mut if any(d in f for d in demo_tests)]
    meta["suite_passes_with_change"] = not suite_failed
    meta["demo_fails_with_change"] = bool(demo_failed)
    meta["demo_passes_without_change"] = not [f for f in failed_clean if f.split("::")[-1] not in FLAKY]
    # checks against /repo (one confirmation at a time: the change is applied to /repo itself)
    import fcntl
    lockf = open("/tmp/.seed_confirm_repo.lock", "w")
    fcntl.flock(lockf, fcntl.LOCK_EX)
    rc, st = sh("git -C /repo status --porcelain")
    if st.strip():
        print("refusing: /repo has local changes")
        return 2
    fired = {}
    try:
        rc, out = sh("git -C /repo apply %s" % diff)
        if rc != 0:
            print("cannot apply to /repo:", out)
            return 2
        for p in PROPS:
            rc, out = sh("./check %s --repo /repo" % p, cwd=VERIF)   # --repo: evidence of the unchanged tree is not overwritten
            keys = re.findall(r"instance: (.*)", out)
            if rc != 0:
                fired[p] = keys
    finally:
        sh("git -C /repo checkout -- .")
    meta["checks_that_fire"] = fired
    meta["detected"] = bool(fired)
    meta["detected_by_own_property"] = prop in fired
    d = os.path.join(VERIF, "seeded", sid)
    os.makedirs(d, exist_ok=True)
    shutil.copy(diff, os.path.join(d, "patch.diff"))
    dd = os.path.join(d, "demo")
    if os.path.exists(dd):
        shutil.rmtree(dd)
    shutil.copytree(demo, dd)
    json.dump(meta, open(os.path.join(d, "meta.json"), "w"), indent=1)
    print(json.dumps({k: meta[k] for k in ("seed_id", "suite_passes_with_change", "demo_fails_with_change", "demo_passes_without_change", "detected", "detected_by_own_property")}, indent=1))
    print("fired:", {p: ks[:2] for p, ks in fired.items()})
    return 0


if __name__ == "__main__":
    sys.exit(main())
