#!/usr/bin/env python3
"""Regenerate the kill-matrix / seeded-change tables in DESIGN.md from the last full selftest run
(.cache/selftest_last.json, produced by `cd engine && python3 -m rdbcheck.selftest all`) and seeded/*/meta.json."""
import glob
import json
import os

HERE = os.path.dirname(os.path.dirname(os.path.abspath(__file__)))
B, E = "<!-- KILL-MATRIX:BEGIN -->", "<!-- KILL-MATRIX:END -->"


def main():
    out = [B, "", "### 11.4 Which checks catch which changes", ""]
    seeds = sorted(glob.glob(os.path.join(HERE, "seeded", "*", "meta.json")))
    out += ["**Seeded changes written by independent sub-agents** (given only the property text and a scratch worktree; each "
            "confirmed here: suite passes with the change, demonstration fails with it and passes without it; then applied to `/repo`, "
            "checks run, and undone). `own` = caught by the check of the property it was written against.", "",
            "| seed | written against | needs, to manifest | caught by (rule instances) | own |", "|---|---|---|---|---|"]
    for p in seeds:
        m = json.load(open(p))
        fired = m.get("checks_that_fire", {})
        rules = sorted({k.split("|")[0] for ks in fired.values() for k in ks})
        ok3 = m.get("suite_passes_with_change") and m.get("demo_fails_with_change") and m.get("demo_passes_without_change")
        out.append("| %s%s | %s | %s | %s: %s | %s |" % (
            m["seed_id"], "" if ok3 else " (not fully confirmed)", m["breaks_property"], m.get("needs_to_manifest", "").replace("|", "/"),
            ", ".join(sorted(fired)) or "**missed**", ", ".join(rules) or "-", "yes" if m.get("detected_by_own_property") else "no"))
    out.append("")
    sp = os.path.join(HERE, ".cache", "selftest_last.json")
    if os.path.exists(sp):
        st = json.load(open(sp))
        muts = st.get("mutants", [])
        killed = [m for m in muts if m.get("killed")]
        out += ["**Selftest catalogue** (`selftest/mutants.py`; applied to a scratch copy of the current tree by the thorough tier): "
                "%d mutants, %d killed, %d survived, %d stale/non-compiling; %d benign variants, %d silent." % (
                    len(muts), len(killed), len([m for m in muts if not m.get("killed") and not m.get("stale") and not m.get("compile_error")]),
                    len([m for m in muts if m.get("stale") or m.get("compile_error")]),
                    len(st.get("benign", [])), len([b for b in st.get("benign", []) if b.get("silent")])), "",
                "| mutant | killed by | first rule instance that fired |", "|---|---|---|"]
        for m in muts:
            first = ""
            for p_, ks in sorted(m.get("fired", {}).items()):
                hit = [k for k in ks if m["expect"] in k]
                if hit:
                    first = hit[0]
                    break
            out.append("| %s | %s | `%s` |" % (m["name"], ", ".join(m.get("killed_by", [])) or ("STALE" if m.get("stale") else "**survived**"), first.replace("|", "¦")))
        out += ["", "| benign variant (must stay silent) | result |", "|---|---|"]
        for b in st.get("benign", []):
            out.append("| %s | %s |" % (b["name"], "silent" if b.get("silent") else "**NOISY** %s" % b.get("noise")))
    out += ["", "### 11.5 Rules evaluated per property (generated from the evidence files of the last run)", "",
            "| property | rule instances | functions analysed | known findings | rules |", "|---|---|---|---|---|"]
    for ep in sorted(glob.glob(os.path.join(HERE, "evidence", "C*.json"))):
        ev = json.load(open(ep))
        c = ev["coverage"]
        ids = []
        for r in c.get("rules", []):
            if r["id"] not in ids:
                ids.append(r["id"])
        out.append("| %s | %d (%d distinct non-trivial) | %d | %d | %s |" % (
            ev["property_id"], c["evaluations"], c["distinct_nontrivial"], c.get("n_functions_analysed", 0), len(c.get("known_findings", [])), ", ".join(ids)))
    out += ["", E]
    p = os.path.join(HERE, "DESIGN.md")
    s = open(p).read()
    if B in s:
        s = s[:s.index(B)] + "\n".join(out) + s[s.index(E) + len(E):]
    else:
        s = s.replace("@@KILL-MATRIX@@", "\n".join(out))
    open(p, "w").write(s)
    print("tables regenerated: %d seeds" % len(seeds))


if __name__ == "__main__":
    main()
