#!/usr/bin/env python3
"""Re-run every check against every seeded change and refresh `checks_that_fire` in each meta.json.

Each seeded/<id>/patch.diff is applied to a scratch git worktree of /repo's HEAD (outside /repo and /verif; several in
parallel; all removed afterwards), the quick checks run against that tree with --repo, and the worktree is reset. /repo
itself is not touched, so this can run next to other work. (tools/seed_confirm.py — the one-time confirmation of a new
seed — is the step that applies the change to /repo itself and undoes it straight afterwards.)

usage: seed_recheck.py [-j N] [seed ids...]"""
import glob
import json
import os
import re
import shutil
import subprocess
import sys
import tempfile
from concurrent.futures import ThreadPoolExecutor
from queue import Queue

VERIF = os.path.dirname(os.path.dirname(os.path.abspath(__file__)))
PROPS = ["C01", "C02", "C03", "C04", "C05", "C06", "C07", "C08", "C09", "C10", "C11", "C12", "C13", "C14", "C15", "C16", "C17"]


def sh(cmd, cwd=None):
    r = subprocess.run(cmd, cwd=cwd, shell=True, stdout=subprocess.PIPE, stderr=subprocess.STDOUT, text=True)
    return r.returncode, r.stdout


def one(mp, pool):
    meta = json.load(open(mp))
    diff = os.path.join(os.path.dirname(mp), "patch.diff")
    wt = pool.get()
    fired = {}
    try:
        sh("git checkout -q -- .", cwd=wt)
        rc, out = sh("git apply %s" % diff, cwd=wt)
        if rc != 0:
            meta["stale"] = True
            json.dump(meta, open(mp, "w"), indent=1)
            return "%-7s patch no longer applies: %s" % (meta["seed_id"], out[:160])
        meta.pop("stale", None)
        for p in PROPS:
            rc, out = sh("./check %s --repo %s" % (p, wt), cwd=VERIF)
            if rc != 0:
                fired[p] = re.findall(r"instance: (.*)", out) or ["(no instance line) " + out.strip()[-160:]]
    finally:
        sh("git checkout -q -- .", cwd=wt)
        pool.put(wt)
    meta["checks_that_fire"] = fired
    meta["detected"] = bool(fired)
    meta["detected_by_own_property"] = meta["breaks_property"] in fired
    json.dump(meta, open(mp, "w"), indent=1)
    return "%-7s own=%-5s %s" % (meta["seed_id"], meta["detected_by_own_property"], {p: [k.split("|")[0] for k in ks][:3] for p, ks in fired.items()})


def main():
    args = sys.argv[1:]
    jobs = 4
    if args[:1] == ["-j"]:
        jobs = int(args[1])
        args = args[2:]
    only = set(args)
    metas = [mp for mp in sorted(glob.glob(os.path.join(VERIF, "seeded", "*", "meta.json")))
             if not only or json.load(open(mp))["seed_id"] in only]
    base = tempfile.mkdtemp(prefix="seedrecheck.")
    pool = Queue()
    wts = []
    try:
        for i in range(min(jobs, max(1, len(metas)))):
            wt = os.path.join(base, "wt%d" % i)
            rc, out = sh("git -C /repo worktree add --detach %s HEAD" % wt)
            if rc != 0:
                print("cannot create scratch worktree:", out)
                return 2
            wts.append(wt)
            pool.put(wt)
        with ThreadPoolExecutor(max_workers=len(wts)) as ex:
            for line in ex.map(lambda mp: one(mp, pool), metas):
                print(line, flush=True)
    finally:
        for wt in wts:
            sh("git -C /repo worktree remove --force %s" % wt)
        sh("git -C /repo worktree prune")
        shutil.rmtree(base, ignore_errors=True)
    return 0


if __name__ == "__main__":
    sys.exit(main())
