#!/usr/bin/env python3
"""Re-run every check against every seeded change (apply seeded/<id>/patch.diff to /repo, run the quick checks, undo
straight afterwards) and refresh `checks_that_fire` in each meta.json. Nothing is committed to /repo."""
import glob
import json
import os
import re
import subprocess
import sys

VERIF = os.path.dirname(os.path.dirname(os.path.abspath(__file__)))
PROPS = ["C01", "C02", "C03", "C04", "C05", "C06", "C07", "C08", "C09", "C10", "C11", "C12", "C13", "C14", "C15", "C16", "C17"]


def sh(cmd, cwd=None):
    r = subprocess.run(cmd, cwd=cwd, shell=True, stdout=subprocess.PIPE, stderr=subprocess.STDOUT, text=True)
    return r.returncode, r.stdout


def main():
    rc, st = sh("git -C /repo status --porcelain")
    if st.strip():
        print("refusing: /repo has local changes")
        return 2
    only = set(sys.argv[1:])
    for mp in sorted(glob.glob(os.path.join(VERIF, "seeded", "*", "meta.json"))):
        meta = json.load(open(mp))
        if only and meta["seed_id"] not in only:
            continue
        diff = os.path.join(os.path.dirname(mp), "patch.diff")
        fired = {}
        try:
            rc, out = sh("git -C /repo apply %s" % diff)
            if rc != 0:
                print(meta["seed_id"], "patch no longer applies:", out[:200])
                meta["stale"] = True
                continue
            for p in PROPS:
                rc, out = sh("./check %s --repo /repo" % p, cwd=VERIF)
                if rc != 0:
                    fired[p] = re.findall(r"instance: (.*)", out)
        finally:
            sh("git -C /repo checkout -- .")
        meta["checks_that_fire"] = fired
        meta["detected"] = bool(fired)
        meta["detected_by_own_property"] = meta["breaks_property"] in fired
        json.dump(meta, open(mp, "w"), indent=1)
        print("%-7s own=%-5s %s" % (meta["seed_id"], meta["detected_by_own_property"], {p: [k.split("|")[0] for k in ks][:3] for p, ks in fired.items()}))
    return 0


if __name__ == "__main__":
    sys.exit(main())
