// factgen: rustc_private driver that dumps the type-checked MIR of the `raindb` lib crate as
// JSON facts (resolved callees, CFG, places with field names, rvalues, trait impl table).
//
// It is injected through RUSTC_WORKSPACE_WRAPPER under `cargo +nightly check`. It acts on the
// crate named by FACTGEN_CRATE (default `raindb`) and writes one JSON document to the path in
// FACTGEN_OUT (one write per process). All other crates are compiled normally.
#![feature(rustc_private)]

extern crate rustc_abi;
extern crate rustc_driver;
extern crate rustc_hir;
extern crate rustc_interface;
extern crate rustc_middle;
extern crate rustc_span;

use std::fmt::Write as _;

use rustc_driver::Compilation;
use rustc_hir::def::DefKind;
use rustc_hir::def_id::{DefId, LOCAL_CRATE};
use rustc_interface::interface::Compiler;
use rustc_middle::mir::{
    AggregateKind, BasicBlockData, Body, Const, Operand, Place, PlaceElem, Rvalue, StatementKind,
    TerminatorKind, UnwindAction,
};
use rustc_middle::ty::{self, Instance, InstanceKind, Ty, TyCtxt, TypingEnv};
use rustc_span::Span;

struct Cb {
    target_crate: String,
    out: String,
}

fn esc(s: &str) -> String {
    let mut o = String::with_capacity(s.len() + 2);
    o.push('"');
    for c in s.chars() {
        match c {
            '"' => o.push_str("\\\""),
            '\\' => o.push_str("\\\\"),
            '\n' => o.push_str("\\n"),
            '\r' => o.push_str("\\r"),
            '\t' => o.push_str("\\t"),
            c if (c as u32) < 0x20 => {
                let _ = write!(o, "\\u{:04x}", c as u32);
            }
            c => o.push(c),
        }
    }
    o.push('"');
    o
}

struct Cx<'a, 'tcx> {
    tcx: TyCtxt<'tcx>,
    body: &'a Body<'tcx>,
    def_id: DefId,
}

fn line_of(tcx: TyCtxt<'_>, span: Span) -> (String, usize, bool) {
    let exp = span.from_expansion();
    let sp = if exp { span.source_callsite() } else { span };
    let sm = tcx.sess.source_map();
    let loc = sm.lookup_char_pos(sp.lo());
    let fname = format!("{}", loc.file.name.prefer_local_unconditionally());
    (fname, loc.line, exp)
}

fn adts_of<'tcx>(t: Ty<'tcx>, tcx: TyCtxt<'tcx>, out: &mut Vec<String>) {
    for arg in t.walk() {
        if let Some(t) = arg.as_type() {
            if let ty::Adt(def, _) = t.kind() {
                let p = tcx.def_path_str(def.did());
                if !out.contains(&p) {
                    out.push(p);
                }
            }
        }
    }
}

impl<'a, 'tcx> Cx<'a, 'tcx> {
    fn place(&self, p: &Place<'tcx>) -> String {
        let mut s = String::new();
        let _ = write!(s, "{{\"l\":{},\"p\":[", p.local.as_usize());
        let mut first = true;
        for (base, elem) in p.iter_projections() {
            if !first {
                s.push(',');
            }
            first = false;
            match elem {
                PlaceElem::Deref => s.push_str("\"*\""),
                PlaceElem::Field(f, fty) => {
                    let bty = base.ty(&self.body.local_decls, self.tcx);
                    let mut name = String::new();
                    let mut cont = String::new();
                    match bty.ty.kind() {
                        ty::Adt(def, _) => {
                            cont = self.tcx.def_path_str(def.did());
                            let vi = bty.variant_index.unwrap_or(rustc_abi::FIRST_VARIANT);
                            if def.is_enum() || def.is_struct() || def.is_union() {
                                let v = def.variant(vi);
                                if let Some(fd) = v.fields.get(f) {
                                    name = fd.name.to_string();
                                }
                            }
                        }
                        ty::Closure(cdid, _) => {
                            if let Some(l) = cdid.as_local() {
                                let caps = self.tcx.closure_captures(l);
                                if let Some(c) = caps.get(f.as_usize()) {
                                    name = c.to_symbol().to_string();
                                }
                            }
                        }
                        _ => {}
                    }
                    let _ = write!(
                        s,
                        "{{\"f\":{},\"n\":{},\"t\":{},\"a\":{}}}",
                        f.as_usize(),
                        esc(&name),
                        esc(&format!("{}", fty)),
                        esc(&cont)
                    );
                }
                PlaceElem::Index(l) => {
                    let _ = write!(s, "{{\"idx\":{}}}", l.as_usize());
                }
                PlaceElem::ConstantIndex { offset, from_end, .. } => {
                    let _ = write!(s, "{{\"cidx\":{},\"from_end\":{}}}", offset, from_end);
                }
                PlaceElem::Subslice { from, to, from_end } => {
                    let _ = write!(s, "{{\"sub\":[{},{}],\"from_end\":{}}}", from, to, from_end);
                }
                PlaceElem::Downcast(name, vi) => {
                    let n = name.map(|x| x.to_string()).unwrap_or_default();
                    let _ = write!(s, "{{\"dc\":{},\"vi\":{}}}", esc(&n), vi.as_usize());
                }
                PlaceElem::OpaqueCast(_) => s.push_str("\"opaque\""),
                PlaceElem::UnwrapUnsafeBinder(_) => s.push_str("\"unbinder\""),
            }
        }
        s.push_str("]}");
        s
    }

    fn operand(&self, o: &Operand<'tcx>) -> String {
        match o {
            Operand::Copy(p) => format!("{{\"k\":\"copy\",\"pl\":{}}}", self.place(p)),
            Operand::Move(p) => format!("{{\"k\":\"move\",\"pl\":{}}}", self.place(p)),
            Operand::Constant(c) => {
                let t = c.const_.ty();
                let mut fnp = String::from("null");
                let mut substs = String::from("[]");
                match t.kind() {
                    ty::FnDef(did, args) => {
                        fnp = esc(&self.tcx.def_path_str(*did));
                        let mut v = Vec::new();
                        for a in args.iter() {
                            v.push(esc(&format!("{}", a)));
                        }
                        substs = format!("[{}]", v.join(","));
                    }
                    ty::Closure(did, _) => {
                        fnp = esc(&self.tcx.def_path_str(*did));
                    }
                    _ => {}
                }
                let mut val = String::from("null");
                let tenv = TypingEnv::post_analysis(self.tcx, self.def_id);
                if t.is_integral() || t.is_bool() || t.is_char() {
                    if let Some(si) = c.const_.try_eval_scalar_int(self.tcx, tenv) {
                        let size = si.size();
                        if t.is_signed() {
                            val = esc(&format!("{}", si.to_int(size)));
                        } else {
                            val = esc(&format!("{}", si.to_uint(size)));
                        }
                    }
                }
                let text = match c.const_ {
                    Const::Val(..) | Const::Ty(..) | Const::Unevaluated(..) => {
                        format!("{}", c.const_)
                    }
                };
                format!(
                    "{{\"k\":\"const\",\"ty\":{},\"val\":{},\"fn\":{},\"substs\":{},\"text\":{}}}",
                    esc(&format!("{}", t)),
                    val,
                    fnp,
                    substs,
                    esc(&text)
                )
            }
            #[allow(unreachable_patterns)]
            _ => format!("{{\"k\":\"other\",\"text\":{}}}", esc(&format!("{:?}", o))),
        }
    }

    fn rvalue(&self, rv: &Rvalue<'tcx>) -> String {
        match rv {
            Rvalue::Use(o, ..) => format!("{{\"k\":\"use\",\"ops\":[{}]}}", self.operand(o)),
            Rvalue::Ref(_, bk, p) => format!(
                "{{\"k\":\"ref\",\"mut\":{},\"pl\":{}}}",
                matches!(bk, rustc_middle::mir::BorrowKind::Mut { .. }),
                self.place(p)
            ),
            Rvalue::RawPtr(_, p) => format!("{{\"k\":\"rawptr\",\"pl\":{}}}", self.place(p)),
            Rvalue::CopyForDeref(p) => format!(
                "{{\"k\":\"use\",\"ops\":[{{\"k\":\"copy\",\"pl\":{}}}]}}",
                self.place(p)
            ),
            Rvalue::Discriminant(p) => format!("{{\"k\":\"discr\",\"pl\":{}}}", self.place(p)),
            Rvalue::BinaryOp(op, ab) => format!(
                "{{\"k\":\"binop\",\"op\":{},\"ops\":[{},{}]}}",
                esc(&format!("{:?}", op)),
                self.operand(&ab.0),
                self.operand(&ab.1)
            ),
            Rvalue::UnaryOp(op, a) => format!(
                "{{\"k\":\"unop\",\"op\":{},\"ops\":[{}]}}",
                esc(&format!("{:?}", op)),
                self.operand(a)
            ),
            Rvalue::Cast(kind, o, t) => format!(
                "{{\"k\":\"cast\",\"ck\":{},\"ty\":{},\"ops\":[{}]}}",
                esc(&format!("{:?}", kind)),
                esc(&format!("{}", t)),
                self.operand(o)
            ),
            Rvalue::Aggregate(kind, ops) => {
                let mut adt = String::from("null");
                let mut variant = String::from("null");
                let mut fields: Vec<String> = Vec::new();
                let mut closure = String::from("null");
                let ak;
                match &**kind {
                    AggregateKind::Adt(did, vi, _, _, _) => {
                        ak = "adt";
                        let def = self.tcx.adt_def(*did);
                        adt = esc(&self.tcx.def_path_str(*did));
                        let v = def.variant(*vi);
                        variant = esc(&v.name.to_string());
                        for f in v.fields.iter() {
                            fields.push(esc(&f.name.to_string()));
                        }
                    }
                    AggregateKind::Closure(did, _) => {
                        ak = "closure";
                        closure = esc(&self.tcx.def_path_str(*did));
                        if let Some(l) = did.as_local() {
                            for c in self.tcx.closure_captures(l) {
                                fields.push(esc(&c.to_symbol().to_string()));
                            }
                        }
                    }
                    AggregateKind::Tuple => ak = "tuple",
                    AggregateKind::Array(_) => ak = "array",
                    _ => ak = "other",
                }
                let v: Vec<String> = ops.iter().map(|o| self.operand(o)).collect();
                format!(
                    "{{\"k\":\"aggregate\",\"ak\":\"{}\",\"adt\":{},\"variant\":{},\"fields\":[{}],\"closure\":{},\"ops\":[{}]}}",
                    ak,
                    adt,
                    variant,
                    fields.join(","),
                    closure,
                    v.join(",")
                )
            }
            Rvalue::Repeat(o, _) => format!("{{\"k\":\"repeat\",\"ops\":[{}]}}", self.operand(o)),
            other => format!("{{\"k\":\"other\",\"text\":{}}}", esc(&format!("{:?}", other))),
        }
    }

    fn block(&self, bb: &BasicBlockData<'tcx>) -> String {
        let tcx = self.tcx;
        let mut s = String::new();
        let _ = write!(s, "{{\"cleanup\":{},\"stmts\":[", bb.is_cleanup);
        let mut first = true;
        for st in &bb.statements {
            let (_, line, exp) = line_of(tcx, st.source_info.span);
            let js = match &st.kind {
                StatementKind::Assign(b) => {
                    let (pl, rv) = &**b;
                    format!(
                        "{{\"k\":\"assign\",\"line\":{},\"exp\":{},\"pl\":{},\"rv\":{}}}",
                        line,
                        exp,
                        self.place(pl),
                        self.rvalue(rv)
                    )
                }
                StatementKind::SetDiscriminant { place, variant_index } => format!(
                    "{{\"k\":\"setdiscr\",\"line\":{},\"pl\":{},\"vi\":{}}}",
                    line,
                    self.place(place),
                    variant_index.as_usize()
                ),
                StatementKind::StorageLive(_)
                | StatementKind::StorageDead(_)
                | StatementKind::Nop
                | StatementKind::FakeRead(..)
                | StatementKind::AscribeUserType(..)
                | StatementKind::Coverage(..)
                | StatementKind::ConstEvalCounter
                | StatementKind::PlaceMention(..)
                | StatementKind::BackwardIncompatibleDropHint { .. } => continue,
                other => format!(
                    "{{\"k\":\"other\",\"line\":{},\"text\":{}}}",
                    line,
                    esc(&format!("{:?}", other))
                ),
            };
            if !first {
                s.push(',');
            }
            first = false;
            s.push_str(&js);
        }
        s.push_str("],\"term\":");
        let term = bb.terminator();
        let (_, line, exp) = line_of(tcx, term.source_info.span);
        let unwind_s = |u: &UnwindAction| -> String {
            match u {
                UnwindAction::Cleanup(b) => format!("{}", b.as_usize()),
                _ => "null".to_string(),
            }
        };
        let t = match &term.kind {
            TerminatorKind::Goto { target } => {
                format!("{{\"k\":\"goto\",\"line\":{},\"target\":{}}}", line, target.as_usize())
            }
            TerminatorKind::SwitchInt { discr, targets } => {
                let mut v = Vec::new();
                for (val, tgt) in targets.iter() {
                    v.push(format!("[{},{}]", val, tgt.as_usize()));
                }
                format!(
                    "{{\"k\":\"switch\",\"line\":{},\"exp\":{},\"discr\":{},\"targets\":[{}],\"otherwise\":{}}}",
                    line,
                    exp,
                    self.operand(discr),
                    v.join(","),
                    targets.otherwise().as_usize()
                )
            }
            TerminatorKind::Return => format!("{{\"k\":\"return\",\"line\":{}}}", line),
            TerminatorKind::Unreachable => format!("{{\"k\":\"unreachable\",\"line\":{}}}", line),
            TerminatorKind::UnwindResume => format!("{{\"k\":\"resume\",\"line\":{}}}", line),
            TerminatorKind::UnwindTerminate(_) => format!("{{\"k\":\"abort\",\"line\":{}}}", line),
            TerminatorKind::Drop { place, target, unwind, .. } => {
                let pty = place.ty(&self.body.local_decls, tcx).ty;
                format!(
                    "{{\"k\":\"drop\",\"line\":{},\"pl\":{},\"ty\":{},\"target\":{},\"unwind\":{}}}",
                    line,
                    self.place(place),
                    esc(&format!("{}", pty)),
                    target.as_usize(),
                    unwind_s(unwind)
                )
            }
            TerminatorKind::Assert { cond, expected, target, unwind, msg } => format!(
                "{{\"k\":\"assert\",\"line\":{},\"cond\":{},\"expected\":{},\"target\":{},\"unwind\":{},\"msg\":{}}}",
                line,
                self.operand(cond),
                expected,
                target.as_usize(),
                unwind_s(unwind),
                esc(&format!("{:?}", msg).chars().take(60).collect::<String>())
            ),
            TerminatorKind::Call { func, args, destination, target, unwind, .. } => {
                let fty = func.ty(&self.body.local_decls, tcx);
                let mut callee = String::from("null");
                let mut resolved = String::from("null");
                let mut resolved_local = false;
                let mut is_dyn = false;
                let mut inst_kind = String::from("null");
                let mut substs: Vec<String> = Vec::new();
                let mut self_ty = String::from("null");
                let mut self_adt = String::from("null");
                match fty.kind() {
                    ty::FnDef(did, cargs) => {
                        callee = esc(&tcx.def_path_str(*did));
                        for a in cargs.iter() {
                            substs.push(esc(&format!("{}", a)));
                        }
                        // `Self` type for inherent/trait methods: first type arg of a trait
                        // method, or the impl's self type for inherent methods.
                        if let Some(first) = cargs.types().next() {
                            if tcx.trait_of_assoc(*did).is_some() {
                                self_ty = esc(&format!("{}", first));
                                let mut t = first;
                                loop {
                                    match t.kind() {
                                        ty::Ref(_, inner, _) => t = *inner,
                                        _ => break,
                                    }
                                }
                                if let ty::Adt(d, _) = t.kind() {
                                    self_adt = esc(&tcx.def_path_str(d.did()));
                                }
                            }
                        }
                        if let Some(impl_did) = tcx.inherent_impl_of_assoc(*did) {
                            let st = tcx.type_of(impl_did).instantiate(tcx, cargs).skip_norm_wip();
                            self_ty = esc(&format!("{}", st));
                            if let ty::Adt(d, _) = st.kind() {
                                self_adt = esc(&tcx.def_path_str(d.did()));
                            }
                        }
                        let tenv = TypingEnv::post_analysis(tcx, self.def_id);
                        if let Ok(Some(inst)) = Instance::try_resolve(tcx, tenv, *did, cargs) {
                            let rdid = inst.def_id();
                            resolved = esc(&tcx.def_path_str(rdid));
                            resolved_local = rdid.is_local();
                            inst_kind = esc(match inst.def {
                                InstanceKind::Item(_) => "item",
                                InstanceKind::Virtual(..) => "virtual",
                                InstanceKind::ClosureOnceShim { .. } => "closure_once_shim",
                                InstanceKind::FnPtrShim(..) => "fn_ptr_shim",
                                InstanceKind::DropGlue(..) => "drop_glue",
                                InstanceKind::CloneShim(..) => "clone_shim",
                                InstanceKind::Intrinsic(_) => "intrinsic",
                                InstanceKind::VTableShim(_) => "vtable_shim",
                                InstanceKind::ReifyShim(..) => "reify_shim",
                                _ => "other",
                            });
                            if let InstanceKind::Virtual(..) = inst.def {
                                is_dyn = true;
                            }
                        }
                    }
                    ty::FnPtr(..) => {
                        callee = esc("<fn-pointer>");
                    }
                    _ => {
                        callee = esc(&format!("<indirect:{}>", fty));
                    }
                }
                let a: Vec<String> = args.iter().map(|o| self.operand(&o.node)).collect();
                let aty: Vec<String> = args
                    .iter()
                    .map(|o| esc(&format!("{}", o.node.ty(&self.body.local_decls, tcx))))
                    .collect();
                format!(
                    "{{\"k\":\"call\",\"line\":{},\"exp\":{},\"callee\":{},\"resolved\":{},\"local\":{},\"dyn\":{},\"ik\":{},\"substs\":[{}],\"self_ty\":{},\"self_adt\":{},\"args\":[{}],\"arg_tys\":[{}],\"dest\":{},\"target\":{},\"unwind\":{}}}",
                    line,
                    exp,
                    callee,
                    resolved,
                    resolved_local,
                    is_dyn,
                    inst_kind,
                    substs.join(","),
                    self_ty,
                    self_adt,
                    a.join(","),
                    aty.join(","),
                    self.place(destination),
                    target.map(|t| t.as_usize().to_string()).unwrap_or("null".into()),
                    unwind_s(unwind)
                )
            }
            other => format!(
                "{{\"k\":\"other\",\"line\":{},\"text\":{}}}",
                line,
                esc(&format!("{:?}", other).chars().take(200).collect::<String>())
            ),
        };
        s.push_str(&t);
        s.push('}');
        s
    }
}

fn dump_body<'tcx>(tcx: TyCtxt<'tcx>, did: DefId, out: &mut String) {
    let body: &Body<'tcx> = tcx.optimized_mir(did);
    let kind = tcx.def_kind(did);
    let kind_s = match kind {
        DefKind::Fn => "fn",
        DefKind::AssocFn => "assoc_fn",
        DefKind::Closure => "closure",
        _ => "other",
    };
    let path = tcx.def_path_str(did);
    let parent = if let DefKind::Closure = kind {
        let p = tcx.typeck_root_def_id(did);
        esc(&tcx.def_path_str(p))
    } else {
        "null".to_string()
    };
    let direct_parent = if let DefKind::Closure = kind {
        esc(&tcx.def_path_str(tcx.parent(did)))
    } else {
        "null".to_string()
    };
    let (file, lo, _) = line_of(tcx, body.span);
    let sm = tcx.sess.source_map();
    let hi = sm.lookup_char_pos(body.span.hi()).line;
    let vis = match kind {
        DefKind::Fn | DefKind::AssocFn => {
            let v = tcx.visibility(did);
            if v.is_public() { "pub" } else { "restricted" }
        }
        _ => "closure",
    };
    // Is this an impl of a trait method? Which one?
    let mut trait_method = String::from("null");
    let mut impl_self = String::from("null");
    if let DefKind::AssocFn = kind {
        let ai = tcx.associated_item(did);
        if let Some(tdid) = ai.trait_item_def_id() {
            if tdid != did {
                trait_method = esc(&tcx.def_path_str(tdid));
            }
        }
        let parent = tcx.parent(did);
        if let DefKind::Impl { .. } = tcx.def_kind(parent) {
            let st = tcx.type_of(parent).instantiate_identity().skip_norm_wip();
            impl_self = esc(&format!("{}", st));
        }
    }
    let cx = Cx { tcx, body, def_id: did };
    let _ = write!(
        out,
        "{}:{{\"kind\":\"{}\",\"parent\":{},\"direct_parent\":{},\"file\":{},\"line_lo\":{},\"line_hi\":{},\"vis\":\"{}\",\"trait_method\":{},\"impl_self\":{},\"args\":{},\"locals\":[",
        esc(&path),
        kind_s,
        parent,
        direct_parent,
        esc(&file),
        lo,
        hi,
        vis,
        trait_method,
        impl_self,
        body.arg_count
    );
    // user variable names
    let mut names: Vec<Option<String>> = vec![None; body.local_decls.len()];
    for vdi in &body.var_debug_info {
        if let rustc_middle::mir::VarDebugInfoContents::Place(p) = &vdi.value {
            if p.projection.is_empty() {
                names[p.local.as_usize()] = Some(vdi.name.to_string());
            }
        }
    }
    let mut first = true;
    for (l, decl) in body.local_decls.iter_enumerated() {
        if !first {
            out.push(',');
        }
        first = false;
        let mut adts = Vec::new();
        adts_of(decl.ty, tcx, &mut adts);
        let adts_s: Vec<String> = adts.iter().map(|a| esc(a)).collect();
        let name = match &names[l.as_usize()] {
            Some(n) => esc(n),
            None => "null".into(),
        };
        let _ = write!(
            out,
            "{{\"ty\":{},\"name\":{},\"adts\":[{}]}}",
            esc(&format!("{}", decl.ty)),
            name,
            adts_s.join(",")
        );
    }
    out.push_str("],\"blocks\":[");
    let mut first = true;
    for (_, bb) in body.basic_blocks.iter_enumerated() {
        if !first {
            out.push(',');
        }
        first = false;
        out.push_str(&cx.block(bb));
    }
    out.push_str("],\"promoted\":[");
    // promoted constants (e.g. `&Operation::Delete`): tiny bodies whose _0 is the promoted value
    let promoted = tcx.promoted_mir(did);
    let mut firstp = true;
    for (_, pbody) in promoted.iter_enumerated() {
        if !firstp {
            out.push(',');
        }
        firstp = false;
        let pcx = Cx { tcx, body: pbody, def_id: did };
        out.push_str("{\"locals\":[");
        let mut f2 = true;
        for (_, decl) in pbody.local_decls.iter_enumerated() {
            if !f2 {
                out.push(',');
            }
            f2 = false;
            let _ = write!(out, "{{\"ty\":{},\"name\":null,\"adts\":[]}}", esc(&format!("{}", decl.ty)));
        }
        out.push_str("],\"blocks\":[");
        let mut f3 = true;
        for (_, bb) in pbody.basic_blocks.iter_enumerated() {
            if !f3 {
                out.push(',');
            }
            f3 = false;
            out.push_str(&pcx.block(bb));
        }
        out.push_str("]}");
    }
    out.push_str("]}");
}

impl rustc_driver::Callbacks for Cb {
    fn after_analysis<'tcx>(&mut self, _c: &Compiler, tcx: TyCtxt<'tcx>) -> Compilation {
        let name = tcx.crate_name(LOCAL_CRATE).to_string();
        if name != self.target_crate {
            return Compilation::Continue;
        }
        // Only the lib target: skip when compiling with --test or a bin of the same name.
        if tcx.sess.opts.test {
            return Compilation::Continue;
        }
        let mut out = String::with_capacity(64 << 20);
        let _ = write!(
            out,
            "{{\"crate\":{},\"rustc\":{},\"bodies\":{{",
            esc(&name),
            esc(&rustc_interface::util::rustc_version_str().unwrap_or("unknown").to_string())
        );
        let mut n = 0usize;
        let mut keys: Vec<_> = tcx.mir_keys(()).iter().copied().collect();
        keys.sort_by_key(|k| tcx.def_path_str(k.to_def_id()));
        for ldid in keys {
            let did = ldid.to_def_id();
            match tcx.def_kind(did) {
                DefKind::Fn | DefKind::AssocFn | DefKind::Closure => {}
                _ => continue,
            }
            if n > 0 {
                out.push(',');
            }
            n += 1;
            dump_body(tcx, did, &mut out);
        }
        out.push_str("},\"impls\":[");
        // trait impl table
        let mut first = true;
        for (trait_did, impls) in tcx.all_local_trait_impls(()).iter() {
            for impl_ldid in impls.iter() {
                let impl_did = impl_ldid.to_def_id();
                let st = tcx.type_of(impl_did).instantiate_identity().skip_norm_wip();
                let mut assoc: Vec<String> = Vec::new();
                for item in tcx.associated_items(impl_did).in_definition_order() {
                    if let ty::AssocKind::Type { .. } = item.kind {
                        let t = tcx.type_of(item.def_id).instantiate_identity().skip_norm_wip();
                        assoc.push(format!("{}:{}", esc(&item.name().to_string()), esc(&format!("{}", t))));
                    }
                }
                for item in tcx.associated_items(impl_did).in_definition_order() {
                    if !matches!(item.kind, ty::AssocKind::Fn { .. }) {
                        continue;
                    }
                    let tm = match item.trait_item_def_id() {
                        Some(t) => tcx.def_path_str(t),
                        None => continue,
                    };
                    if !first {
                        out.push(',');
                    }
                    first = false;
                    let _ = write!(
                        out,
                        "{{\"trait\":{},\"trait_method\":{},\"impl_method\":{},\"self_ty\":{},\"assoc\":{{{}}}}}",
                        esc(&tcx.def_path_str(*trait_did)),
                        esc(&tm),
                        esc(&tcx.def_path_str(item.def_id)),
                        esc(&format!("{}", st)),
                        assoc.join(",")
                    );
                }
            }
        }
        out.push_str("],\"structs\":{");
        let mut first = true;
        for ldid in tcx.hir_crate_items(()).definitions() {
            let did = ldid.to_def_id();
            if let DefKind::Struct = tcx.def_kind(did) {
                let def = tcx.adt_def(did);
                let v = def.non_enum_variant();
                let fields: Vec<String> = v
                    .fields
                    .iter()
                    .map(|f| {
                        format!(
                            "[{},{}]",
                            esc(&f.name.to_string()),
                            esc(&format!("{}", tcx.type_of(f.did).instantiate_identity().skip_norm_wip()))
                        )
                    })
                    .collect();
                if !first {
                    out.push(',');
                }
                first = false;
                let _ = write!(out, "{}:[{}]", esc(&tcx.def_path_str(did)), fields.join(","));
            }
        }
        out.push_str("},\"enums\":{");
        let mut first = true;
        for ldid in tcx.hir_crate_items(()).definitions() {
            let did = ldid.to_def_id();
            if let DefKind::Enum = tcx.def_kind(did) {
                let def = tcx.adt_def(did);
                let mut vs: Vec<String> = Vec::new();
                for (vi, discr) in def.discriminants(tcx) {
                    let v = def.variant(vi);
                    vs.push(format!("[{},{}]", esc(&v.name.to_string()), esc(&format!("{}", discr.val))));
                }
                if !first {
                    out.push(',');
                }
                first = false;
                let _ = write!(out, "{}:[{}]", esc(&tcx.def_path_str(did)), vs.join(","));
            }
        }
        let _ = write!(out, "}},\"n_bodies\":{}}}", n);
        std::fs::write(&self.out, out).expect("factgen: cannot write FACTGEN_OUT");
        Compilation::Continue
    }
}

fn main() {
    let mut args: Vec<String> = std::env::args().collect();
    // RUSTC_WORKSPACE_WRAPPER passes the real rustc path as argv[1].
    if args.len() > 1 {
        args.remove(1);
    }
    let target_crate = std::env::var("FACTGEN_CRATE").unwrap_or_else(|_| "raindb".to_string());
    let out = std::env::var("FACTGEN_OUT").unwrap_or_else(|_| "/dev/null".to_string());
    let mut cb = Cb { target_crate, out };
    rustc_driver::run_compiler(&args, &mut cb);
}
