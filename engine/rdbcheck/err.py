"""ERR engine: error discipline. For every call whose destination is a `Result`, where does the Err go?

Classification of a result site (one call site returning Result):
  propagated   `?` (Try::branch) or the value is returned / moved into the return place
  asserted     unwrap / expect / unwrap_err (panics on Err: not swallowed)
  passed       handed to another function / stored into a field or aggregate (obligation moves)
  tested       match / if-let / is_err / is_ok: every Err edge is followed to the function's exits
  converted    .err() into a status Option that is used later / .map/.map_err chains (followed)
  FLAGGED      never inspected; defaulted (unwrap_or*/ok()); a tested Err edge from which a `return`
               is reachable without passing an Err-return, a recording sink or a status store
"""
from .cfg import strip_generics, CallSite
from .rules import forward_aliases, result_tests, TRY_BRANCH, IS_ERR, IS_OK
from .dataflow import origins

RESULT_PREFIX = "std::result::Result<"

ASSERTING = {"std::result::Result::unwrap", "std::result::Result::expect", "std::result::Result::unwrap_err",
             "std::result::Result::expect_err"}
DEFAULTING = {"std::result::Result::unwrap_or", "std::result::Result::unwrap_or_default", "std::result::Result::unwrap_or_else",
              "std::result::Result::ok", "std::result::Result::is_ok_and", "std::result::Result::map_or",
              "std::result::Result::map_or_else"}
CHAINING = {"std::result::Result::map", "std::result::Result::map_err", "std::result::Result::and_then",
            "std::result::Result::or_else", "std::result::Result::and", "std::result::Result::or"}
ALIASING = {"<std::result::Result<T, E> as std::clone::Clone>::clone", "std::clone::Clone::clone", "std::result::Result::as_ref",
            "std::result::Result::as_mut", "std::result::Result::cloned", "std::result::Result::copied", "std::hint::must_use"}
ERR_TO_OPTION = {"std::result::Result::err"}
FROM_RESIDUAL = "<std::result::Result<T, F> as std::ops::FromResidual<std::result::Result<std::convert::Infallible, E>>>::from_residual"

SINKS = {
    "db::DB::set_bad_database_state",
    "versioning::file_iterators::MergingIterator::save_error",
    "writers::Writer::set_operation_result",
}


class Finding:
    def __init__(self, site, category, detail, err_line=None):
        self.site = site
        self.category = category
        self.detail = detail
        self.err_line = err_line

    def key(self):
        return "%s|callee=%s|%s" % (self.site.body.path, self.site.declared_name or self.site.name, self.category)


def is_result_local(body, l):
    return body.local_ty(l).startswith(RESULT_PREFIX)


def _uses_local_set(op, A):
    return op["k"] in ("copy", "move") and op["pl"]["l"] in A


def returns_result(body):
    return body.local_ty(0).startswith(RESULT_PREFIX)


def satisfying_blocks(body, extra_sinks=()):
    """Blocks that discharge an observed error: Err written to the return place, residual conversion,
    a recording sink, or a store into an error-status variable/field."""
    S = set()
    sinks = SINKS | set(extra_sinks)
    for b in range(body.n):
        if body.is_cleanup(b):
            continue
        for st in body.blocks[b]["stmts"]:
            if st["k"] != "assign":
                continue
            pl, rv = st["pl"], st["rv"]
            if pl["l"] == 0 and not pl["p"]:
                if rv["k"] == "aggregate" and rv.get("variant") == "Err":
                    S.add(b)
                elif rv["k"] == "use" and rv["ops"][0]["k"] in ("copy", "move"):
                    # returning a Result-valued local (not a literal Ok)
                    os_ = origins(body, rv["ops"][0])
                    if any(o.kind == "agg" and o.name.endswith("::Err") for o in os_) or \
                            any(o.kind in ("call", "param", "upvar") for o in os_):
                        if not all(o.kind == "agg" and o.name.endswith("::Ok") for o in os_ if o.kind == "agg") or any(o.kind != "agg" for o in os_):
                            S.add(b)
            else:
                # status store: Option<Error>/Result typed user variable or field receives Some(err)/Err(..)/err()
                tyl = body.local_ty(pl["l"])
                is_field = any(isinstance(e, dict) and "f" in e for e in pl["p"])
                named = body.local_name(pl["l"]) is not None
                if (named or is_field) and rv["k"] in ("aggregate", "use"):
                    # a status variable: Option/Result typed, receives Some(..)/Err(..)/.err(), and is tested
                    # somewhere in this body (is_some/is_none/match)
                    sty = _field_ty(pl) if is_field else tyl
                    if not (sty.startswith("std::option::Option<") or sty.startswith(RESULT_PREFIX)):
                        continue
                    if not is_field and not _status_tested(body, pl["l"]):
                        continue
                    if rv["k"] == "aggregate" and rv.get("variant") in ("Some", "Err"):
                        S.add(b)
                    elif rv["k"] == "use" and rv["ops"][0]["k"] in ("copy", "move"):
                        os_ = origins(body, rv["ops"][0])
                        if any(o.kind == "agg" and (o.name.endswith("::Some") or o.name.endswith("::Err")) for o in os_):
                            S.add(b)
                        elif any(o.kind == "call" and o.name in ERR_TO_OPTION for o in os_):
                            S.add(b)
                        elif any(o.kind == "const" and isinstance(o.name, str) and (o.name.startswith("Some(") or o.name.startswith("Err(")) for o in os_):
                            S.add(b)
                    elif rv["k"] == "use" and rv["ops"][0]["k"] == "const":
                        txt = rv["ops"][0].get("text") or ""
                        if txt.startswith("Some(") or txt.startswith("Err(") or "::Some(" in txt or "::Err(" in txt:
                            S.add(b)
        t = body.term(b)
        if t["k"] == "call":
            nm = strip_generics(t.get("resolved") or t.get("callee"))
            if nm in sinks or _records_what_it_is_given(body, t):
                S.add(b)
            elif nm == FROM_RESIDUAL and t["dest"]["l"] == 0:
                S.add(b)
            elif t["dest"]["l"] == 0 and not t["dest"]["p"] and nm not in ("std::result::Result::Ok",):
                # `return other_call(..)` / `Err(e.into())`-style conversions write _0 from a call
                if returns_result(body) and nm in ("<T as std::convert::Into<U>>::into",):
                    S.add(b)
            if nm in ERR_TO_OPTION and body.local_name(t["dest"]["l"]) is not None:
                S.add(b)
    return S


_REC_CACHE = {}


def _records_what_it_is_given(body, t):
    """The call hands the error to a private helper that is not on the reviewed tree's function list and that records it
    on every path (a status store / a recording sink dominates each of its returns): `record_seek_error(.., error)`
    extracted from a function that used to do the store itself."""
    path = t.get("resolved")
    P = body.prog
    if not path or not t.get("local") or t.get("dyn") or P is None:
        return False
    if path not in _REC_CACHE:
        ok = False
        from . import inline
        known = inline.load_known() or set()
        h = getattr(P, "bodies_as_written", {}).get(path)
        if h is not None and path not in known and h.kind != "closure" and h is not body:
            S = set()
            try:
                S = satisfying_blocks(h)
            except RecursionError:
                S = set()
            # only genuine recording counts here, not `return Err(..)` of the helper
            rec = set()
            for b_ in S:
                for st in h.blocks[b_]["stmts"]:
                    if st["k"] == "assign" and not (st["pl"]["l"] == 0 and not st["pl"]["p"]):
                        rec.add(b_)
                tt = h.term(b_)
                if tt["k"] == "call" and strip_generics(tt.get("resolved") or tt.get("callee")) in SINKS:
                    rec.add(b_)
            ok = bool(rec) and all(h.must_pass(r, through_nodes=rec, through_edges=first_error_wins_edges(h)) for r in h.return_blocks())
        _REC_CACHE[path] = ok
    return _REC_CACHE[path]


def first_error_wins_edges(body):
    """`if self.status.is_none() { self.status = Some(err) }`: on the other edge the status field already holds an error
    (the first one is kept, LevelDB's SaveError) — that edge discharges the error as well. Returns the `is Some` edges of
    the tests of every Option-typed FIELD that receives a `Some(..)` status store in this body."""
    fields = set()
    for b in range(body.n):
        if body.is_cleanup(b):
            continue
        for st in body.blocks[b]["stmts"]:
            if st["k"] != "assign":
                continue
            fps = [e for e in st["pl"]["p"] if isinstance(e, dict) and "f" in e]
            if not (fps and (fps[-1].get("t") or "").startswith("std::option::Option<") and fps[-1].get("n")):
                continue
            rv = st["rv"]
            if (rv["k"] == "aggregate" and rv.get("variant") == "Some") or \
                    (rv["k"] == "use" and rv["ops"][0]["k"] in ("copy", "move") and
                     any(o.kind == "agg" and str(o.name).endswith("::Some") for o in origins(body, rv["ops"][0]))):
                fields.add(fps[-1]["n"])
    edges = []
    if fields:
        from .props.common import field_option_edges
        for f in sorted(fields):
            edges += field_option_edges(body, f)[0]
    return edges


_ST_CACHE = {}


def _status_tested(body, l):
    key = (body.path, l)
    if key not in _ST_CACHE:
        from .rules import option_tests
        _ST_CACHE[key] = bool(option_tests(body, l)) or bool(result_tests(body, l)) or _option_used(body, l)
    return _ST_CACHE[key]


def is_drop_glue_switch(body, sw_bb, A):
    """A discriminant switch emitted by drop elaboration (open drop of an enum local): each successor starts a
    chain of blocks that contain only drop-flag assignments / discriminant reads and end in drop / return /
    a switch on a drop flag or another discriminant — no user statement or call before the first drop."""
    flags = body.flag_locals()

    def trivial(b):
        for st in body.blocks[b]["stmts"]:
            if st["k"] == "assign" and not st["pl"]["p"] and st["pl"]["l"] in flags:
                continue
            if st["k"] == "assign" and st["rv"]["k"] == "discr":
                continue
            return False
        return True

    def first_nontrivial(b, depth, out):
        """collect the first non-trivial blocks reached from b through trivial blocks"""
        if depth > 10:
            out.add(("deep", b))
            return
        if not trivial(b):
            out.add(("blk", b))
            return
        t = body.term(b)
        if t["k"] == "return":
            out.add(("ret", 0))
        elif t["k"] in ("drop", "goto"):
            first_nontrivial(t["target"], depth + 1, out)
        elif t["k"] == "switch":
            for x in body.succ(b):
                first_nontrivial(x, depth + 1, out)
        else:
            out.add(("blk", b))

    out = set()
    for s_ in body.succ(sw_bb):
        first_nontrivial(s_, 0, out)
    return len(out) <= 1


def _field_ty(pl):
    fs = [e for e in pl["p"] if isinstance(e, dict) and "f" in e]
    return fs[-1].get("t", "") if fs else ""


def _errorish(ty):
    return "Error" in ty or "Result<" in ty or "error" in ty


def _mentions_error_type(body, pl, rv):
    ty = _field_ty(pl) if any(isinstance(e, dict) and "f" in e for e in pl["p"]) else body.local_ty(pl["l"])
    return _errorish(ty)


def classify_site(P, body, cs, depth=0):
    """Returns (category, findings list)."""
    r = cs.dest["l"]
    if cs.dest["p"]:
        return "stored", []
    return classify_local(P, body, cs, r, depth)


def classify_local(P, body, cs, r, depth=0):
    findings = []
    cats = set()
    A = forward_aliases(body, r)
    # iterate: aliasing calls extend A
    for _ in range(4):
        grew = False
        for c in body.calls():
            if c.args and _uses_local_set(c.args[0], A) and c.name in ALIASING and not c.dest["p"] and c.dest["l"] not in A:
                A |= forward_aliases(body, c.dest["l"])
                grew = True
        if not grew:
            break
    # returned?
    if 0 in A:
        cats.add("propagated")
    for b in range(body.n):
        if body.is_cleanup(b):
            continue
        for st in body.blocks[b]["stmts"]:
            if st["k"] != "assign":
                continue
            rv = st["rv"]
            ops = rv.get("ops", [])
            for o in ops:
                if _uses_local_set(o, A) and not o["pl"]["p"]:
                    if rv["k"] == "aggregate":
                        cats.add("passed")      # moved into a tuple/struct/closure capture
                    elif rv["k"] == "use" and st["pl"]["p"]:
                        cats.add("passed")      # stored into a field
            if rv["k"] == "ref" and rv["pl"]["l"] in A and st["pl"]["p"]:
                cats.add("passed")
    for c in body.calls():
        if body.is_cleanup(c.bb):
            continue
        for i, a in enumerate(c.args):
            if not (_uses_local_set(a, A) and all(e == "*" for e in a["pl"]["p"])):
                continue
            nm = c.name
            if nm == TRY_BRANCH:
                cats.add("propagated")
            elif nm in ASSERTING:
                cats.add("asserted")
            elif nm in (IS_ERR, IS_OK):
                pass  # handled through tests
            elif nm in ALIASING:
                pass
            elif nm in DEFAULTING:
                findings.append(Finding(cs, "defaulted", "error discarded by %s at %s" % (nm.rsplit("::", 1)[1], c.where())))
                cats.add("flagged")
            elif nm in ERR_TO_OPTION:
                d = c.dest["l"]
                if _option_used(body, d):
                    cats.add("converted")
                else:
                    findings.append(Finding(cs, "err-discarded", ".err() result is never used (%s)" % c.where()))
                    cats.add("flagged")
            elif nm in CHAINING and depth < 3 and not c.dest["p"]:
                sub_cat, sub_f = classify_local(P, body, cs, c.dest["l"], depth + 1)
                cats.add(sub_cat if sub_cat != "flagged" else "flagged")
                findings += sub_f
            else:
                cats.add("passed")
    tests = result_tests(body, r)
    for a in A:
        if a != r:
            pass
    tested = False
    S = None
    tests = [t for t in tests if not (t.kind == "match" and is_drop_glue_switch(body, t.bb, A))]
    all_ok_edges = []
    for t in tests:
        all_ok_edges += t.ok_edges()
    seen_keys = set()
    for t in tests:
        tested = True
        if t.kind == "try":
            continue
        if S is None:
            S = satisfying_blocks(body)
            all_ok_edges = all_ok_edges + first_error_wins_edges(body)
        rets = body.return_blocks()
        for e in t.err:
            # the value cannot turn Ok later: Ok edges of other tests of the same local are infeasible
            bad = [rb for rb in rets if not body.must_pass_cp(rb, through_nodes=S, through_edges=all_ok_edges, start=e)]
            if bad:
                kind = "err-edge-returns-ok" if returns_result(body) else "err-edge-not-recorded"
                findings.append(Finding(cs, kind,
                                        "from the Err edge of the %s test at %s a return is reachable without returning Err, "
                                        "a recording sink or a status store" % (t.kind, body.where(t.bb)), err_line=body.term(t.bb).get("line")))
                cats.add("flagged")
    if tested:
        cats.add("tested")
    if not cats:
        findings.append(Finding(cs, "never-inspected", "the Result is dropped without being inspected"))
        return "flagged", findings
    if "flagged" in cats:
        return "flagged", findings
    for c in ("tested", "propagated", "converted", "asserted", "passed"):
        if c in cats:
            return c, findings
    return "passed", findings


def _option_used(body, d):
    A = forward_aliases(body, d)
    if 0 in A:
        return True
    for b in range(body.n):
        if body.is_cleanup(b):
            continue
        for st in body.blocks[b]["stmts"]:
            if st["k"] != "assign":
                continue
            rv = st["rv"]
            if rv["k"] == "discr" and rv["pl"]["l"] in A:
                return True
            for o in rv.get("ops", []):
                if _uses_local_set(o, A) and (st["pl"]["p"] or body.local_name(st["pl"]["l"]) is not None or rv["k"] == "aggregate"):
                    return True
        t = body.term(b)
        if t["k"] == "call":
            for a in t["args"]:
                if _uses_local_set(a, A):
                    return True
    return False


def result_sites(body):
    out = []
    for cs in body.calls():
        if body.is_cleanup(cs.bb):
            continue
        if cs.dest["p"]:
            continue
        if is_result_local(body, cs.dest["l"]) and cs.target is not None:
            out.append(cs)
    return out
