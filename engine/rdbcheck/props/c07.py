"""C07 — compaction and flushing are invisible to readers."""
from . import common as K


def run(P, R, L):
    R.clause("ACC-1", "every min/max accumulator over file bounds (get_key_range_for_files, get_key_range_for_multiple_levels, "
             "find_largest_key, the level-0 range expansion) grows in the direction of its role")
    K.acc1(P, R, L)
    R.clause("GRD-2", "retention / tombstone rule of the merge loop")
    K.grd2_retention(P, R, L)
    K.ord7_smallest_snapshot(P, R, L)
    R.clause("ROLE-1", "version edits produced by flush, compaction and trivial move carry smallest..largest in that order")
    K.role1(P, R, L)
    R.clause("GRD-10", "closed-interval bound comparisons (is_base_level_for_key, overlap tests, level-0 expansion)")
    K.grd10_closed_intervals(P, R, L)
    R.clause("PAIR-9", "compaction input sets are boundary-expanded (add_boundary_inputs) before their key range is computed")
    K.pair9_boundary_inputs(P, R, L)
    K.pair9_levels(P, R, L)
    K.grd13_find_file_compares_internal_keys(P, R, L)
    R.clause("GRD-13", "the level>=1 file search orders by the full internal key (output files may be cut inside the versions of one user key)")
    R.clause("GRD-14", "a manual compaction never drops some of the overlapping level-0 inputs")
    K.grd14_manual_inputs(P, R, L)
    R.clause("ROLE-3", "level roles of version edits: outputs at level+1, inputs of both levels deleted, trivial move level -> level+1")
    K.role3_levels(P, R, L)
    R.clause("PAIR-3", "bounds of every output file are captured from the entries added to it")
    K.pair3(P, R, L)
    K.err2_iterator_status(P, R, L)
    R.clause("ERR-2", "an unreadable compaction input is never treated as empty: the iterator status is consulted before installing")
    R.clause("ORD-3", "outputs are installed only without error; inputs are deleted only after installation")
    K.ord3_tables(P, R, L)
    K.ord3_flush(P, R, L)
    R.clause("GRD-17", "a flushed table is placed below level 0 only while nothing in level 0 or in the next level overlaps its range")
    K.grd17_memtable_output_level(P, R, L)
    R.clause("GRD-19", "a level-0 compaction (size- or seek-triggered) always takes every overlapping level-0 file along")
    K.grd19_level0_inputs_closed(P, R, L)
    from . import c08
    R.clause("ERR-1 (compaction inputs)", "an input table that cannot be opened fails the compaction: make_merging_iterator / compact_tables never go on without it (its entries would be dropped together with the file)")
    c08.err1_subset(P, R, L, ["compaction::manifest::CompactionManifest::make_merging_iterator", "compaction::worker::CompactionWorker::compact_tables",
                              "compaction::worker::CompactionWorker::coordinate_compaction"])
    R.clause("GRD-22", "a memtable flush whose base version cannot see the tables around it (inside a table compaction, during WAL replay) stays at level 0: placed deeper it would sit below older data of the same replay / compaction and an overwritten value resurfaces")
    R.once(K.grd22_flush_during_compaction, P, R, L)
    K.bundle_readpath(P, R, L)
    K.bundle_retention(P, R, L)
    K.bundle_liveness(P, R, L)
    R.not_decided += ["picking policy", "overlap computation for a concrete layout", "boundary-file expansion results",
                      "find_smallest_boundary_file's accumulator (Option<Arc<FileMetadata>> compared through a closure) is not resolved by ACC-1"]
