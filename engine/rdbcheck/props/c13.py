"""C13 — table files give back exactly what was put in: lookup-verdict clause only."""
from . import common as K


def run(P, R, L):
    R.clause("VERD-1", "in Table::get `Ok(None)` (deleted) is produced only on the edge where the found entry is a Delete, and any verdict "
             "only when the found user key equals the target user key; every other no-hit exit is Err(KeyNotFound) so callers keep searching")
    R.clause("GRD-7", "a filter miss returns Err(KeyNotFound) and never a verdict; `may match` always reads the block; the probe uses "
             "the handle's offset and the lookup key's user key")
    K.verd1(P, R, L, what=("table",))
    R.clause("PAIR-7", "two-level iteration skips empty blocks in the direction of travel (TwoLevelIterator / FilesEntryIterator)")
    K.pair7_direction(P, R, L, types={"tables::table::TwoLevelIterator", "versioning::file_iterators::FilesEntryIterator"})
    R.not_decided += ["prefix compression, separators, seek positions, iteration order (computed bytes)"]
