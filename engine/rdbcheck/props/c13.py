"""C13 — table files give back exactly what was put in: lookup-verdict clause only."""
from . import common as K


def run(P, R, L):
    R.clause("VERD-1", "in Table::get `Ok(None)` (deleted) is produced only on the edge where the found entry is a Delete, and any verdict "
             "only when the found user key equals the target user key; every other no-hit exit is Err(KeyNotFound) so callers keep searching")
    R.clause("GRD-7", "a filter miss returns Err(KeyNotFound) and never a verdict; `may match` always reads the block; the probe uses "
             "the handle's offset and the lookup key's user key")
    K.verd1(P, R, L, what=("table",))
    R.clause("PAIR-7", "two-level iteration skips empty blocks in the direction of travel (TwoLevelIterator / FilesEntryIterator)")
    K.pair7_direction(P, R, L, types={"tables::table::TwoLevelIterator", "versioning::file_iterators::FilesEntryIterator"})
    R.clause("KEY-1", "InternalKey order: user key ascending, then sequence number descending (newest first); the sequence only breaks ties")
    K.key1_internal_key_order(P, R, L)
    R.clause("PAIR-11", "after (re)loading a data block / table the child iterator is positioned explicitly (the loader may hand back the old cursor)")
    K.pair11_loaded_child_positioned(P, R, L)
    R.clause("PAIR-5", "the filter block is populated with exactly the keys of each data block and told the true start offset of the next one "
             "(a point lookup probes the filter slot of the block's offset: a mismatch is a false 'not in this file')")
    from .c14 import pair5
    pair5(P, R, L)
    R.clause("PAIR-13", "every data block written by the table builder gets an index entry carrying its handle; the footer points at (metaindex, index)")
    K.pair13_block_indexed(P, R, L)
    R.clause("PAIR-13 (keys)", "an index key is the InternalKey-level (guarded) separator / successor of the last key of its block, never a key assembled from the byte-level helper")
    K.pair13_index_key_provenance(P, R, L)
    R.clause("PAIR-12", "the two-level iterator's (data block iterator, loaded block handle) pair is always written together")
    K.pair12_file_level_pairs(P, R, L, only={"tables::table::TwoLevelIterator"})
    R.clause("OWN-10", "every open table has its own block-cache partition id and caches blocks under (id, block offset)")
    K.own10_cache_partitions(P, R, L)
    R.clause("OWN-11", "the table cache looks up, opens and caches a table under the one file number that was asked for")
    K.own11_table_cache_key(P, R, L)
    K.bundle_filter(P, R, L)
    K.agr2_codec_pairs(P, R, L, groups=("table",))
    R.clause("VERD-2", "KeyNotFound ('not in this file, keep searching older files') is never the answer to a failed open / read")
    K.verd2_not_found_only_for_a_miss(P, R, L)
    R.clause("ATOM-1", "read_from is a positional read that does not use the shared cursor of the file handle")
    K.atom1_positional_read_is_one_operation(P, R, L)
    R.clause("GRD-27", "an index separator is strictly below the first key of the next block")
    K.grd27_separator_strictly_below_next_key(P, R, L)
    R.clause("ORD-20", "a data block is finalized only after it was found non-empty")
    K.ord20_empty_block_tested_before_finalize(P, R, L)
    R.clause("GRD-18", "table and log files are written with write_all (the builders account offsets by the intended length); reads are exact or count-checked")
    K.grd18_short_reads(P, R, L)
    R.clause("SRC-3", "a level iterator opens the file the search over the whole file list finds for the seek target (first / last / neighbouring file for the other movements)")
    K.src3_level_iterator_file_selection(P, R, L)
    R.clause("WRAP-1", "a wrapper iterator repositions its child on every seek; a shortcut may trust the cached position only behind a test of its own validity")
    K.wrap1_delegation(P, R, L)
    from . import blind
    R.clause("BSRCH-1", "BlockIter::seek is a lower-bound binary search: a seek lands on the first entry not less than the target")
    R.once(blind.bsrch1_lower_bound_searches, P, R, L)
    R.clause("BLK-1", "the block iterator's cursor: one step behind is_valid(), parked at len when a step is refused, first = 0, last = len - 1")
    R.once(blind.blk1_block_cursor, P, R, L)
    from . import blind as _blind
    R.clause("ENUM-1", "the hand-written tag decoders (Operation, BlockType, compression type, manifest field tags) invert the enums' discriminants")
    R.once(_blind.enum1_tag_decoders, P, R, L)
    R.clause("BLKR-1", "the block reader parses entries while the cursor is below the end of the entry area (no minimum-size cut-off)")
    R.once(_blind.blkr1_reader_consumes_every_entry, P, R, L)
    R.clause("BLKW-1", "the entry header lengths of a block reach the buffer only as varint-encoder output")
    R.once(_blind.blkw1_entry_header_through_the_codec, P, R, L)
    R.clause("OWN-15", "`not in this file` is built only by Table::get")
    R.once(_blind.own15_who_may_say_not_found, P, R, L)
    R.clause("GRD-37", "a block handle (footer / index entry) is compared with the file length before a buffer of its size is allocated: a damaged handle is an error, not an allocator abort")
    R.once(_blind.grd37_block_handle_within_the_file, P, R, L)
    from . import round12
    R.clause("CACHE-2", "the LRU cache behind the table cache and the block cache is asked, filled and pruned with the caller's key; partition ids are fresh; a block-cache miss reads and caches the requested handle")
    R.once(round12.cache2_cache_identity, P, R, L)
    R.clause("BSRCH-2", "BlockIter::seek keeps the cursor (no store to current_index) only on the true edge of `current key == target`")
    R.once(round12.bsrch2_block_seek_shortcut, P, R, L)
    R.not_decided += ["prefix compression, separators, seek positions, iteration order (computed bytes)"]
