"""C04 — iterators under arbitrary cursor movement: direction-agreement and visibility-filter clauses only."""
from . import common as K


def run(P, R, L):
    R.clause("PAIR-7", "direction agreement (sibling rule over 20 positioning methods): seek / seek_to_first / next of TwoLevelIterator, "
             "FilesEntryIterator, MergingIterator and DatabaseIterator position through the forward helper (skip_empty_*_forward, "
             "find_smallest, find_next_client_entry), seek_to_last / prev through the backward helper, never the opposite one; a "
             "value is only returned after the helper ran; when a child iterator runs out the two-level iterators move on to the "
             "next block / file; seek* record the matching direction")
    K.pair7_direction(P, R, L)
    R.clause("PAIR-11", "the loader of a two-level iterator re-uses the child iterator (cursor included) when the block / file is unchanged, so "
             "after every successful init_data_block / set_table_iter the child is positioned explicitly in the method's direction")
    K.pair11_loaded_child_positioned(P, R, L)
    R.clause("KEY-1", "InternalKey order: user key ascending, then sequence number descending (newest first); the sequence only breaks ties")
    K.key1_internal_key_order(P, R, L)
    R.clause("PAIR-8", "a change of direction repositions the underlying iterator before the search for the next visible entry (DatabaseIterator), "
             "and the merging iterator steps its current child before choosing and re-seeks the others")
    K.pair8_reversal(P, R, L)
    R.clause("GRD-3", "the collapse to user-visible entries hides entries newer than the iterator's sequence on every yielding path")
    K.grd3_sequence_filter(P, R, L)
    R.clause("SRC-1", "the client iterator merges every source: mutable memtable, immutable memtable (when present), one iterator per level-0 file and per non-empty deeper level")
    K.src1_iterator_sources(P, R, L)
    R.clause("LCK-2", "new_iterator captures sequence, memtable, immutable memtable and version in one critical section (an iterator whose sequence "
             "covers entries that are in none of its children skips visible keys)")
    K.lck_capture(P, R, L, "LCK-2", [K.NEW_ITER], {K.NEW_ITER: ["sequence", "memtable", "imm", "version"]})
    R.clause("PAIR-12", "the two-level iterator's (data block iterator, handle of the loaded block) pair is always written together (a stale handle makes "
             "init_data_block skip loading the block)")
    K.pair12_file_level_pairs(P, R, L, only={"tables::table::TwoLevelIterator"})
    R.clause("SRC-3", "a level iterator opens the file the search over the whole file list finds for the seek target (first / last / neighbouring file for the other movements)")
    R.clause("WRAP-1", "a wrapper iterator (CachingIterator, FilesEntryIterator, TwoLevelIterator, DatabaseIterator) repositions its child on every seek and steps it on every next / prev; "
             "a shortcut may trust the cached position only behind a test of its own validity")
    K.bundle_readpath(P, R, L)
    K.bundle_retention(P, R, L)
    K.bundle_liveness(P, R, L)
    R.clause("ITR-1", "backward collapse of the client iterator: records newer than the snapshot change no state; every visible record rewrites the cache")
    K.itr1_backward_collapse(P, R, L)
    R.clause("ITR-2", "forward collapse of the client iterator: invisible records change no state; a visible Delete turns skipping on and remembers its key; shadowed Puts are skipped")
    K.itr2_forward_collapse(P, R, L)
    R.not_decided += ["which element a data-dependent loop stops on (the equivalence with a sorted-map cursor)",
                      "re-positioning of non-current children on direction change", "tombstone / shadowing logic beyond the sequence filter"]
    R.assumptions += ["the helpers named in the direction table do what their names say (their bodies are value-level)"]
