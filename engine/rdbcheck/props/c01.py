"""C01 — reads return the latest committed write, wherever the data lives."""
from . import common as K


def run(P, R, L):
    R.clause("VERD-1", "tombstone vs. miss: Ok(None) only under Operation::Delete in Table::get and every MemTable::get; verdicts only "
             "for the same user key; Err(KeyNotFound) from a table re-enters Version::get's file loop; a memtable miss continues to the next source")
    R.clause("ORD-1", "newest first: active memtable ≺ immutable memtable ≺ Version::get in DB::get's read path")
    K.verd1(P, R, L)
    R.clause("ROLE-1", "file metadata fidelity at every add_file site and in the FileMetadata codec")
    K.role1(P, R, L)
    R.clause("ACC-1", "range accumulators grow in the direction of their role (compaction inputs cover the whole key range)")
    K.acc1(P, R, L)
    R.clause("ROLE-4", "sequence and file-number counters survive reopen (a reused sequence number would shadow newer writes)")
    K.role4_counters(P, R, L)
    K.grd13_find_file_compares_internal_keys(P, R, L)
    R.clause("GRD-13", "the level>=1 file search orders by the full internal key")
    R.clause("ROLE-5", "level file lists are built ordered by smallest key with deleted files dropped (Version::get binary-searches levels >= 1)")
    K.role5_version_builder(P, R, L)
    R.clause("ORD-8c", "after a reopen the sequence counter continues above every replayed entry (otherwise later overwrites sort behind older entries)")
    K.ord8c_recovered_sequence(P, R, L)
    R.clause("GRD-11", "a re-used WAL is appended to at the block offset the reader will assume (otherwise committed writes are unreadable after the next reopen)")
    K.grd11_reopen_offset(P, R, L)
    R.clause("GRD-14", "a manual compaction never drops some of the overlapping level-0 inputs")
    K.grd14_manual_inputs(P, R, L)
    R.clause("ORD-3", "the flush installs the new version before the immutable memtable is dropped (a get in between must find the data in one of them)")
    K.ord3_flush(P, R, L)
    R.clause("KEY-1", "InternalKey order: user key ascending, then sequence number descending (newest first); the sequence only breaks ties")
    K.key1_internal_key_order(P, R, L)
    R.clause("GRD-10", "file key ranges are closed intervals: every user-key vs file-bound comparison in the crate puts the boundary key inside")
    K.grd10_closed_intervals(P, R, L)
    R.clause("GRD-3", "lookup key carries the sequence captured under the mutex")
    K.grd3_sequence_filter(P, R, L)
    K.lck_capture(P, R, L, "LCK-2", [K.GET], {K.GET: ["sequence", "memtable", "imm", "version"]})
    R.clause("LCK-2", "DB::get captures all four sources under the mutex")
    R.clause("SRC-2", "Version::get consults level-0 files newest first and every deeper level in ascending order")
    K.src2_lookup_candidates(P, R, L)
    R.clause("GRD-17", "a flushed table is placed below level 0 only while nothing in level 0 or in the next level overlaps its range")
    K.grd17_memtable_output_level(P, R, L)
    R.clause("OWN-11", "the table cache looks up, opens and caches a table under the one file number that was asked for")
    K.own11_table_cache_key(P, R, L)
    R.not_decided += ["that orderings / binary searches compute the right index for every key set", "sequence-number arithmetic across reopen",
                      "option changes between reopens"]
