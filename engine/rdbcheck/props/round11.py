"""Rules written in round 11 (second blind-spot review + the round-11 independent seeded changes).  Same conventions as
props/common.py: anchors are resolved definitions, keys carry no line numbers, floors are hand-counted on the reviewed tree."""
from ..rules import (bool_tests, comparisons, field_stores, field_reads, result_tests, option_tests, switch_target)
from ..dataflow import origins, roots
from .common import where

ITER_TRAIT = "iterator::RainDbIterator"


def all_closures(b):
    """closures defined in b, directly or nested"""
    out, todo = [], [b]
    while todo:
        x = todo.pop()
        for c in x.closures():
            out.append(c)
            todo.append(c)
    return out


def _last(name):
    return (name or "").rsplit("::", 1)[-1]


# ------------------------------------------------------------------------------------------- MEM-1 the memtable iterator's primitives
SKIPLIST = "nerdondon_hopscotch::concurrent_skiplist::"
SKIP_PRIMS = ("first_node", "last_node", "find_greater_or_equal_node", "find_less_than_node", "insert_with_size", "insert",
              "SkipNode::next")
MEM_ITER = "<memtable::SkipListMemTableIter as %s>::" % ITER_TRAIT
MEM_TABLE = "<memtable::SkipListMemTable as memtable::MemTable>::"
MEM_EXPECT = [
    # (function, skip-list primitives it positions with, what the key argument of the search must derive from)
    (MEM_ITER + "seek", {"find_greater_or_equal_node"}, "param2"),
    (MEM_ITER + "seek_to_first", {"first_node"}, None),
    (MEM_ITER + "seek_to_last", {"last_node"}, None),
    (MEM_ITER + "next", {"find_greater_or_equal_node", "SkipNode::next"}, "current"),
    (MEM_ITER + "prev", {"find_less_than_node"}, "current"),
    (MEM_TABLE + "insert", {"insert_with_size"}, "param2"),
]


def _skip_prim(c):
    nm = c.name or ""
    if not nm.startswith(SKIPLIST):
        return None
    if "SkipNode" in nm and _last(nm) == "next":
        return "SkipNode::next"
    if "ConcurrentSkipList" in nm and _last(nm) in SKIP_PRIMS:
        return _last(nm)
    return None


def mem1_memtable_iterator_primitives(P, R, L, rule="MEM-1"):
    """The memtable is a skip list without back links; its iterator re-finds its place by key.  Each positioning method must
    use exactly the skip-list primitive of its direction: seek -> first node >= target, seek_to_first / seek_to_last -> first /
    last node, next -> the node >= the current key and then its successor, prev -> the last node < the current key; insert hands
    the key and the value it was given to the list.  (A flush builds its table from this iterator: a wrong primitive loses or
    repeats entries on the way to disk as well as in scans.)"""
    n = 0
    for (path, expect, keysrc) in MEM_EXPECT:
        b = P.body(path)
        if b is None:
            R.missing_anchor(rule, path)
            continue
        R.analysed(b)
        n += 1
        bodies = [b] + all_closures(b)
        used, keyed = set(), []
        for x in bodies:
            for c in x.calls():
                if x.is_cleanup(c.bb):
                    continue
                p = _skip_prim(c)
                if p is None:
                    # a function item handed to an adapter (`.and_then(SkipNode::next)`)
                    for a in c.args:
                        fn = a.get("fn") if a.get("k") == "const" else None
                        if fn and fn.startswith(SKIPLIST) and "SkipNode" in fn and _last(fn.split("<")[0]) == "next":
                            used.add("SkipNode::next")
                    continue
                used.add(p)
                if p in ("find_greater_or_equal_node", "find_less_than_node", "insert_with_size", "insert") and len(c.args) >= 2:
                    keyed.append((x, c))
        R.check(rule, path + "|primitives", used == expect, where(b),
                "positions with exactly the skip-list primitive(s) %s" % sorted(expect), "uses %s" % sorted(used))
        if keysrc is None:
            continue
        ok, found = bool(keyed), "no keyed skip-list call"
        for (x, c) in keyed:
            os_ = origins(x, c.args[1])
            if keysrc == "param2":
                good = any(o.kind == "param" and o.name == 2 for o in os_)
                if good and _last(c.name) in ("insert_with_size", "insert"):
                    good = len(c.args) >= 3 and any(o.kind == "param" and o.name == 3 for o in origins(x, c.args[2]))
            else:
                # the current key: taken out of `self.current_entry` (directly, or as the argument of the closure handed to and_then / map)
                good = any("current_entry" in o.path or (o.kind == "param" and x.kind == "closure") or
                           (o.kind == "call" and _last(o.name) in ("take", "unwrap", "as_ref")) for o in os_)
                if good and x.kind != "closure":
                    good = any("current_entry" in o.path for o in os_) or \
                        any("current_entry" in o2.path for o in os_ if o.kind == "call" and o.site is not None
                            for a in o.site.args for o2 in origins(x, a))
            if not good:
                ok, found = False, "%s is keyed by %s (line %s)" % (_last(c.name), os_[:3], c.t.get("line"))
        R.check(rule, path + "|keyed-by-%s" % keysrc, ok, where(b),
                "the search key is %s" % ("the method's argument" if keysrc == "param2" else "the key of the current entry"),
                found if not ok else "ok")
    R.floor(rule, "memtable positioning methods checked", n, 6)
    # iter(): a fresh iterator shares the memtable's own list (Arc::clone of `store`), it does not copy or rebuild it
    b = P.body(MEM_TABLE + "iter")
    if b is None:
        R.missing_anchor(rule, MEM_TABLE + "iter")
        return
    R.analysed(b)
    shares = False
    for bb in range(b.n):
        for st in b.blocks[bb]["stmts"]:
            if st["k"] == "assign" and st["rv"]["k"] == "aggregate" and "SkipListMemTableIter" in (st["rv"].get("adt") or ""):
                fields = st["rv"].get("fields") or []
                if "store" in fields:
                    op = st["rv"]["ops"][fields.index("store")]
                    shares = any("store" in o.path and o.kind == "param" and o.name == 1 for o in origins(b, op)) or \
                        any(o.kind == "call" and _last(o.name) == "clone" and o.site is not None and
                            any("store" in o2.path for o2 in origins(b, o.site.args[0])) for o in origins(b, op))
    R.check(rule, MEM_TABLE + "iter|shares-the-list", shares, where(b), "the iterator's `store` is the memtable's own skip list (Arc::clone)",
            "ok" if shares else "the iterator is built over something else")


# ------------------------------------------------------------------------------------------- CACHE-1 the caching iterator's cache follows its child
CACHING = "iterator::CachingIterator"


def _child_call(b, c, method, child="iterator"):
    """c is `RainDbIterator::<method>` on the wrapped iterator field"""
    dn = c.declared_name or ""
    if not dn.startswith(ITER_TRAIT + "::") or _last(dn) != method or not c.args:
        return False
    return any(child in o.path for o in origins(b, c.args[0]))


def _via_adapters(b, op, depth=4):
    """origins of an operand, looking through Option adapters that keep the payload's identity up to a clone (`map`, `cloned`)"""
    out = []
    for o in origins(b, op):
        if depth > 0 and o.kind == "call" and _last(o.name) in ("map", "cloned", "copied") and o.site is not None and o.site.args:
            out += _via_adapters(b, o.site.args[0], depth - 1)
        else:
            out.append(o)
    return out


def _refresh_shape(b):
    """(blocks that store `is_valid` from the child's is_valid(), verdict text or None): b refreshes the cache when it stores the
    child's validity into `is_valid` and, on every path over the TRUE edge of that validity, the child's current() into `cached_entry`"""
    vs = [(bb, i, st) for (bb, i, st) in field_stores(b, "is_valid")
          if any(o.kind == "call" and _last(o.name) == "is_valid" and o.site is not None and _child_call(b, o.site, "is_valid")
                 for o in _via_adapters(b, st["rv"]["ops"][0]))]
    if not vs:
        return [], "no store of the child's is_valid() into `is_valid`"
    es = [(bb, i, st) for (bb, i, st) in field_stores(b, "cached_entry")
          if any(o.kind == "call" and _last(o.name) == "current" and o.site is not None and _child_call(b, o.site, "current")
                 for o in _via_adapters(b, st["rv"]["ops"][0]))]
    if not es:
        return [x[0] for x in vs], "no store of the child's current() into `cached_entry`"
    # from the validity store: a return without the entry store is acceptable only over the FALSE edge of a test of that validity
    false_edges = []
    for (bb, i, st) in vs:
        srcs = set()
        op = st["rv"]["ops"][0]
        if op["k"] in ("copy", "move"):
            srcs.add(op["pl"]["l"])
        for l in list(srcs):
            for t in bool_tests(b, l):
                false_edges += [(t.bb, x) for x in t.err]
    for bb2 in field_reads(b, "is_valid"):
        for st in b.blocks[bb2]["stmts"]:
            if st["k"] == "assign" and not st["pl"]["p"] and b.local_ty(st["pl"]["l"]) == "bool" and st["rv"]["k"] == "use" and \
                    st["rv"]["ops"][0]["k"] in ("copy", "move") and any(isinstance(e, dict) and e.get("n") == "is_valid" for e in st["rv"]["ops"][0]["pl"]["p"]):
                for t in bool_tests(b, st["pl"]["l"]):
                    false_edges += [(t.bb, x) for x in t.err]
    for (bb, i, st) in vs:
        r = b.reachable(bb, removed_nodes=[x[0] for x in es if x[0] != bb], removed_edges=false_edges)
        if bb in [x[0] for x in es]:
            continue
        leak = [x for x in b.return_blocks() if x in r]
        if leak:
            return [x[0] for x in vs], "a valid child's entry is not cached on a path to the return (block %s)" % leak[0]
    return [x[0] for x in vs], None


def cache1_caching_iterator_refresh(P, R, L, rule="CACHE-1"):
    """CachingIterator answers is_valid() / current() from its cache (the merging iterator compares children through it without
    touching the tables).  After EVERY repositioning of the child the cache is refreshed: `is_valid` from the child's is_valid(),
    and for a valid child `cached_entry` from the child's current() — on every path from the child's seek* / next / prev to a
    (successful) return."""
    refreshers = {}
    for p, b in P.bodies.items():
        if b.kind == "closure" or CACHING not in p:
            continue
        blocks, why = _refresh_shape(b)
        if blocks and why is None:
            refreshers[p] = blocks
    helper = "%s::update_cached_values" % CACHING
    hb = P.body(helper)
    if hb is not None:
        R.analysed(hb)
        blocks, why = _refresh_shape(hb)
        R.check(rule, helper + "|refreshes-validity-and-entry", why is None, where(hb),
                "stores the child's is_valid() and, when it is valid, the child's current()", why or "ok")
    n = 0
    for meth in ("seek", "seek_to_first", "seek_to_last", "next", "prev"):
        path = "<%s as %s>::%s" % (CACHING, ITER_TRAIT, meth)
        b = P.body(path)
        if b is None:
            R.missing_anchor(rule, path)
            continue
        R.analysed(b)
        n += 1
        deleg = [c for c in b.calls() if not b.is_cleanup(c.bb) and _child_call(b, c, meth)]
        refresh = list(refreshers.get(path, []))
        for c in b.calls():
            if not b.is_cleanup(c.bb) and (c.t.get("resolved") or "") in refreshers and c.args and \
                    any(o.kind == "param" and o.name == 1 for o in origins(b, c.args[0])):
                refresh.append(c.bb)
        ok, found = bool(deleg), "no delegated %s on the child" % meth
        for c in deleg:
            if c.target is None:
                continue
            removed = []
            if meth.startswith("seek"):
                # the Err edge of the child's result may return without a refresh (the error is what is returned)
                for t in result_tests(b, c.dest["l"]):
                    removed += [(t.bb, x) for x in t.err]
            r = b.reachable(c.target, removed_nodes=refresh, removed_edges=removed)
            leak = [x for x in b.return_blocks() if x in r]
            if leak:
                ok, found = False, "a return (block %s, line %s) is reachable from the child's %s without refreshing the cache" % (
                    leak[0], b.term(leak[0]).get("line"), meth)
        R.check(rule, path + "|cache-refreshed-after-the-child-moved", ok, where(b),
                "every path from the child's %s to a%s return refreshes is_valid / cached_entry" % (meth, " successful" if meth.startswith("seek") else ""),
                found if not ok else "ok")
    R.floor(rule, "caching iterator positioning methods checked", n, 5)
    # is_valid() answers from the cached flag, current() from the cached entry
    for (meth, field) in (("is_valid", "is_valid"), ("current", "cached_entry")):
        path = "<%s as %s>::%s" % (CACHING, ITER_TRAIT, meth)
        b = P.body(path)
        if b is None:
            R.missing_anchor(rule, path)
            continue
        R.analysed(b)
        os_ = origins(b, {"l": 0, "p": []})
        ok = any(field in o.path for o in os_) or any(
            o.kind == "call" and o.site is not None and any(field in o2.path for a in o.site.args for o2 in origins(b, a)) for o in os_)
        R.check(rule, path + "|answers-from-the-cache", ok, where(b), "%s() is answered from the field `%s`" % (meth, field),
                "ok" if ok else "derives from %s" % os_[:3])


# ------------------------------------------------------------------------------------------- FS-4 the end of a file is reported the way std::io::Read documents
def error_kinds_constructed(b):
    """(variant, line) of every io::ErrorKind value BUILT in b (aggregates and constants; patterns are switches, not aggregates)"""
    out = []
    for bb in range(b.n):
        if b.is_cleanup(bb):
            continue
        for st in b.blocks[bb]["stmts"]:
            if st["k"] == "assign" and st["rv"]["k"] == "aggregate" and (st["rv"].get("adt") or "").endswith("io::ErrorKind"):
                out.append((st["rv"].get("variant"), st.get("line")))
        t = b.term(bb)
        if t["k"] == "call":
            for a in t["args"]:
                if a.get("k") == "const" and "ErrorKind::" in (a.get("text") or ""):
                    out.append(((a.get("text") or "").rsplit("ErrorKind::", 1)[1].split()[0].strip("(){},"), t.get("line")))
    return out


def fs4_end_of_file_contract(P, R, L, rule="FS-4"):
    """The log reader tells a cut-off log from a failing disk by ONE thing: a short count from `read`, or
    `ErrorKind::UnexpectedEof` from `read_exact` (std's documented contract; read_record turns exactly that kind into a clean end
    of the log, every other kind fails the open).  Every `std::io::Read` implementation of the crate's file types therefore
    builds no other error kind in `read` / `read_exact` - an override that reports the end of the file as InvalidInput makes a
    log torn inside a block trailer unreadable."""
    n = 0
    for p, b in sorted(P.bodies.items()):
        if b.kind == "closure" or " as std::io::Read>::" not in p:
            continue
        meth = _last(p)
        if meth not in ("read", "read_exact"):
            continue
        R.analysed(b)
        n += 1
        kinds = []
        seen, todo = set(), [b]
        while todo:
            x = todo.pop()
            if x.path in seen:
                continue
            seen.add(x.path)
            kinds += error_kinds_constructed(x)
            for c in x.calls():
                h = P.bodies.get(c.t.get("resolved") or "")
                if h is not None and not x.is_cleanup(c.bb) and not c.t.get("dyn") and len(seen) < 6 and h.path.startswith("fs::"):
                    todo.append(h)
        bad = [(k, ln) for (k, ln) in kinds if k != "UnexpectedEof"]
        R.check(rule, p + "|end-of-file-is-unexpected-eof", not bad, where(b),
                "%s builds no io::ErrorKind other than UnexpectedEof (a short count / UnexpectedEof is how the end of the file is told)" % meth,
                "builds %s" % bad if bad else "ok (%d error kinds built)" % len(kinds))
    R.floor(rule, "std::io::Read::read / read_exact implementations of the crate's file types", n, 1)
