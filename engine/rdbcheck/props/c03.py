"""C03 — a snapshot or iterator sees exactly the state at its creation."""
from . import common as K


def run(P, R, L):
    R.clause("GRD-2", "compaction retention: an entry is dropped only when a newer entry at or below the smallest snapshot shadows it, "
             "or when it is a tombstone at or below the smallest snapshot at the base level for its key; the per-key bookkeeping is "
             "reset on key change and updated after each decision")
    K.grd2_retention(P, R, L)
    R.clause("ORD-7", "the smallest snapshot handed to the compaction is SnapshotList::oldest when snapshots are live and the last "
             "published sequence otherwise, computed under the mutex")
    K.ord7_smallest_snapshot(P, R, L)
    R.clause("LCK-1", "get_snapshot / get / new_iterator capture the visible sequence and pin the version under the mutex, in one region")
    K.lck_capture(P, R, L, "LCK-1", [K.GET, K.NEW_ITER, K.GET_SNAPSHOT], {
        K.GET: ["sequence", "version", "imm", "memtable"], K.NEW_ITER: ["sequence", "version", "imm", "memtable"], K.GET_SNAPSHOT: ["sequence"]})
    R.clause("ORD-8", "the visible sequence is published only after the whole group is in the memtable (a snapshot taken mid-write must not "
             "see the bound move under it)")
    K.ord8_publication(P, R, L)
    R.clause("GRD-3", "the client iterator and the point lookup bound visibility by the captured sequence")
    K.grd3_sequence_filter(P, R, L)
    R.clause("GRD-13", "the level>=1 file search orders by the full internal key, so a snapshot read finds the file holding its version")
    K.grd13_find_file_compares_internal_keys(P, R, L)
    R.clause("PAIR-9", "boundary expansion keeps all versions of a user key of one level together in a compaction")
    K.pair9_boundary_inputs(P, R, L)
    K.pair9_levels(P, R, L)
    R.clause("VERD-1", "a snapshot read continues past a file that holds only newer versions of the key (miss ≠ deleted)")
    K.verd1(P, R, L, what=("table", "version"))
    R.clause("PAIR-1", "version pins held for reads are released (files of a pinned version stay live meanwhile: GRD-5)")
    from .c11 import pair1, grd5
    pair1(P, R, L)
    grd5(P, R, L)
    R.clause("KEY-1", "InternalKey order: user key ascending, then sequence number descending (newest first); the sequence only breaks ties")
    K.key1_internal_key_order(P, R, L)
    R.clause("ORD-3", "a flush installs the new version before the immutable memtable is dropped (a snapshot read or a new iterator in between must find the data in one of them)")
    K.ord3_flush(P, R, L)
    R.clause("PAIR-5", "older versions of a key that a snapshot needs are registered with the table's filter like any other entry (Table::get consults the filter)")
    from .c14 import pair5
    pair5(P, R, L)
    R.clause("SRC-1", "the client iterator merges every source: mutable memtable, immutable memtable (when present), one iterator per level-0 file and per non-empty deeper level")
    K.src1_iterator_sources(P, R, L)
    R.clause("SRC-2", "Version::get consults level-0 files newest first and every deeper level in ascending order")
    K.src2_lookup_candidates(P, R, L)
    K.bundle_readpath(P, R, L)
    K.bundle_retention(P, R, L)
    K.bundle_liveness(P, R, L)
    R.clause("ITR-1", "backward collapse of the client iterator: records newer than the snapshot change no state; every visible record rewrites the cache")
    K.itr1_backward_collapse(P, R, L)
    R.clause("ITR-2", "forward collapse of the client iterator: invisible records change no state; a visible Delete turns skipping on and remembers its key; shadowed Puts are skipped")
    K.itr2_forward_collapse(P, R, L)
    R.not_decided += ["that get and iteration agree for every history", "that the kept entries are the right ones for every snapshot set "
                      "(the guard shape is necessary, not sufficient)"]
