"""C14 — filters never hide a key that is present: population pairing and fail-open clauses."""
from ..rules import ok_guarded, sites_reaching, result_tests, bool_tests, return_value_consts, comparisons, origin_pred_call, origin_pred_field
from ..dataflow import origins, roots
from . import common as K
from ..rules import in_cycle as in_cycle_

ADD_ENTRY = "tables::table_builder::TableBuilder::add_entry"
BLOCK_ADD = "tables::block_builder::BlockBuilder::add_entry"
ADD_KEY = "tables::filter_block_builder::FilterBlockBuilder::add_key"
NOTIFY = "tables::filter_block_builder::FilterBlockBuilder::notify_new_data_block"
FB_FINALIZE = "tables::filter_block_builder::FilterBlockBuilder::finalize"
FLUSH = "tables::table_builder::TableBuilder::flush_data_block"
WRITE_BLOCK = "tables::table_builder::TableBuilder::write_block"
KMM = "tables::filter_block::FilterBlockReader::key_may_match"


def pair5(P, R, L):
    R.clause("PAIR-5", "TableBuilder::add_entry: every path that adds the entry to the data block also registers the same key's user key "
             "with the filter builder; flush_data_block: write_block ≺ok notify_new_data_block(current_offset); finalize: the last "
             "flush_data_block ≺ FilterBlockBuilder::finalize")
    b = P.body(ADD_ENTRY)
    if b is None:
        R.missing_anchor("PAIR-5", ADD_ENTRY)
    else:
        R.analysed(b)
        da = [c for c in K.normal_sites(b, BLOCK_ADD) if any("data_block_builder" in o.path for o in origins(b, c.args[0]))]
        fk = K.normal_sites(b, ADD_KEY)
        ok = bool(da) and bool(fk)
        det = []
        if ok:
            for d in da:
                before = b.must_pass(d.bb, through_nodes=[f.bb for f in fk])
                after = all(b.must_pass(r, through_nodes=[f.bb for f in fk], start=d.target) for r in K._ok_blocks(b))
                if not (before or after):
                    ok = False
                    det.append("a path adds the entry to the data block and returns Ok without add_key")
            for f in fk:
                os_ = origins(b, f.args[1])
                uk = any(o.kind == "call" and o.name == K.GET_USER_KEY for o in os_)
                # the user key is taken from the key parameter (param 2: self=1, key=2)
                from_key = False
                for o in os_:
                    if o.kind == "call" and o.name == K.GET_USER_KEY and o.site is not None:
                        if any(x.kind == "param" and x.name == 2 for x in origins(b, o.site.args[0])):
                            from_key = True
                if not (uk and from_key):
                    ok = False
                    det.append("add_key's argument is not get_user_key() of the key being added")
            for d in da:
                if not any(x.kind == "param" and x.name == 2 for x in origins(b, d.args[1])):
                    ok = False
                    det.append("the data block receives a different key than the parameter")
        R.check("PAIR-5", ADD_ENTRY + "|filter-registration", ok, K.where(b),
                "data block entry and filter key are added together, from the same key", "; ".join(det) or "data sites %d filter sites %d" % (len(da), len(fk)))
    f = P.body(FLUSH)
    if f is None:
        R.missing_anchor("PAIR-5", FLUSH)
    else:
        R.analysed(f)
        wb = sites_reaching(P, f, WRITE_BLOCK)
        nt = K.normal_sites(f, NOTIFY)
        ok = bool(wb) and bool(nt)
        det = []
        for n in nt:
            oks = [ok_guarded(f, n.bb, w) for w in wb]
            if not any(o[0] for o in oks):
                ok = False
                det.append("; ".join(o[1] for o in oks))
            if not any("current_offset" in o.path for o in origins(f, n.args[1])):
                ok = False
                det.append("notify_new_data_block is not given current_offset")
        # every Ok(Some(handle)) return passed the notification
        somes = [bb for bb in K._ok_blocks(f) for st in f.blocks[bb]["stmts"]
                 if st["k"] == "assign" and st["pl"]["l"] == 0 and any(o.kind == "agg" and o.name.endswith("Option::Some") for o in origins(f, st["rv"]["ops"][0]))]
        if not somes or not all(f.must_pass(x, through_nodes=[n.bb for n in nt]) for x in somes):
            ok = False
            det.append("a block is reported written without notifying the filter builder")
        R.check("PAIR-5", FLUSH + "|notify-after-write", ok, K.where(f),
                "after a data block was written the filter builder is told the new offset", "; ".join(det))
    t = P.body("tables::table_builder::TableBuilder::finalize")
    if t is None:
        R.missing_anchor("PAIR-5", "TableBuilder::finalize")
    else:
        R.analysed(t)
        fl = sites_reaching(P, t, FLUSH)
        ff = K.normal_sites(t, FB_FINALIZE)
        ok = bool(fl) and bool(ff) and all(any(ok_guarded(t, x.bb, y)[0] for y in fl) for x in ff)
        R.check("PAIR-5", t.path + "|flush-before-filter-finalize", ok, K.where(t),
                "the filter block is finalized only after the last data block was flushed successfully", "flush sites %d finalize sites %d" % (len(fl), len(ff)))
        # the filter block is written and its handle registered in the metaindex
        emit = K.normal_sites(t, "tables::table_builder::TableBuilder::emit_block_to_disk")
        ok = bool(emit) and any(any(o.kind == "call" and o.name == FB_FINALIZE for o in origins(t, e.args[1])) for e in emit if len(e.args) > 1)
        R.check("PAIR-5", t.path + "|filter-block-written", ok, K.where(t), "the finalized filter block is what gets written to the file", "")


def grd8(P, R, L):
    R.clause("GRD-8", "FilterBlockReader::key_may_match returns false only from the policy's Ok(false) or the empty-filter test; every error / "
             "out-of-range edge returns true; the range-size exponent stored in the block is the one the builder divides by")
    b = P.body(KMM)
    if b is None:
        return R.missing_anchor("GRD-8", KMM)
    R.analysed(b)
    falses = [(bb, st["line"]) for bb in range(b.n) if not b.is_cleanup(bb) for st in b.blocks[bb]["stmts"]
              if st["k"] == "assign" and st["pl"]["l"] == 0 and not st["pl"]["p"] and st["rv"]["k"] == "use"
              and st["rv"]["ops"][0]["k"] == "const" and st["rv"]["ops"][0].get("val") == "0"]
    emp_edges = []
    for c in b.calls():
        if b.is_cleanup(c.bb):
            continue
        if (c.name or "").endswith("::is_empty") and ("Vec" in c.name or "slice" in c.name):
            # which is_empty: the one on an element of `filters` (indexed), not on the whole list
            idx = any(o.kind == "call" and "index" in (o.name or "") for o in origins(b, c.args[0]))
            if idx:
                for t in bool_tests(b, c.dest["l"]):
                    emp_edges += t.ok_edges()
    for (bb, line) in falses:
        ok = bool(emp_edges) and b.must_pass(bb, through_edges=emp_edges)
        R.check("GRD-8", KMM + "|false-only-for-empty-filter", ok, "%s:%s" % (b.file, line),
                "a constant `false` is returned only when the selected filter is empty (no key of that range was added)", "empty-edges %s" % emp_edges)
    # `no` comes from the policy alone: a filter consulted for a real block always had keys (PAIR-5), so a zero-length filter there
    # is the policy's own output (the trait sets no minimum length) and the policy has to be asked about it.  On today's tree
    # the LevelDB shortcut `empty filter => no match` answers instead: known finding D26 (the pinned suite asserts the shortcut).
    R.check("GRD-8", KMM + "|no-comes-from-the-policy-alone", not falses, K.where(b),
            "key_may_match returns false only as the policy's Ok(false), never as a constant", "constant `false` returns at line(s) %s" % [ln for (_, ln) in falses])
    # policy error edge and out-of-range edge return true
    pol = [c for c in b.calls() if (c.declared_name or "") == "filter_policy::FilterPolicy::key_may_match" and not b.is_cleanup(c.bb)]
    ok = bool(pol)
    det = []
    for c in pol:
        tests = result_tests(b, c.dest["l"])
        for t in tests:
            for e in t.err:
                vals = return_value_consts(b, e)
                if vals != {"1"}:
                    ok = False
                    det.append("policy error edge may return %s" % sorted(vals))
        if not tests:
            # the Result is consumed by an adapter: only `unwrap_or(true)` / `unwrap_or_else(|_| true)` fail open
            handled = False
            for u in b.calls():
                if b.is_cleanup(u.bb) or not u.args or not any(o.kind == "call" and o.site is not None and o.site.bb == c.bb for o in origins(b, u.args[0])):
                    continue
                nm = u.name or ""
                if nm.endswith("Result::unwrap_or") and len(u.args) > 1 and u.args[1]["k"] == "const" and u.args[1].get("val") == "1":
                    handled = True
                elif nm.endswith("Result::unwrap_or_else") and len(u.args) > 1:
                    for cp in b.closure_of_operand(u.args[1]):
                        cb = P.bodies.get(cp)
                        if cb is not None:
                            R.analysed(cb)
                            rets = {st["rv"]["ops"][0].get("val") if (st["rv"]["k"] == "use" and st["rv"]["ops"][0]["k"] == "const") else "?"
                                    for bb_ in range(cb.n) if not cb.is_cleanup(bb_) for st in cb.blocks[bb_]["stmts"]
                                    if st["k"] == "assign" and st["pl"]["l"] == 0 and not st["pl"]["p"]}
                            handled = rets == {"1"}
                            if not handled:
                                det.append("the fallback closure of unwrap_or_else returns %s" % sorted(rets))
                elif "unwrap_or_default" in nm or nm.endswith("Result::ok") or nm.endswith("Result::is_ok"):
                    det.append("policy error is turned into `false` by %s" % nm.rsplit("::", 1)[1])
            if not handled:
                ok = False
                det.append("the policy's Result is neither tested nor given a `true` fallback")
    R.check("GRD-8", KMM + "|policy-error-fails-open", ok, K.where(b), "an error from the filter policy makes key_may_match return true", "; ".join(det))
    ln = lambda os_: any(o.kind == "call" and (o.name or "").endswith("::len") for o in os_)
    oor = []
    for c in comparisons(b):
        if ln(c.rhs_origins()) and not ln(c.lhs_origins()):
            oor += K._edges_rel(c, "ge", True)
        elif ln(c.lhs_origins()) and not ln(c.rhs_origins()):
            oor += K._edges_rel(c, "ge", False)
    ok = bool(oor)
    for (sb, tg) in oor:
        if return_value_consts(b, tg) != {"1"}:
            ok = False
    R.check("GRD-8", KMM + "|out-of-range-fails-open", ok, K.where(b), "an out-of-range filter index makes key_may_match return true", "edges %s" % oor)
    # no filters at all -> true
    # the value returned otherwise is the policy's verdict
    # constant agreement
    nb = P.body(NOTIFY)
    fb = P.body(FB_FINALIZE)
    if nb is None or fb is None:
        return R.missing_anchor("GRD-8", "FilterBlockBuilder::notify_new_data_block / finalize")
    R.analysed(nb, fb)
    div = None
    for bb in nb.blocks:
        for st in bb["stmts"]:
            if st["k"] == "assign" and st["rv"]["k"] == "binop" and st["rv"]["op"] in ("Div", "Shr"):
                cv = [o.name for o in origins(nb, st["rv"]["ops"][1]) if o.kind == "const" and str(o.name).isdigit()]
                if len(cv) == 1:
                    div = (st["rv"]["op"], int(cv[0]))
    exp = None
    for c in fb.calls():
        if c.name == "std::vec::Vec::push" and not fb.is_cleanup(c.bb) and c.args[1]["k"] == "const" and c.args[1].get("val") is not None:
            exp = int(c.args[1]["val"])
    ok = div is not None and exp is not None and ((div[0] == "Div" and div[1] == (1 << exp)) or (div[0] == "Shr" and div[1] == exp))
    R.check("GRD-8", "filter-range-constant-agreement", ok, K.where(nb),
            "the builder assigns blocks to filters by offset / 2^k and stores the same k in the block", "builder uses %s, stored exponent %s" % (div, exp))
    # the block offset is never narrowed on its way to the filter index (files may exceed 4 GiB: max_file_size is a u64)
    narrow = []
    for fnb in (b, nb):
        for bb in range(fnb.n):
            if fnb.is_cleanup(bb):
                continue
            for st in fnb.blocks[bb]["stmts"]:
                if st["k"] == "assign" and st["rv"]["k"] == "cast" and st["rv"].get("ck") == "IntToInt" and st["rv"].get("ty") in ("u32", "u16", "u8", "i32", "i16", "i8"):
                    if any(o.kind == "param" and not o.path and fnb.local_name(o.name) and "offset" in fnb.local_name(o.name) for o in origins(fnb, st["rv"]["ops"][0])):
                        narrow.append("%s line %s: offset cast to %s" % (fnb.path.rsplit("::", 1)[1], st.get("line"), st["rv"]["ty"]))
    R.check("GRD-8", "filter-index|offset-not-narrowed", not narrow, K.where(b),
            "the data block's file offset reaches the filter-index computation at full width on the writer and the reader side", "; ".join(narrow))
    # reader uses the stored exponent
    shl = any(st["k"] == "assign" and st["rv"]["k"] == "binop" and st["rv"]["op"] in ("Shl", "Shr") for bb in b.blocks for st in bb["stmts"])
    uses = bool(K.field_reads(b, "encoded_range_size_exponent"))
    R.check("GRD-8", KMM + "|uses-stored-exponent", shl and uses, K.where(b), "the reader derives the range size from the exponent stored in the block", "")


GEN_FILTER = "tables::filter_block_builder::FilterBlockBuilder::generate_filter"
CREATE = "filter_policy::FilterPolicy::create_filter"
BLOOM_CREATE = "<filter_policy::BloomFilterPolicy as filter_policy::FilterPolicy>::create_filter"
BLOOM_MATCH = "<filter_policy::BloomFilterPolicy as filter_policy::FilterPolicy>::key_may_match"
BLOOM_HASH = "filter_policy::BloomFilterPolicy::hash"


def pair5b(P, R, L):
    R.clause("PAIR-5b", "FilterBlockBuilder: add_key records every key unconditionally; generate_filter hands all pending keys to the policy, "
             "keeps the produced filter, and clears the pending keys only afterwards; finalize flushes pending keys before serialising")
    a = P.body(ADD_KEY)
    if a is None:
        R.missing_anchor("PAIR-5b", ADD_KEY)
    else:
        R.analysed(a)
        pushes = [c for c in a.calls() if not a.is_cleanup(c.bb) and c.name in ("std::vec::Vec::push", "std::vec::Vec::insert", "std::collections::VecDeque::push_back")
                  and any("keys" in o.path for o in origins(a, c.args[0])) and any(o.kind == "param" and o.name == 2 for o in origins(a, c.args[-1]))]
        ok = bool(pushes) and all(a.must_pass(r, through_nodes=[c.bb for c in pushes]) for r in a.return_blocks())
        R.check("PAIR-5b", ADD_KEY + "|records-every-key", ok, K.where(a), "every path through add_key appends the given key to the pending keys (no key is filtered out: the empty key is legal)",
                "push sites %d" % len(pushes))
    g = P.body(GEN_FILTER)
    if g is None:
        R.missing_anchor("PAIR-5b", GEN_FILTER)
    else:
        R.analysed(g)
        cr = [c for c in g.calls() if not g.is_cleanup(c.bb) and (c.declared_name == CREATE or c.name == CREATE)]
        clr = [c for c in g.calls() if not g.is_cleanup(c.bb) and c.name in ("std::vec::Vec::clear", "std::vec::Vec::truncate", "std::vec::Vec::drain", "std::mem::take")
               and any("keys" in o.path for o in origins(g, c.args[0]))]
        psh = [c for c in g.calls() if not g.is_cleanup(c.bb) and c.name == "std::vec::Vec::push" and any("filters" in o.path for o in origins(g, c.args[0]))]
        det = []
        ok = bool(cr) and bool(clr) and bool(psh)
        for c in cr:
            if not any("keys" in o.path for o in origins(g, c.args[1])):
                ok = False
                det.append("create_filter is not given the pending keys")
            if not any(x.kind == "call" and x.site is not None and x.site.bb == c.bb for p_ in psh for x in origins(g, p_.args[1])):
                ok = False
                det.append("the created filter is not the one pushed")
        for c in clr:
            if not g.must_pass(c.bb, through_nodes=[x.bb for x in cr]):
                ok = False
                det.append("pending keys can be cleared before a filter was created from them")
        if psh and not all(g.must_pass(r, through_nodes=[x.bb for x in psh]) for r in g.return_blocks()):
            ok = False
            det.append("a path through generate_filter adds no filter (the filter index would fall behind the block offsets)")
        R.check("PAIR-5b", GEN_FILTER + "|keys-to-filter", ok, K.where(g), "pending keys -> create_filter -> filters.push -> keys.clear", "; ".join(det))
    fz = P.body(FB_FINALIZE)
    if fz is not None:
        R.analysed(fz)
        gs = [c for c in fz.calls() if not fz.is_cleanup(c.bb) and c.name == GEN_FILTER]
        # the only way around generate_filter is the `keys.is_empty()` edge
        emp = []
        for c in fz.calls():
            if not fz.is_cleanup(c.bb) and (c.name or "").endswith("::is_empty") and any("keys" in o.path for o in origins(fz, c.args[0])):
                for t in bool_tests(fz, c.dest["l"]):
                    emp += [(t.bb, x) for x in t.ok]
        reads = [c for c in fz.calls() if not fz.is_cleanup(c.bb) and any("filters" in o.path for a_ in c.args[:1] for o in origins(fz, a_))]
        ok = bool(gs) and bool(reads) and all(fz.must_pass(c.bb, through_nodes=[x.bb for x in gs], through_edges=emp) for c in reads)
        R.check("PAIR-5b", FB_FINALIZE + "|pending-keys-flushed-first", ok, K.where(fz),
                "the filters are serialised only after the pending keys went into a last filter (or there are none)", "generate sites %d" % len(gs))


def agr1(P, R, L):
    R.clause("AGR-1", "BloomFilterPolicy: create_filter and key_may_match derive the probe positions from the same hash with the same "
             "operations and constants (rotation, modulo the bit length), and the reader probes as often as the filter's own header says")
    w, r = P.body(BLOOM_CREATE), P.body(BLOOM_MATCH)
    if w is None or r is None:
        return R.missing_anchor("AGR-1", BLOOM_CREATE if w is None else BLOOM_MATCH)
    R.analysed(w, r)

    def sig(b):
        hs = [c for c in b.calls() if c.name == BLOOM_HASH and not b.is_cleanup(c.bb)]
        hl = {c.dest["l"] for c in hs}
        out = set()
        for bb in range(b.n):
            if b.is_cleanup(bb):
                continue
            for st in b.blocks[bb]["stmts"]:
                if st["k"] == "assign" and st["rv"]["k"] == "binop":
                    ops = st["rv"]["ops"]
                    dep = [op["k"] in ("copy", "move") and bool(roots(b, op) & hl) for op in ops]
                    if any(dep):
                        out.add((st["rv"]["op"].replace("WithOverflow", "").replace("Unchecked", ""),
                                 tuple("h" if d else (op.get("val") if op["k"] == "const" else "v") for op, d in zip(ops, dep))))
            t = b.term(bb)
            if t["k"] == "call" and t["args"]:
                from ..cfg import strip_generics
                nm = strip_generics(t.get("resolved") or t.get("callee") or "")
                if "wrapping_" in nm or "rotate_" in nm:
                    dep = [op["k"] in ("copy", "move") and bool(roots(b, op) & hl) for op in t["args"]]
                    if any(dep):
                        out.add((nm.rsplit("::", 1)[1], tuple("h" if d else (op.get("val") if op["k"] == "const" else "v") for op, d in zip(t["args"], dep))))
        # normalise rotations: (h >> a) | (h << 32-a)  ==  rotate_right(a)  ==  rotate_left(32-a)
        shr = [x for x in out if x[0] == "Shr" and x[1][0] == "h" and (x[1][1] or "").isdigit()]
        shl = [x for x in out if x[0] == "Shl" and x[1][0] == "h" and (x[1][1] or "").isdigit()]
        for a_ in shr:
            for b_ in shl:
                if int(a_[1][1]) + int(b_[1][1]) == 32:
                    out -= {a_, b_}
                    out.add(("rot", int(a_[1][1])))
        for x in list(out):
            if x[0] == "rotate_right" and (x[1][1] or "").isdigit():
                out.discard(x)
                out.add(("rot", int(x[1][1])))
            if x[0] == "rotate_left" and (x[1][1] or "").isdigit():
                out.discard(x)
                out.add(("rot", 32 - int(x[1][1])))
        return hs, out
    hw, sw = sig(w)
    hr, sr = sig(r)
    R.check("AGR-1", "bloom|probe-sequence-agreement", bool(hw) and bool(hr) and bool(sw) and sw == sr, K.where(r),
            "writer and reader apply the same operations with the same constants to the key's hash",
            "writer-only %s reader-only %s common %d" % (sorted(sw - sr), sorted(sr - sw), len(sw & sr)))
    # hash input: the key itself on both sides
    whole = lambda o: o.kind == "param" or (o.kind == "call" and (o.name or "").endswith("::next"))     # `for key in keys`
    kin = all(origins(b, c.args[0]) and all(whole(o) for o in origins(b, c.args[0])) for b, hs in ((w, hw), (r, hr)) for c in hs)
    R.check("AGR-1", "bloom|hash-of-the-whole-key", kin, K.where(r), "both sides hash the key they were given (no slicing / transformation on one side only)", "")
    # the modulus is 8 * byte length of the bit vector on both sides
    # reader: probe count comes from the filter (param 3), not from the configured policy
    rng = []
    for bb in range(r.n):
        if r.is_cleanup(bb):
            continue
        for st in r.blocks[bb]["stmts"]:
            if st["k"] == "assign" and st["rv"]["k"] == "aggregate" and "Range" in (st["rv"].get("adt") or ""):
                rng.append(origins(r, st["rv"]["ops"][1]))
    of_filter = lambda o: (o.kind == "call" and "split_first" in (o.name or "")) or (o.kind == "param" and o.name == 3)
    from_filter = bool(rng) and all(os_ and all(of_filter(o) for o in os_) for os_ in rng)
    if not rng:
        # a countdown / while loop instead of a range: the loop is controlled by comparisons inside a cycle
        ctl = []
        for c_ in comparisons(r):
            if in_cycle_(r, c_.bb):
                for os_ in (c_.lhs_origins(), c_.rhs_origins()):
                    nc = [o for o in os_ if o.kind not in ("const", "binop", "unop")]
                    if nc:
                        ctl.append(nc)
                    for o in os_:
                        if o.kind == "binop" and o.extra:
                            for x in o.extra[1]["rv"]["ops"]:
                                nc2 = [y for y in origins(r, x) if y.kind not in ("const", "binop", "unop")]
                                if nc2:
                                    ctl.append(nc2)
        uses_cfg = any(any(o.kind == "param" and o.name == 1 and "num_hash_functions" in o.path for o in os_) for os_ in ctl)
        from_filter = not uses_cfg and any(all(of_filter(o) for o in os_) for os_ in ctl)
        rng = ctl
    R.check("AGR-1", BLOOM_MATCH + "|probe-count-from-the-filter", from_filter, K.where(r),
            "the number of probes is the one stored in the filter's first byte (a filter written under a different bits_per_key is still read correctly)",
            "loop bounds: %s" % [[(o.kind, o.name, o.path) for o in os_] for os_ in rng])
    # the reader refuses only filters that are too short to carry a header: any other Err would have to fail open upstream
    errs = [bb for bb in range(r.n) if not r.is_cleanup(bb) for st in r.blocks[bb]["stmts"]
            if st["k"] == "assign" and st["pl"]["l"] == 0 and st["rv"]["k"] == "aggregate" and st["rv"].get("variant") == "Err"]
    short = []
    for c in comparisons(r):
        ln_ = lambda os_: any(o.kind == "call" and (o.name or "").endswith("::len") for o in os_)
        cst = lambda os_: any(o.kind == "const" for o in os_)
        short += c.edges_where("lt", ln_, cst)
    R.check("AGR-1", BLOOM_MATCH + "|errors-only-for-truncated-filters", all(short and r.must_pass(bb, through_edges=short) for bb in errs), K.where(r),
            "key_may_match returns Err only for a filter shorter than its header (a probe-count mismatch is not an error: the stored count is used)",
            "Err returns %d, too-short edges %d" % (len(errs), len(short)))
    # writer: stores its own probe count as the first byte
    stored = False
    for bb in range(w.n):
        for st in w.blocks[bb]["stmts"]:
            if st["k"] == "assign" and st["rv"]["k"] == "cast" and any("num_hash_functions" in o.path for o in origins(w, st["rv"]["ops"][0])):
                stored = True
    R.check("AGR-1", BLOOM_CREATE + "|stores-probe-count", stored, K.where(w), "the filter header byte is the writer's num_hash_functions", "")
    # ... and it is exactly the number of probes the writer set per key (the reader will test that many)
    wr = []
    for bb in range(w.n):
        if w.is_cleanup(bb):
            continue
        for st in w.blocks[bb]["stmts"]:
            if st["k"] == "assign" and st["rv"]["k"] == "aggregate" and "Range" in (st["rv"].get("adt") or ""):
                os_ = origins(w, st["rv"]["ops"][1])
                if any("num_hash_functions" in o.path for o in os_) or any(o.kind == "call" for o in os_):
                    wr.append(sorted((o.kind, str(o.name), tuple(o.path)) for o in os_))
    hdr = []
    for bb in range(w.n):
        for st in w.blocks[bb]["stmts"]:
            if st["k"] == "assign" and st["rv"]["k"] == "cast" and any("num_hash_functions" in o.path for o in origins(w, st["rv"]["ops"][0])):
                hdr.append(sorted((o.kind, str(o.name), tuple(o.path)) for o in origins(w, st["rv"]["ops"][0])))
    probe_loops = [x for x in wr if any("num_hash_functions" in p_ for (_, _, p_) in x) or any(k == "call" and ("min" in n or "max" in n) for (k, n, _) in x)]
    R.check("AGR-1", BLOOM_CREATE + "|header-equals-probes-set", bool(probe_loops) and bool(hdr) and all(x in hdr for x in probe_loops), K.where(w),
            "the probe loop of create_filter runs exactly as many times as the header byte says", "loop bounds %s, header %s" % (probe_loops, hdr))


def grd15(P, R, L):
    R.clause("GRD-15", "Table::read_filter_meta_block hands a filter block to the configured policy only when the metaindex entry the seek "
             "landed on is the entry of that policy (`filter.<name>` equal to the requested key); any other entry means 'no filter'")
    fn = "tables::table::Table::read_filter_meta_block"
    b = P.body(fn)
    if b is None:
        return R.missing_anchor("GRD-15", fn)
    R.analysed(b)
    mk = [c for c in b.calls() if not b.is_cleanup(c.bb) and c.name == "tables::filter_block::FilterBlockReader::new"]
    is_cur = lambda os_: any(o.kind == "call" and (o.name or "").endswith("::current") for o in os_)
    is_req = lambda os_: any(o.kind == "call" and o.name in ("tables::block::MetaIndexKey::new", "filter_policy::get_filter_block_name") for o in os_)
    eq = []
    for c in comparisons(b):
        eq += c.edges_where("eq", is_cur, is_req, exact=True)
    ok = bool(mk) and bool(eq) and all(b.must_pass(c.bb, through_edges=eq) for c in mk)
    R.check("GRD-15", fn + "|filter-block-belongs-to-the-policy", ok, K.where(b),
            "FilterBlockReader::new is reached only over the edge `found metaindex key == requested filter.<policy name>`",
            "reader construction sites %d, key-equality edges %d" % (len(mk), len(eq)))


def run(P, R, L):
    grd15(P, R, L)
    pair5(P, R, L)
    pair5b(P, R, L)
    agr1(P, R, L)
    grd8(P, R, L)
    R.clause("GRD-7", "the probe in Table::get uses the block handle's offset and the lookup key's user key; a miss is Err(KeyNotFound)")
    K.grd7(P, R, L)
    from . import blind
    R.clause("AGR-5", "builder and reader choose the filter by `offset / range size` with the offset exactly as it was handed in (no one-sided adjustment)")
    blind.agr5_filter_index_from_the_plain_offset(P, R, L)
    from . import round12
    R.clause("GRD-15 (name)", "the filter block is filed under `filter.<name of the policy>`: get_filter_block_name's result derives from FilterPolicy::get_name of its argument")
    round12.grd15b_filter_block_name_carries_the_policy(P, R, L)
    R.clause("ORD-14 / OWN-5", "the filter a lookup trusts is made of verified bytes: read_block_from_disk compares the checksum before it returns any block (also a raw-stored one), and the filter reader is fed only by it")
    R.once(K.ord14, P, R, L)
    R.once(K.own5, P, R, L)
    R.not_decided += ["the Bloom arithmetic beyond writer/reader agreement (that the shared probe sequence stays inside the bit vector)", "filter-index arithmetic for a concrete offset"]
