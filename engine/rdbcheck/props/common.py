"""Rule implementations shared by several properties."""
from ..lck import (is_db_lock, is_unlocked_fair, is_release_point, is_wait, UNLOCKED_FAIR)
from ..rules import (result_tests, bool_tests, option_tests, ok_guarded, sites_reaching, field_stores, field_reads,
                     comparisons, origin_pred_call, origin_pred_field, in_cycle, switch_target, stored_variants)
from ..dataflow import origins
from ..cfg import strip_generics

GET = "db::DB::get"
NEW_ITER = "db::DB::new_iterator"
GET_SNAPSHOT = "db::DB::get_snapshot"
APPLY = "db::DB::apply_changes"
MAKE_ROOM = "db::DB::make_room_for_write"
MEMTABLE = "db::DB::memtable"
LOAD_FULL = "arc_swap::ArcSwapAny::load_full"
CUR_VERSION = "versioning::version_set::VersionSet::get_current_version"
PREV_SEQ = "versioning::version_set::VersionSet::get_prev_sequence_number"
SET_PREV_SEQ = "versioning::version_set::VersionSet::set_prev_sequence_number"
APPLY_BATCH = "db::DB::apply_batch_to_memtable"
LOG_APPEND = "logs::LogWriter::append"
WAL = "db::DB::wal"
MEM_INSERT = "memtable::MemTable::insert"
NEW_SNAPSHOT = "snapshots::SnapshotList::new_snapshot"
LOG_AND_APPLY = "versioning::version_set::VersionSet::log_and_apply"
REMOVE_OBSOLETE = "db::DB::remove_obsolete_files"
CONVERT = "db::DB::convert_memtable_to_file"
COMPACT_MEMTABLE = "compaction::worker::CompactionWorker::compact_memtable"
COORD = "compaction::worker::CompactionWorker::coordinate_compaction"
COMPACT_TABLES = "compaction::worker::CompactionWorker::compact_tables"
INSTALL = "compaction::worker::CompactionWorker::install_compaction_results"
CLEANUP = "compaction::worker::CompactionWorker::cleanup_compaction"
SET_BAD = "db::DB::set_bad_database_state"


def where(b):
    return "%s:%d" % (b.file, b.line_lo)


def normal_sites(body, pred):
    return [c for c in body.calls_to(pred) if not body.is_cleanup(c.bb)]


def unlocked_closures(P, L, body):
    """(site, closure body) for closures handed to unlocked_fair in this body."""
    out = []
    for cs in body.calls():
        if is_unlocked_fair(cs) and not body.is_cleanup(cs.bb):
            for c in cs.closure_args():
                if c in P.bodies:
                    out.append((cs, P.bodies[c]))
    return out


# ------------------------------------------------------------------------------------------- LCK-1 / LCK-2
SOURCES = {
    "sequence": [PREV_SEQ],
    "memtable": [MEMTABLE, LOAD_FULL],
    "version": [CUR_VERSION],
}


def lck_capture(P, R, L, rule, entries, need):
    """In each reader entry point, the snapshot sources are read while the DB mutex is held, in one held
    region with no release point between them, and no closure handed to unlocked_fair reaches a source."""
    for ep in entries:
        b = P.body(ep)
        if b is None:
            R.missing_anchor(rule, ep)
            continue
        R.analysed(b)
        found = {}
        for kind, names in SOURCES.items():
            for cs in b.calls():
                if b.is_cleanup(cs.bb):
                    continue
                if cs.name in names:
                    found.setdefault(kind, []).append(cs)
        imm_blocks = sorted(field_reads(b, "maybe_immutable_memtable"))
        # (a) sources read at held sites
        for kind in need.get(ep, []):
            if kind == "imm":
                ok = bool(imm_blocks) and all(L.held_map(b)[bb][1] for bb in imm_blocks)
                R.check(rule, "%s|source=imm|held" % ep, ok, where(b),
                        "maybe_immutable_memtable is read while the DB mutex is held",
                        "read in blocks %s; must-held=%s" % (imm_blocks, [L.held_map(b)[bb][1] for bb in imm_blocks]))
                continue
            sites = found.get(kind, [])
            R.call_sites += len(sites)
            if not sites:
                # the source must not be read somewhere else instead (e.g. inside the unlocked closure)
                R.check(rule, "%s|source=%s|held" % (ep, kind), False, where(b),
                        "%s is captured in %s while the DB mutex is held" % (kind, ep),
                        "no call to %s in the body of %s itself (captured elsewhere, e.g. after the mutex was released?)" % (SOURCES[kind], ep))
                continue
            st = [L.site_state(cs) for cs in sites]
            R.check(rule, "%s|source=%s|held" % (ep, kind), all(s == "held" for s in st), sites[0].where(),
                    "%s is captured while the DB mutex is held" % kind, "sites %s states %s" % ([c.line for c in sites], st))
        # (b) unlocked closures reach no source
        for (ucs, cb) in unlocked_closures(P, L, b):
            R.analysed(cb)
            bad = []
            kinds = [k for k in need.get(ep, []) if k != "imm"]
            for kind in kinds:
                names = SOURCES[kind]
                for cs in P.ext_calls_reachable(cb.path, names):
                    bad.append("%s via %s (%s)" % (kind, cs.body.path, cs.where()))
            R.check(rule, "%s|unlocked-closure-reads-no-source" % ep, not bad, ucs.where(),
                    "code run by %s after releasing the mutex does not read the sequence, the active memtable pointer or the current version" % ep,
                    "; ".join(bad) or "closure %s reaches none of the accessors of %s" % (cb.path, kinds))
        # (c) one region: no release point between any two source sites
        all_sites = [cs for k in need.get(ep, []) if k != "imm" for cs in found.get(k, [])]
        src_blocks = [cs.bb for cs in all_sites] + (imm_blocks if "imm" in need.get(ep, []) else [])
        rel = [cs for cs in b.calls() if is_release_point(cs) and not b.is_cleanup(cs.bb)]
        split = []
        for r in rel:
            before = [s for s in src_blocks if r.bb in b.reachable(s) and s != r.bb]
            after = [s for s in src_blocks if s in b.reachable(r.target) ] if r.target is not None else []
            if before and after:
                split.append("%s at line %s splits sources %s | %s" % (r.name, r.line, before, after))
        R.check(rule, "%s|single-region" % ep, not split, where(b),
                "all sources are captured in one held region (no unlocked_fair / wait between them)", "; ".join(split) or "no release point between source reads")


def ord8_publication(P, R, L, rule="ORD-8"):
    b = P.body(APPLY)
    if b is None:
        return R.missing_anchor(rule, APPLY)
    R.analysed(b)
    pubs = normal_sites(b, SET_PREV_SEQ)
    ucs = [(cs, cb) for (cs, cb) in unlocked_closures(P, L, b) if P.fn_reaches(cb.path, [APPLY_BATCH, MEM_INSERT])]
    if not pubs or not ucs:
        return R.check(rule, APPLY + "|anchors", False, where(b), "apply_changes publishes the sequence and has an unlocked WAL+memtable section",
                       "set_prev_sequence_number sites=%d, unlocked sections reaching the memtable=%d" % (len(pubs), len(ucs)))
    for s in pubs:
        ok = b.must_pass(s.bb, through_edges=[(u.bb, u.target) for (u, _) in ucs])
        R.check(rule, APPLY + "|publish-after-apply", ok, s.where(),
                "set_prev_sequence_number is dominated by the unlocked section that writes the WAL and the memtable",
                "publication at line %s; sections at %s" % (s.line, [u.line for (u, _) in ucs]))
        R.check(rule, APPLY + "|publish-held", L.site_state(s) == "held", s.where(),
                "the sequence number is published while the DB mutex is held", "state=%s" % L.site_state(s))
    for (u, cb) in ucs:
        R.analysed(cb)
        bad = P.ext_calls_reachable(cb.path, SET_PREV_SEQ)
        R.check(rule, APPLY + "|no-publish-inside-unlocked", not bad, u.where(),
                "the unlocked section does not publish the sequence itself", "%s" % [c.where() for c in bad])
    R.call_sites += len(pubs) + len(ucs)


def own_single_writer(P, R, L, rule_seq="OWN-2", rule_mem="OWN-3"):
    # OWN-2: who publishes
    allowed_pub = {APPLY, "db::DB::recover_unrecorded_logs"}
    sites = [c for c in P.callers_of(SET_PREV_SEQ) if not c.body.is_cleanup(c.bb)]
    R.floor(rule_seq, "set_prev_sequence_number call sites", len(sites), 2)
    for c in sites:
        R.analysed(c.body)
        ok = c.body.path in allowed_pub and L.site_state(c) == "held"
        R.check(rule_seq, "%s|publishes-sequence" % c.body.path, ok, c.where(),
                "set_prev_sequence_number is called only by apply_changes and recovery, with the DB mutex held",
                "caller %s state %s" % (c.body.path, L.site_state(c)))
    # field written directly only inside VersionSet
    for p, bd in sorted(P.bodies.items()):
        for (bb, i, st) in field_stores(bd, "prev_sequence_number", adt="versioning::version_set::VersionSet"):
            ok = p.startswith("versioning::version_set::VersionSet::")
            R.check(rule_seq, "%s|writes-prev_sequence_number" % p, ok, "%s:%s" % (bd.file, st["line"]),
                    "the field is written only by VersionSet methods", p)
    # OWN-3: who inserts into a memtable
    ins = [c for c in P.callers_of(lambda c: c.declared_name == MEM_INSERT or c.name == MEM_INSERT) if not c.body.is_cleanup(c.bb)]
    R.floor(rule_mem, "MemTable::insert call sites", len(ins), 1)
    for c in ins:
        ok = c.body.path == APPLY_BATCH
        R.check(rule_mem, "%s|inserts-into-memtable" % c.body.path, ok, c.where(),
                "MemTable::insert is called only by apply_batch_to_memtable", c.body.path)
    callers = [c for c in P.callers_of(APPLY_BATCH) if not c.body.is_cleanup(c.bb)]
    R.floor(rule_mem, "apply_batch_to_memtable call sites", len(callers), 2)
    for c in callers:
        bp = c.body.path
        if bp == "db::DB::recover_wal_records":
            ok = True
            why = "recovery (during open, before the DB handle exists)"
        elif c.body.kind == "closure" and c.body.parent == APPLY and L.closure_context(c.body)[0] == "unlocked":
            ok = True
            why = "the leader's unlocked section of apply_changes"
        else:
            ok = False
            why = "unexpected caller"
        R.check(rule_mem, "%s|calls-apply_batch_to_memtable" % bp, ok, c.where(),
                "memtable writes happen only in apply_changes' unlocked leader section and in recovery", why)
    wal = [c for c in P.callers_of(WAL) if not c.body.is_cleanup(c.bb)]
    for c in wal:
        ok = c.body.kind == "closure" and c.body.parent == APPLY
        R.check(rule_mem, "%s|uses-wal-writer" % c.body.path, ok, c.where(),
                "the WAL writer (UnsafeCell, single-writer assumption) is used only by apply_changes' leader section", c.body.path)
    R.call_sites += len(sites) + len(ins) + len(callers) + len(wal)


def ord9_rotation(P, R, L, rule="ORD-9"):
    b = P.body(MAKE_ROOM)
    if b is None:
        return R.missing_anchor(rule, MAKE_ROOM)
    R.analysed(b)
    swaps = normal_sites(b, "arc_swap::ArcSwapAny::swap")
    stores = field_stores(b, "maybe_immutable_memtable")
    if not swaps or not stores:
        return R.check(rule, MAKE_ROOM + "|anchors", False, where(b), "memtable_ptr.swap and the store to maybe_immutable_memtable exist",
                       "swaps=%d stores=%d" % (len(swaps), len(stores)))
    rel = [c for c in b.calls() if is_release_point(c) and not b.is_cleanup(c.bb)]
    sblocks = [s[0] for s in stores]
    for w in swaps:
        # every path from the swap to a release point or to return passes the store
        targets = [r.bb for r in rel] + b.return_blocks()
        bad = [t for t in targets if not b.must_pass(t, through_nodes=sblocks, start=w.target)]
        R.check(rule, MAKE_ROOM + "|swap-then-store-before-release", not bad, w.where(),
                "after memtable_ptr.swap the old memtable is stored into maybe_immutable_memtable before the mutex can be released",
                "release/return blocks reachable without the store: %s" % [b.where(t) for t in bad])
        R.check(rule, MAKE_ROOM + "|swap-held", L.site_state(w) == "held", w.where(), "rotation happens with the DB mutex held", L.site_state(w))
    # the stored value is the one returned by swap
    for (bb, i, st) in stores:
        src = st["rv"]
        os_ = []
        if src["k"] == "use":
            os_ = origins(b, src["ops"][0])
        elif src["k"] == "aggregate" and src["ops"]:
            os_ = origins(b, src["ops"][0])
        ok = any(o.kind == "call" and o.name == "arc_swap::ArcSwapAny::swap" for o in os_)
        R.check(rule, MAKE_ROOM + "|imm-is-swapped-out-memtable", ok, "%s:%s" % (b.file, st["line"]),
                "maybe_immutable_memtable receives the memtable that memtable_ptr.swap returned", "origins %s" % sorted({repr(o) for o in os_})[:5])
    # WAL switch precedes the swap (new writes go to the new WAL, old WAL covers exactly the immutable memtable)
    sw = sites_reaching(P, b, "db::DB::set_wal")
    for w in swaps:
        ok = bool(sw) and b.must_pass(w.bb, through_nodes=[s.bb for s in sw])
        R.check(rule, MAKE_ROOM + "|set_wal-before-swap", ok, w.where(), "set_wal (new WAL installed) dominates the memtable swap", "set_wal sites %s" % [s.line for s in sw])


def ord2_write_ahead(P, R, L, rule="ORD-2"):
    b = P.body(APPLY)
    if b is None:
        return R.missing_anchor(rule, APPLY)
    found = False
    for (u, cb) in unlocked_closures(P, L, b):
        if not P.fn_reaches(cb.path, [APPLY_BATCH, MEM_INSERT]):
            continue
        found = True
        R.analysed(cb)
        apps = [c for c in sites_reaching(P, cb, LOG_APPEND)]
        mems = [c for c in sites_reaching(P, cb, [APPLY_BATCH, MEM_INSERT])]
        if not apps:
            R.check(rule, APPLY + "|wal-append-before-memtable", False, u.where(),
                    "the section that applies the batch to the memtable appends it to the WAL first", "no LogWriter::append in the section")
            continue
        for m in mems:
            if m in apps:
                continue
            oks = [ok_guarded(cb, m.bb, a) for a in apps]
            ok = any(o[0] for o in oks)
            R.check(rule, APPLY + "|wal-append-before-memtable", ok, m.where(),
                    "apply_batch_to_memtable is reachable only over the success edge of LogWriter::append",
                    "; ".join(o[1] for o in oks))
        R.call_sites += len(apps) + len(mems)
        # the batch appended is the batch applied
    if not found:
        R.check(rule, APPLY + "|anchors", False, where(b), "apply_changes has an unlocked section that applies the batch", "none found")
    # leader's result derives from the section result (the Err of the append reaches set_bad_database_state)
    for (u, cb) in unlocked_closures(P, L, b):
        if not P.fn_reaches(cb.path, [LOG_APPEND]):
            continue
        tests = result_tests(b, u.dest["l"]) if not u.dest["p"] else []
        bad_sites = [c.bb for c in sites_reaching(P, b, SET_BAD)]
        ok = False
        for t in tests:
            for e in t.err:
                # all paths from the err edge pass set_bad_database_state before returning
                if all(b.must_pass(r, through_nodes=bad_sites, start=e) for r in b.return_blocks()):
                    ok = True
        R.check(rule, APPLY + "|wal-error-is-sticky", ok, u.where(),
                "a failed WAL append / memtable section records the sticky bad-database state", "tests=%s" % tests)


# ------------------------------------------------------------------------------------------- ORD-3
def _imm_clear_blocks(b):
    blocks = []
    for c in normal_sites(b, "std::option::Option::take"):
        if any("maybe_immutable_memtable" in o.path for o in origins(b, c.args[0])):
            blocks.append((c.bb, c.where()))
    for (bb, i, st) in field_stores(b, "maybe_immutable_memtable"):
        rv = st["rv"]
        if "None" in stored_variants(b, st):
            blocks.append((bb, "%s:%s" % (b.file, st["line"])))
    return blocks


def ord3_flush(P, R, L, rule="ORD-3"):
    b = P.body(COMPACT_MEMTABLE)
    if b is None:
        return R.missing_anchor(rule, COMPACT_MEMTABLE)
    R.analysed(b)
    conv = sites_reaching(P, b, CONVERT)
    la = sites_reaching(P, b, LOG_AND_APPLY)
    rof = sites_reaching(P, b, REMOVE_OBSOLETE)
    clears = _imm_clear_blocks(b)
    if not (conv and la and rof and clears):
        return R.check(rule, COMPACT_MEMTABLE + "|anchors", False, where(b),
                       "convert_memtable_to_file, log_and_apply, maybe_immutable_memtable.take() and remove_obsolete_files are all present",
                       "conv=%d log_and_apply=%d remove_obsolete=%d imm-clear=%d" % (len(conv), len(la), len(rof), len(clears)))
    R.call_sites += len(conv) + len(la) + len(rof) + len(clears)
    for a in la:
        oks = [ok_guarded(b, a.bb, c) for c in conv]
        R.check(rule, COMPACT_MEMTABLE + "|table-built-before-manifest", any(o[0] for o in oks), a.where(),
                "log_and_apply is reachable only over the success edge of convert_memtable_to_file", "; ".join(o[1] for o in oks))
    for (cb, w) in clears:
        oks = [ok_guarded(b, cb, a) for a in la]
        R.check(rule, COMPACT_MEMTABLE + "|manifest-before-dropping-imm", any(o[0] for o in oks), w,
                "the immutable memtable is dropped only over the success edge of log_and_apply", "; ".join(o[1] for o in oks))
    for r in rof:
        oks = [ok_guarded(b, r.bb, a) for a in la]
        R.check(rule, COMPACT_MEMTABLE + "|manifest-before-deleting-files", any(o[0] for o in oks), r.where(),
                "remove_obsolete_files (which deletes the old WAL) runs only over the success edge of log_and_apply", "; ".join(o[1] for o in oks))
    # the recorded WAL number is the current one and prev is cleared -> checked as stores before log_and_apply
    st_wal = field_stores(b, "wal_file_number")
    ok = bool(st_wal) and all(b.must_pass(a.bb, through_nodes=[s[0] for s in st_wal]) for a in la)
    R.check(rule, COMPACT_MEMTABLE + "|wal-number-recorded", ok, where(b),
            "the change manifest's wal_file_number is set before log_and_apply", "stores=%d" % len(st_wal))


def ord3_tables(P, R, L, rule="ORD-3"):
    b = P.body(COMPACT_TABLES)
    if b is None:
        return R.missing_anchor(rule, COMPACT_TABLES)
    R.analysed(b)
    inst = sites_reaching(P, b, INSTALL)
    if not inst:
        return R.check(rule, COMPACT_TABLES + "|anchors", False, where(b), "install_compaction_results is called", "not found")
    # the install is reached only over the None edge of a test of an error-status Option that collects `.err()` values
    for i in inst:
        none_edges = []
        for bb in range(b.n):
            t = b.term(bb)
            if t["k"] != "call" or strip_generics(t.get("resolved") or t.get("callee")) not in ("std::option::Option::is_none", "std::option::Option::is_some"):
                continue
            os_ = origins(b, t["args"][0])
            if not any(o.kind == "call" and o.name in ("std::result::Result::err",) or o.kind == "call" and "get_error" in (o.name or "") for o in os_):
                continue
            from ..rules import bool_tests as bt
            nm = strip_generics(t.get("resolved") or t.get("callee"))
            for tt in bt(b, t["dest"]["l"]):
                none_edges += (tt.ok_edges() if nm.endswith("is_none") else tt.err_edges())
        ok = bool(none_edges) and b.must_pass(i.bb, through_edges=none_edges)
        R.check(rule, COMPACT_TABLES + "|install-only-without-error", ok, i.where(),
                "install_compaction_results is reachable only when the compaction error status is None", "None-edges %s" % none_edges)
    ib = P.body(INSTALL)
    if ib is None:
        R.missing_anchor(rule, INSTALL)
    else:
        R.analysed(ib)
        fin = sites_reaching(P, ib, "compaction::state::CompactionState::finalize_version_manifest")
        la = sites_reaching(P, ib, LOG_AND_APPLY)
        ok = bool(fin) and bool(la) and all(ib.must_pass(a.bb, through_nodes=[f.bb for f in fin]) for a in la)
        R.check(rule, INSTALL + "|finalize-before-apply", ok, where(ib), "finalize_version_manifest dominates log_and_apply", "")
    cb = P.body(COORD)
    if cb is None:
        return R.missing_anchor(rule, COORD)
    R.analysed(cb)
    ct = sites_reaching(P, cb, COMPACT_TABLES)
    cl = [c for c in sites_reaching(P, cb, CLEANUP)]
    rof = [c for c in sites_reaching(P, cb, REMOVE_OBSOLETE) if c not in sites_reaching(P, cb, COMPACT_MEMTABLE)]
    for r in rof:
        oks = [ok_guarded(cb, r.bb, c) for c in ct]
        R.check(rule, COORD + "|delete-after-install", any(o[0] for o in oks) and cb.must_pass(r.bb, through_nodes=[c.bb for c in cl]), r.where(),
                "remove_obsolete_files after a table compaction runs only over compact_tables' Ok edge and after cleanup_compaction",
                "; ".join(o[1] for o in oks))


# ------------------------------------------------------------------------------------------- PAIR-2
def pair2_group_result(P, R, L, rule="PAIR-2"):
    b = P.body(APPLY)
    if b is None:
        return R.missing_anchor(rule, APPLY)
    R.analysed(b)
    RESULT_SRC = {MAKE_ROOM, UNLOCKED_FAIR}
    setres = normal_sites(b, "writers::Writer::set_operation_result")
    notif = normal_sites(b, "writers::Writer::notify_writer")
    pops = normal_sites(b, "std::collections::VecDeque::pop_front")
    if not (setres and notif and pops):
        return R.check(rule, APPLY + "|anchors", False, where(b), "set_operation_result, notify_writer and pop_front present",
                       "set=%d notify=%d pop=%d" % (len(setres), len(notif), len(pops)))
    for s in setres:
        os_ = origins(b, s.args[1])
        ok = any(o.kind == "call" and o.name in RESULT_SRC for o in os_)
        R.check(rule, APPLY + "|follower-gets-group-result", ok, s.where(),
                "the value handed to set_operation_result derives from the group's write result (make_room_for_write / WAL+memtable section)",
                "origins %s" % sorted({repr(o) for o in os_})[:6])
    # result is set before the follower is notified (inside the loop)
    loop_notifs = [n for n in notif if in_cycle(b, n.bb)]
    for n in loop_notifs:
        ok = b.must_pass(n.bb, through_nodes=[s.bb for s in setres], start=pops[0].bb)
        okc = b.must_pass(n.bb, through_nodes=[c.bb for c in normal_sites(b, "writers::Writer::set_operation_completed")], start=pops[0].bb)
        R.check(rule, APPLY + "|result-before-notify", ok and okc, n.where(),
                "a follower is notified only after set_operation_completed and set_operation_result", "")
    # leader's return value
    after_pop = b.reachable(pops[0].bb)
    bad = []
    n_ret = 0
    for bb in sorted(after_pop):
        for st in b.blocks[bb]["stmts"]:
            if st["k"] == "assign" and st["pl"]["l"] == 0 and not st["pl"]["p"]:
                n_ret += 1
                rv = st["rv"]
                os_ = origins(b, {"l": 0, "p": []}) if False else (origins(b, rv["ops"][0]) if rv["k"] == "use" else [])
                if not any(o.kind == "call" and o.name in RESULT_SRC for o in os_):
                    bad.append("%s:%s assigns %s" % (b.file, st["line"], (rv.get("adt") or "") + "::" + (rv.get("variant") or rv["k"])))
    # also a call writing _0 directly
    for c in b.calls():
        if c.bb in after_pop and c.dest["l"] == 0 and not b.is_cleanup(c.bb):
            n_ret += 1
            if c.name not in TRANSPARENT_RESULT:
                bad.append("%s returns the result of %s" % (c.where(), c.name))
            elif not any(o.kind == "call" and o.name in RESULT_SRC for o in origins(b, c.args[0])):
                bad.append("%s returns a value not derived from the group result" % c.where())
    R.check(rule, APPLY + "|leader-returns-group-result", not bad and n_ret > 0, where(b),
            "the value the leader returns after the pop loop derives from the group's write result",
            "; ".join(bad) or "%d return assignments derive from the write result" % n_ret)


TRANSPARENT_RESULT = {"<std::result::Result<T, E> as std::clone::Clone>::clone", "std::clone::Clone::clone"}


# ------------------------------------------------------------------------------------------- GRD-3
SEQ_OF_KEY = "key::InternalKey::get_sequence_number"


def grd3_sequence_filter(P, R, L, rule="GRD-3"):
    for fn, kind in (("iterator::DatabaseIterator::find_next_client_entry", "next"),
                     ("iterator::DatabaseIterator::find_prev_client_entry", "prev")):
        b = P.body(fn)
        if b is None:
            R.missing_anchor(rule, fn)
            continue
        R.analysed(b)
        a_pred = origin_pred_call(SEQ_OF_KEY)
        b_pred = origin_pred_field("sequence_snapshot")
        edges = []
        for c in comparisons(b):
            edges += c.edges_where("le", a_pred, b_pred)
        if kind == "next":
            targets = [(s[0], "%s:%s" % (b.file, s[2]["line"])) for s in field_stores(b, "is_valid", const=1)]
            what = "is_valid = true"
        else:
            targets = [(s[0], "%s:%s" % (b.file, s[2]["line"])) for s in field_stores(b, "cached_value")
                       if "Some" in stored_variants(b, s[2])]
            targets += [(s[0], "%s:%s" % (b.file, s[2]["line"])) for s in field_stores(b, "cached_user_key")
                        if "Some" in stored_variants(b, s[2])]
            what = "cached entry = Some(..)"
        if not edges or not targets:
            R.check(rule, fn + "|sequence-filter", False, where(b),
                    "a comparison `entry.sequence <= self.sequence_snapshot` guards every `%s`" % what,
                    "comparisons relating get_sequence_number and sequence_snapshot: %d; guarded stores: %d" % (len(edges), len(targets)))
            continue
        for (tb, w) in targets:
            ok = b.must_pass(tb, through_edges=edges)
            R.check(rule, fn + "|sequence-filter", ok, w,
                    "`%s` is reachable only over an edge on which entry.sequence <= snapshot sequence" % what,
                    "guard edges %s" % edges)
    # provenance of the sequence bound
    SEQ_SRC = {PREV_SEQ, "snapshots::Snapshot::sequence_number"}
    g = P.body(GET)
    if g is not None:
        for (u, cb) in unlocked_closures(P, L, g):
            for c in normal_sites(cb, "key::InternalKey::new_for_seeking"):
                ups = [o for o in origins(cb, c.args[1]) if o.kind == "upvar"]
                ok = False
                det = "sequence operand is not a captured variable"
                for up in ups:
                    # the captured operand in the parent
                    for bb in g.blocks:
                        for st in bb["stmts"]:
                            if st["k"] == "assign" and st["rv"]["k"] == "aggregate" and st["rv"].get("closure") == cb.path:
                                fs = st["rv"]["fields"]
                                if up.name in fs:
                                    os_ = origins(g, st["rv"]["ops"][fs.index(up.name)])
                                    ok = bool(os_) and all(o.kind == "call" and o.name in SEQ_SRC for o in os_)
                                    det = "captured `%s` originates from %s" % (up.name, sorted({o.name for o in os_}))
                R.check(rule, GET + "|lookup-sequence-provenance", ok, c.where(),
                        "the sequence of the lookup key is the snapshot's or the one read from the version set under the mutex", det)
    ni = P.body(NEW_ITER)
    if ni is not None:
        for c in normal_sites(ni, "iterator::DatabaseIterator::new"):
            os_ = origins(ni, c.args[2])
            ok = bool(os_) and all(o.kind == "call" and o.name in SEQ_SRC for o in os_)
            R.check(rule, NEW_ITER + "|iterator-sequence-provenance", ok, c.where(),
                    "the iterator's sequence_snapshot is the snapshot's or the one read under the mutex", "%s" % sorted({repr(o) for o in os_}))
