"""Rule implementations shared by several properties."""
from ..lck import (is_db_lock, is_unlocked_fair, is_release_point, is_wait, UNLOCKED_FAIR)
from ..rules import (result_tests, bool_tests, option_tests, ok_guarded, sites_reaching, field_stores, field_reads,
                     comparisons, origin_pred_call, origin_pred_field, in_cycle, switch_target, stored_variants)
from ..dataflow import origins
from ..cfg import strip_generics

GET = "db::DB::get"
NEW_ITER = "db::DB::new_iterator"
GET_SNAPSHOT = "db::DB::get_snapshot"
APPLY = "db::DB::apply_changes"
NOTIFY_WRITER = "writers::Writer::notify_writer"
RECOVER_LOGS_FN = "db::DB::recover_unrecorded_logs"
MAKE_ROOM = "db::DB::make_room_for_write"
MEMTABLE = "db::DB::memtable"
LOAD_FULL = "arc_swap::ArcSwapAny::load_full"
CUR_VERSION = "versioning::version_set::VersionSet::get_current_version"
PREV_SEQ = "versioning::version_set::VersionSet::get_prev_sequence_number"
SET_PREV_SEQ = "versioning::version_set::VersionSet::set_prev_sequence_number"
APPLY_BATCH = "db::DB::apply_batch_to_memtable"
LOG_APPEND = "logs::LogWriter::append"
WAL = "db::DB::wal"
MEM_INSERT = "memtable::MemTable::insert"
NEW_SNAPSHOT = "snapshots::SnapshotList::new_snapshot"
LOG_AND_APPLY = "versioning::version_set::VersionSet::log_and_apply"
REMOVE_OBSOLETE = "db::DB::remove_obsolete_files"
CONVERT = "db::DB::convert_memtable_to_file"
COMPACT_MEMTABLE = "compaction::worker::CompactionWorker::compact_memtable"
COORD = "compaction::worker::CompactionWorker::coordinate_compaction"
COMPACT_TABLES = "compaction::worker::CompactionWorker::compact_tables"
INSTALL = "compaction::worker::CompactionWorker::install_compaction_results"
CLEANUP = "compaction::worker::CompactionWorker::cleanup_compaction"
SET_BAD = "db::DB::set_bad_database_state"


def where(b):
    return "%s:%d" % (b.file, b.line_lo)


def normal_sites(body, pred):
    return [c for c in body.calls_to(pred) if not body.is_cleanup(c.bb)]


def field_option_edges(body, field):
    """(some_edges, none_edges): CFG edges on which the Option-typed field `field` is known to be Some / None, from
    `x.field.is_some()` / `is_none()` tests and from discriminant reads (`if let Some(v) = x.field.as_ref()`, `match x.field`)."""
    from ..rules import _switches_on_local, switch_target
    some, none = [], []
    for c in body.calls():
        if body.is_cleanup(c.bb) or c.name not in ("std::option::Option::is_some", "std::option::Option::is_none") or not c.args:
            continue
        if not any(field in o.path for o in origins(body, c.args[0])):
            continue
        for t in bool_tests(body, c.dest["l"]):
            tr, fl = [(t.bb, x) for x in t.ok], [(t.bb, x) for x in t.err]
            if c.name.endswith("is_some"):
                some += tr
                none += fl
            else:
                some += fl
                none += tr
    for bb in range(body.n):
        if body.is_cleanup(bb):
            continue
        for st in body.blocks[bb]["stmts"]:
            if st["k"] != "assign" or st["rv"]["k"] != "discr" or st["pl"]["p"]:
                continue
            fps = [e for e in st["rv"]["pl"]["p"] if isinstance(e, dict) and "f" in e]
            direct = bool(fps) and fps[-1].get("n") == field and "Option<" in (fps[-1].get("t") or "Option<")
            via_local = not fps and "Option<" in body.local_ty(st["rv"]["pl"]["l"]) and \
                any(field in o.path for o in origins(body, {"k": "copy", "pl": st["rv"]["pl"]}))
            if direct or via_local:
                for sb in _switches_on_local(body, st["pl"]["l"]):
                    t = body.term(sb)
                    n_t, s_t = switch_target(t, 0), switch_target(t, 1)
                    if n_t != s_t:
                        none.append((sb, n_t))
                        some.append((sb, s_t))
    return some, none


def unlocked_closures(P, L, body):
    """(site, closure body) for closures handed to unlocked_fair in this body."""
    out = []
    for cs in body.calls():
        if is_unlocked_fair(cs) and not body.is_cleanup(cs.bb):
            for c in cs.closure_args():
                if c in P.bodies:
                    out.append((cs, P.bodies[c]))
    return out


# ------------------------------------------------------------------------------------------- closures that run at their call site
SYNC_CLOSURE_TAKERS = {"then", "map", "map_or", "map_or_else", "and_then", "or_else", "unwrap_or_else", "ok_or_else", "is_some_and",
                       "is_ok_and", "is_err_and", "map_err", "inspect", "inspect_err", "filter"}


def sync_closure_sites(P, b, names):
    """call sites in b of a bool / Option / Result combinator that is handed a closure WRITTEN AT THAT SITE whose body calls one of
    `names`: the closure runs before the combinator returns, so for rules that only ask WHERE a call happens
    (`cond.then(|| w.get_operation_result().unwrap())` for `if cond { w.get_operation_result().unwrap() }`) the combinator's site
    stands for the call."""
    out = []
    for cs in b.calls():
        nm = cs.name or ""
        if b.is_cleanup(cs.bb) or cs.t.get("local") or nm.rsplit("::", 1)[-1] not in SYNC_CLOSURE_TAKERS or \
                not (nm.startswith("std::option::Option") or nm.startswith("std::result::Result") or nm.startswith("std::bool::") or nm.startswith("core::bool::") or nm.startswith("bool::")):
            continue
        for a in cs.args[1:]:
            for ao in origins(b, a):
                cb = P.bodies.get(ao.name) if ao.kind == "agg" else None
                if cb is not None and cb.kind == "closure" and any(c2.name in names and not cb.is_cleanup(c2.bb) for c2 in cb.calls()):
                    out.append(cs)
    return out


# ------------------------------------------------------------------------------------------- LCK-1 / LCK-2
SOURCES = {
    "sequence": [PREV_SEQ],
    "memtable": [MEMTABLE, LOAD_FULL],
    "version": [CUR_VERSION],
}


SYNC_COMBINATORS = {"map_or_else", "map_or", "unwrap_or_else", "map", "and_then", "or_else", "ok_or_else"}


def lck_capture(P, R, L, rule, entries, need):
    """In each reader entry point, the snapshot sources are read while the DB mutex is held, in one held
    region with no release point between them, and no closure handed to unlocked_fair reaches a source."""
    for ep in entries:
        b = P.body(ep)
        if b is None:
            R.missing_anchor(rule, ep)
            continue
        R.analysed(b)
        found = {}
        for kind, names in SOURCES.items():
            for cs in b.calls():
                if b.is_cleanup(cs.bb) or is_release_point(cs):
                    continue
                # the accessor itself, or a helper that is handed the guard (a held body) and reaches it
                carries = {"sequence": "u64", "memtable": "MemTable", "version": "version::Version"}[kind]
                if cs.name in names or (cs.t.get("local") and cs.callee in P.bodies and L.guard_param(P.bodies[cs.callee]) is not None
                                        and carries in b.local_ty(cs.dest["l"])
                                        and P.fn_reaches(cs.callee, names, sync_only=True)):
                    found.setdefault(kind, []).append(cs)
                elif not cs.t.get("local") and (cs.name or "").rsplit("::", 1)[-1] in SYNC_COMBINATORS and \
                        ((cs.name or "").startswith("std::option::Option") or (cs.name or "").startswith("std::result::Result")):
                    # `opt.map_or_else(|| guard.version_set.get_prev_sequence_number(), ..)`: a closure written at the call site of an
                    # Option / Result combinator runs before the combinator returns - the accessor is read at this site
                    for a in cs.args[1:]:
                        for ao in origins(b, a):
                            if ao.kind == "agg" and ao.name in P.bodies and P.bodies[ao.name].kind == "closure" and \
                                    any(c2.name in names and not P.bodies[ao.name].is_cleanup(c2.bb) for c2 in P.bodies[ao.name].calls()):
                                found.setdefault(kind, []).append(cs)
        imm_blocks = sorted(field_reads(b, "maybe_immutable_memtable"))
        # ... or read by a helper that is handed the guard
        for cs in b.calls():
            if b.is_cleanup(cs.bb) or is_release_point(cs) or not (cs.t.get("local") and cs.callee in P.bodies):
                continue
            if L.guard_param(P.bodies[cs.callee]) is not None and "MemTable" in b.local_ty(cs.dest["l"]) and any(
                    field_reads(P.bodies[q], "maybe_immutable_memtable") for q in P.reach_set(cs.callee, sync_only=True)
                    if L.guard_param(P.bodies[q]) is not None):
                imm_blocks = sorted(set(imm_blocks) | {cs.bb})
        # (a) sources read at held sites
        for kind in need.get(ep, []):
            if kind == "imm":
                ok = bool(imm_blocks) and all(L.held_map(b)[bb][1] for bb in imm_blocks)
                R.check(rule, "%s|source=imm|held" % ep, ok, where(b),
                        "maybe_immutable_memtable is read while the DB mutex is held",
                        "read in blocks %s; must-held=%s" % (imm_blocks, [L.held_map(b)[bb][1] for bb in imm_blocks]))
                continue
            sites = found.get(kind, [])
            R.call_sites += len(sites)
            if not sites:
                # the source must not be read somewhere else instead (e.g. inside the unlocked closure)
                R.check(rule, "%s|source=%s|held" % (ep, kind), False, where(b),
                        "%s is captured in %s while the DB mutex is held" % (kind, ep),
                        "no call to %s in the body of %s itself (captured elsewhere, e.g. after the mutex was released?)" % (SOURCES[kind], ep))
                continue
            st = [L.site_state(cs) for cs in sites]
            R.check(rule, "%s|source=%s|held" % (ep, kind), all(s == "held" for s in st), sites[0].where(),
                    "%s is captured while the DB mutex is held" % kind, "sites %s states %s" % ([c.line for c in sites], st))
        # (b) unlocked closures reach no source
        for (ucs, cb) in unlocked_closures(P, L, b):
            R.analysed(cb)
            bad = []
            kinds = [k for k in need.get(ep, []) if k != "imm"]
            for kind in kinds:
                names = SOURCES[kind]
                for cs in P.ext_calls_reachable(cb.path, names):
                    bad.append("%s via %s (%s)" % (kind, cs.body.path, cs.where()))
            R.check(rule, "%s|unlocked-closure-reads-no-source" % ep, not bad, ucs.where(),
                    "code run by %s after releasing the mutex does not read the sequence, the active memtable pointer or the current version" % ep,
                    "; ".join(bad) or "closure %s reaches none of the accessors of %s" % (cb.path, kinds))
        # (c) one region: no release point between any two source sites
        all_sites = [cs for k in need.get(ep, []) if k != "imm" for cs in found.get(k, [])]
        src_blocks = [cs.bb for cs in all_sites] + (imm_blocks if "imm" in need.get(ep, []) else [])
        rel = [cs for cs in b.calls() if is_release_point(cs) and not b.is_cleanup(cs.bb)]
        split = []
        for r in rel:
            before = [s for s in src_blocks if r.bb in b.reachable(s) and s != r.bb]
            after = [s for s in src_blocks if s in b.reachable(r.target) ] if r.target is not None else []
            if before and after:
                split.append("%s at line %s splits sources %s | %s" % (r.name, r.line, before, after))
        actions = [cs for cs in b.calls() if cs.name == NEW_SNAPSHOT and not b.is_cleanup(cs.bb)] if ep == GET_SNAPSHOT else []
        pts = src_blocks + [a.bb for a in actions]
        for lk in [cs for cs in b.calls() if is_db_lock(cs) and not b.is_cleanup(cs.bb)]:
            before = [s for s in pts if lk.bb in b.reachable(s) and s != lk.bb]
            after = [s for s in pts if lk.target is not None and s in b.reachable(lk.target)]
            if before and after:
                split.append("a second lock() at line %s separates %s | %s" % (lk.line, before, after))
        for a in actions:
            if L.site_state(a) != "held":
                split.append("new_snapshot is not called with the mutex held")
        R.check(rule, "%s|single-region" % ep, not split, where(b),
                "all sources (and the snapshot registration) lie in one held region: no unlocked_fair / wait / second lock() between them", "; ".join(split) or "no release point between source reads")


def ord8_publication(P, R, L, rule="ORD-8"):
    b = P.body(APPLY)
    if b is None:
        return R.missing_anchor(rule, APPLY)
    R.analysed(b)
    pubs = normal_sites(b, SET_PREV_SEQ)
    ucs = [(cs, cb) for (cs, cb) in unlocked_closures(P, L, b) if P.fn_reaches(cb.path, [APPLY_BATCH, MEM_INSERT])]
    if not pubs or not ucs:
        return R.check(rule, APPLY + "|anchors", False, where(b), "apply_changes publishes the sequence and has an unlocked WAL+memtable section",
                       "set_prev_sequence_number sites=%d, unlocked sections reaching the memtable=%d" % (len(pubs), len(ucs)))
    for s in pubs:
        ok = b.must_pass(s.bb, through_edges=[(u.bb, u.target) for (u, _) in ucs])
        R.check(rule, APPLY + "|publish-after-apply", ok, s.where(),
                "set_prev_sequence_number is dominated by the unlocked section that writes the WAL and the memtable",
                "publication at line %s; sections at %s" % (s.line, [u.line for (u, _) in ucs]))
        R.check(rule, APPLY + "|publish-held", L.site_state(s) == "held", s.where(),
                "the sequence number is published while the DB mutex is held", "state=%s" % L.site_state(s))
    for (u, cb) in ucs:
        R.analysed(cb)
        bad = P.ext_calls_reachable(cb.path, SET_PREV_SEQ)
        R.check(rule, APPLY + "|no-publish-inside-unlocked", not bad, u.where(),
                "the unlocked section does not publish the sequence itself", "%s" % [c.where() for c in bad])
    R.call_sites += len(pubs) + len(ucs)


def own_single_writer(P, R, L, rule_seq="OWN-2", rule_mem="OWN-3"):
    # OWN-2: who publishes
    allowed_pub = {APPLY, "db::DB::recover_unrecorded_logs"}
    sites = [c for c in P.callers_of(SET_PREV_SEQ) if not c.body.is_cleanup(c.bb)]
    R.floor(rule_seq, "set_prev_sequence_number call sites", len(sites), 2)
    for c in sites:
        R.analysed(c.body)
        ok = c.body.path in allowed_pub and L.site_state(c) == "held"
        R.check(rule_seq, "%s|publishes-sequence" % c.body.path, ok, c.where(),
                "set_prev_sequence_number is called only by apply_changes and recovery, with the DB mutex held",
                "caller %s state %s" % (c.body.path, L.site_state(c)))
    # field written directly only inside VersionSet
    for p, bd in sorted(P.bodies.items()):
        for (bb, i, st) in field_stores(bd, "prev_sequence_number", adt="versioning::version_set::VersionSet"):
            # the setter (publication by a writer / by WAL replay) and manifest recovery; NOT the version install, which runs
            # with the mutex released around the manifest write and would rewind the horizon to a value captured before it
            ok = p in ("versioning::version_set::VersionSet::set_prev_sequence_number", "versioning::version_set::VersionSet::recover")
            R.check(rule_seq, "%s|writes-prev_sequence_number" % p, ok, "%s:%s" % (bd.file, st["line"]),
                    "the field is written only by its setter and by VersionSet::recover", p)
    # OWN-3: who inserts into a memtable
    ins = [c for c in P.callers_of(lambda c: c.declared_name == MEM_INSERT or c.name == MEM_INSERT) if not c.body.is_cleanup(c.bb)]
    R.floor(rule_mem, "MemTable::insert call sites", len(ins), 1)
    for c in ins:
        ok = c.body.path == APPLY_BATCH
        R.check(rule_mem, "%s|inserts-into-memtable" % c.body.path, ok, c.where(),
                "MemTable::insert is called only by apply_batch_to_memtable", c.body.path)
    callers = [c for c in P.callers_of(APPLY_BATCH) if not c.body.is_cleanup(c.bb)]
    R.floor(rule_mem, "apply_batch_to_memtable call sites", len(callers), 2)
    for c in callers:
        bp = c.body.path
        if bp == "db::DB::recover_wal_records":
            ok = True
            why = "recovery (during open, before the DB handle exists)"
        elif c.body.kind == "closure" and c.body.parent == APPLY and L.closure_context(c.body)[0] == "unlocked":
            ok = True
            why = "the leader's unlocked section of apply_changes"
        else:
            ok = False
            why = "unexpected caller"
        R.check(rule_mem, "%s|calls-apply_batch_to_memtable" % bp, ok, c.where(),
                "memtable writes happen only in apply_changes' unlocked leader section and in recovery", why)
    wal = [c for c in P.callers_of(WAL) if not c.body.is_cleanup(c.bb)]
    for c in wal:
        ok = c.body.kind == "closure" and c.body.parent == APPLY
        R.check(rule_mem, "%s|uses-wal-writer" % c.body.path, ok, c.where(),
                "the WAL writer (UnsafeCell, single-writer assumption) is used only by apply_changes' leader section", c.body.path)
    R.call_sites += len(sites) + len(ins) + len(callers) + len(wal)


def ord9_rotation(P, R, L, rule="ORD-9"):
    b = P.body(MAKE_ROOM)
    if b is None:
        return R.missing_anchor(rule, MAKE_ROOM)
    R.analysed(b)
    swaps = normal_sites(b, "arc_swap::ArcSwapAny::swap")
    stores = field_stores(b, "maybe_immutable_memtable")
    if not swaps or not stores:
        return R.check(rule, MAKE_ROOM + "|anchors", False, where(b), "memtable_ptr.swap and the store to maybe_immutable_memtable exist",
                       "swaps=%d stores=%d" % (len(swaps), len(stores)))
    rel = [c for c in b.calls() if is_release_point(c) and not b.is_cleanup(c.bb)]
    sblocks = [s[0] for s in stores]
    for w in swaps:
        # every path from the swap to a release point or to return passes the store
        targets = [r.bb for r in rel] + b.return_blocks()
        bad = [t for t in targets if not b.must_pass(t, through_nodes=sblocks, start=w.target)]
        R.check(rule, MAKE_ROOM + "|swap-then-store-before-release", not bad, w.where(),
                "after memtable_ptr.swap the old memtable is stored into maybe_immutable_memtable before the mutex can be released",
                "release/return blocks reachable without the store: %s" % [b.where(t) for t in bad])
        R.check(rule, MAKE_ROOM + "|swap-held", L.site_state(w) == "held", w.where(), "rotation happens with the DB mutex held", L.site_state(w))
    # the stored value is the one returned by swap
    for (bb, i, st) in stores:
        src = st["rv"]
        os_ = []
        if src["k"] == "use":
            os_ = origins(b, src["ops"][0])
        elif src["k"] == "aggregate" and src["ops"]:
            os_ = origins(b, src["ops"][0])
        ok = any(o.kind == "call" and o.name == "arc_swap::ArcSwapAny::swap" for o in os_)
        R.check(rule, MAKE_ROOM + "|imm-is-swapped-out-memtable", ok, "%s:%s" % (b.file, st["line"]),
                "maybe_immutable_memtable receives the memtable that memtable_ptr.swap returned", "origins %s" % sorted({repr(o) for o in os_})[:5])
    # a rotation happens only when no immutable memtable is pending (otherwise the pending one is overwritten: its
    # entries become unreadable until its flush installs, and the flush then drops the wrong memtable)
    none_edges = []
    for c in b.calls():
        if b.is_cleanup(c.bb) or c.name not in ("std::option::Option::is_some", "std::option::Option::is_none"):
            continue
        if any("maybe_immutable_memtable" in o.path for o in origins(b, c.args[0])):
            for t in bool_tests(b, c.dest["l"]):
                none_edges += t.err_edges() if c.name.endswith("is_some") else t.ok_edges()
    for (bb, i, st) in stores:
        ok = bool(none_edges) and b.must_pass(bb, through_edges=none_edges)
        R.check(rule, MAKE_ROOM + "|rotate-only-without-pending-imm", ok, "%s:%s" % (b.file, st["line"]),
                "maybe_immutable_memtable is overwritten only on the edge where it was observed to be None", "None-edges %s" % none_edges)
    # WAL switch precedes the swap (new writes go to the new WAL, old WAL covers exactly the immutable memtable)
    sw = sites_reaching(P, b, "db::DB::set_wal")
    for w in swaps:
        ok = bool(sw) and b.must_pass(w.bb, through_nodes=[s.bb for s in sw])
        R.check(rule, MAKE_ROOM + "|set_wal-before-swap", ok, w.where(), "set_wal (new WAL installed) dominates the memtable swap", "set_wal sites %s" % [s.line for s in sw])


def ord2_write_ahead(P, R, L, rule="ORD-2"):
    b = P.body(APPLY)
    if b is None:
        return R.missing_anchor(rule, APPLY)
    found = False
    for (u, cb) in unlocked_closures(P, L, b):
        if not P.fn_reaches(cb.path, [APPLY_BATCH, MEM_INSERT]):
            continue
        found = True
        R.analysed(cb)
        apps = [c for c in sites_reaching(P, cb, LOG_APPEND)]
        mems = [c for c in sites_reaching(P, cb, [APPLY_BATCH, MEM_INSERT])]
        if not apps:
            R.check(rule, APPLY + "|wal-append-before-memtable", False, u.where(),
                    "the section that applies the batch to the memtable appends it to the WAL first", "no LogWriter::append in the section")
            continue
        for m in mems:
            if m in apps:
                continue
            oks = [ok_guarded(cb, m.bb, a) for a in apps]
            ok = any(o[0] for o in oks)
            R.check(rule, APPLY + "|wal-append-before-memtable", ok, m.where(),
                    "apply_batch_to_memtable is reachable only over the success edge of LogWriter::append",
                    "; ".join(o[1] for o in oks))
        R.call_sites += len(apps) + len(mems)
        # the batch appended is the batch applied
    if not found:
        R.check(rule, APPLY + "|anchors", False, where(b), "apply_changes has an unlocked section that applies the batch", "none found")
    # leader's result derives from the section result (the Err of the append reaches set_bad_database_state)
    for (u, cb) in unlocked_closures(P, L, b):
        if not P.fn_reaches(cb.path, [LOG_APPEND]):
            continue
        tests = result_tests(b, u.dest["l"]) if not u.dest["p"] else []
        bad_sites = [c.bb for c in sites_reaching(P, b, SET_BAD)]
        ok = False
        for t in tests:
            for e in t.err:
                # all paths from the err edge pass set_bad_database_state before returning
                if all(b.must_pass(r, through_nodes=bad_sites, start=e) for r in b.return_blocks()):
                    ok = True
        R.check(rule, APPLY + "|wal-error-is-sticky", ok, u.where(),
                "a failed WAL append / memtable section records the sticky bad-database state", "tests=%s" % tests)


# ------------------------------------------------------------------------------------------- ORD-3
def _imm_clear_blocks(b):
    blocks = []
    for c in normal_sites(b, "std::option::Option::take"):
        if any("maybe_immutable_memtable" in o.path for o in origins(b, c.args[0])):
            blocks.append((c.bb, c.where()))
    for (bb, i, st) in field_stores(b, "maybe_immutable_memtable"):
        rv = st["rv"]
        if "None" in stored_variants(b, st):
            blocks.append((bb, "%s:%s" % (b.file, st["line"])))
    return blocks


def ord3_flush(P, R, L, rule="ORD-3"):
    b = P.body(COMPACT_MEMTABLE)
    if b is None:
        return R.missing_anchor(rule, COMPACT_MEMTABLE)
    R.analysed(b)
    conv = sites_reaching(P, b, CONVERT)
    la = sites_reaching(P, b, LOG_AND_APPLY)
    rof = sites_reaching(P, b, REMOVE_OBSOLETE)
    clears = _imm_clear_blocks(b)
    if not (conv and la and rof and clears):
        return R.check(rule, COMPACT_MEMTABLE + "|anchors", False, where(b),
                       "convert_memtable_to_file, log_and_apply, maybe_immutable_memtable.take() and remove_obsolete_files are all present",
                       "conv=%d log_and_apply=%d remove_obsolete=%d imm-clear=%d" % (len(conv), len(la), len(rof), len(clears)))
    R.call_sites += len(conv) + len(la) + len(rof) + len(clears)
    for a in la:
        oks = [ok_guarded(b, a.bb, c) for c in conv]
        R.check(rule, COMPACT_MEMTABLE + "|table-built-before-manifest", any(o[0] for o in oks), a.where(),
                "log_and_apply is reachable only over the success edge of convert_memtable_to_file", "; ".join(o[1] for o in oks))
    for (cb, w) in clears:
        oks = [ok_guarded(b, cb, a) for a in la]
        R.check(rule, COMPACT_MEMTABLE + "|manifest-before-dropping-imm", any(o[0] for o in oks), w,
                "the immutable memtable is dropped only over the success edge of log_and_apply", "; ".join(o[1] for o in oks))
    for r in rof:
        oks = [ok_guarded(b, r.bb, a) for a in la]
        R.check(rule, COMPACT_MEMTABLE + "|manifest-before-deleting-files", any(o[0] for o in oks), r.where(),
                "remove_obsolete_files (which deletes the old WAL) runs only over the success edge of log_and_apply", "; ".join(o[1] for o in oks))
    # the recorded WAL number is the current one and prev is cleared -> checked as stores before log_and_apply
    st_wal = field_stores(b, "wal_file_number")
    ok = bool(st_wal) and all(b.must_pass(a.bb, through_nodes=[s[0] for s in st_wal]) for a in la)
    R.check(rule, COMPACT_MEMTABLE + "|wal-number-recorded", ok, where(b),
            "the change manifest's wal_file_number is set before log_and_apply", "stores=%d" % len(st_wal))


def ord3_tables(P, R, L, rule="ORD-3"):
    b = P.body(COMPACT_TABLES)
    if b is None:
        return R.missing_anchor(rule, COMPACT_TABLES)
    R.analysed(b)
    inst = sites_reaching(P, b, INSTALL)
    if not inst:
        return R.check(rule, COMPACT_TABLES + "|anchors", False, where(b), "install_compaction_results is called", "not found")
    # the install is reached only over the None edge of a test of an error-status Option that collects `.err()` values
    for i in inst:
        none_edges = []
        for bb in range(b.n):
            t = b.term(bb)
            if t["k"] != "call" or strip_generics(t.get("resolved") or t.get("callee")) not in ("std::option::Option::is_none", "std::option::Option::is_some"):
                continue
            os_ = origins(b, t["args"][0])
            if not any(o.kind == "call" and o.name in ("std::result::Result::err",) or o.kind == "call" and "get_error" in (o.name or "") for o in os_):
                continue
            from ..rules import bool_tests as bt
            nm = strip_generics(t.get("resolved") or t.get("callee"))
            for tt in bt(b, t["dest"]["l"]):
                none_edges += (tt.ok_edges() if nm.endswith("is_none") else tt.err_edges())
        ok = bool(none_edges) and b.must_pass(i.bb, through_edges=none_edges)
        R.check(rule, COMPACT_TABLES + "|install-only-without-error", ok, i.where(),
                "install_compaction_results is reachable only when the compaction error status is None", "None-edges %s" % none_edges)
    ib = P.body(INSTALL)
    if ib is None:
        R.missing_anchor(rule, INSTALL)
    else:
        R.analysed(ib)
        fin = sites_reaching(P, ib, "compaction::state::CompactionState::finalize_version_manifest")
        la = sites_reaching(P, ib, LOG_AND_APPLY)
        ok = bool(fin) and bool(la) and all(ib.must_pass(a.bb, through_nodes=[f.bb for f in fin]) for a in la)
        R.check(rule, INSTALL + "|finalize-before-apply", ok, where(ib), "finalize_version_manifest dominates log_and_apply", "")
    cb = P.body(COORD)
    if cb is None:
        return R.missing_anchor(rule, COORD)
    R.analysed(cb)
    ct = sites_reaching(P, cb, COMPACT_TABLES)
    cl = [c for c in sites_reaching(P, cb, CLEANUP)]
    rof = [c for c in sites_reaching(P, cb, REMOVE_OBSOLETE) if c not in sites_reaching(P, cb, COMPACT_MEMTABLE)]
    for r in rof:
        oks = [ok_guarded(cb, r.bb, c) for c in ct]
        R.check(rule, COORD + "|delete-after-install", any(o[0] for o in oks) and cb.must_pass(r.bb, through_nodes=[c.bb for c in cl]), r.where(),
                "remove_obsolete_files after a table compaction runs only over compact_tables' Ok edge and after cleanup_compaction",
                "; ".join(o[1] for o in oks))


# ------------------------------------------------------------------------------------------- PAIR-2
def pair2_group_result(P, R, L, rule="PAIR-2"):
    b = P.body(APPLY)
    if b is None:
        return R.missing_anchor(rule, APPLY)
    R.analysed(b)
    RESULT_SRC = {MAKE_ROOM, UNLOCKED_FAIR}
    setres = normal_sites(b, "writers::Writer::set_operation_result")
    notif = normal_sites(b, "writers::Writer::notify_writer")
    pops = normal_sites(b, "std::collections::VecDeque::pop_front")
    if not (setres and notif and pops):
        return R.check(rule, APPLY + "|anchors", False, where(b), "set_operation_result, notify_writer and pop_front present",
                       "set=%d notify=%d pop=%d" % (len(setres), len(notif), len(pops)))
    for s in setres:
        os_ = origins(b, s.args[1])
        # both outcomes feed it: the make-room result (when no write was attempted) and the WAL+memtable section's result
        ok = RESULT_SRC <= {o.name for o in os_ if o.kind == "call"}
        R.check(rule, APPLY + "|follower-gets-group-result", ok, s.where(),
                "the value handed to set_operation_result derives from the group's write result (make_room_for_write / WAL+memtable section)",
                "origins %s" % sorted({repr(o) for o in os_})[:6])
    # result is set before the follower is notified (inside the loop)
    loop_notifs = [n for n in notif if in_cycle(b, n.bb)]
    for n in loop_notifs:
        ok = b.must_pass(n.bb, through_nodes=[s.bb for s in setres], start=pops[0].bb)
        okc = b.must_pass(n.bb, through_nodes=[c.bb for c in normal_sites(b, "writers::Writer::set_operation_completed")], start=pops[0].bb)
        R.check(rule, APPLY + "|result-before-notify", ok and okc, n.where(),
                "a follower is notified only after set_operation_completed and set_operation_result", "")
    # leader's return value
    after_pop = b.reachable(pops[0].bb)
    bad = []
    n_ret = 0
    for bb in sorted(after_pop):
        for st in b.blocks[bb]["stmts"]:
            if st["k"] == "assign" and st["pl"]["l"] == 0 and not st["pl"]["p"]:
                n_ret += 1
                rv = st["rv"]
                os_ = origins(b, {"l": 0, "p": []}) if False else (origins(b, rv["ops"][0]) if rv["k"] == "use" else [])
                if not RESULT_SRC <= {o.name for o in os_ if o.kind == "call"}:
                    bad.append("%s:%s assigns %s" % (b.file, st["line"], (rv.get("adt") or "") + "::" + (rv.get("variant") or rv["k"])))
    # also a call writing _0 directly
    for c in b.calls():
        if c.bb in after_pop and c.dest["l"] == 0 and not b.is_cleanup(c.bb):
            n_ret += 1
            if c.name not in TRANSPARENT_RESULT:
                bad.append("%s returns the result of %s" % (c.where(), c.name))
            elif not RESULT_SRC <= {o.name for o in origins(b, c.args[0]) if o.kind == "call"}:
                bad.append("%s returns a value not derived from the group result" % c.where())
    R.check(rule, APPLY + "|leader-returns-group-result", not bad and n_ret > 0, where(b),
            "the value the leader returns after the pop loop derives from the group's write result",
            "; ".join(bad) or "%d return assignments derive from the write result" % n_ret)


TRANSPARENT_RESULT = {"<std::result::Result<T, E> as std::clone::Clone>::clone", "std::clone::Clone::clone"}


# ------------------------------------------------------------------------------------------- GRD-3
SEQ_OF_KEY = "key::InternalKey::get_sequence_number"


def grd3_sequence_filter(P, R, L, rule="GRD-3"):
    for fn, kind in (("iterator::DatabaseIterator::find_next_client_entry", "next"),
                     ("iterator::DatabaseIterator::find_prev_client_entry", "prev")):
        b = P.body(fn)
        if b is None:
            R.missing_anchor(rule, fn)
            continue
        R.analysed(b)
        a_pred = origin_pred_call(SEQ_OF_KEY)
        b_pred = origin_pred_field("sequence_snapshot")
        edges = []
        for c in comparisons(b):
            edges += c.edges_where("le", a_pred, b_pred, exact=True)
        if kind == "next":
            targets = [(s[0], "%s:%s" % (b.file, s[2]["line"])) for s in field_stores(b, "is_valid", const=1)]
            what = "is_valid = true"
        else:
            targets = [(s[0], "%s:%s" % (b.file, s[2]["line"])) for s in field_stores(b, "cached_value")
                       if "Some" in stored_variants(b, s[2])]
            targets += [(s[0], "%s:%s" % (b.file, s[2]["line"])) for s in field_stores(b, "cached_user_key")
                        if "Some" in stored_variants(b, s[2])]
            what = "cached entry = Some(..)"
        if not edges or not targets:
            R.check(rule, fn + "|sequence-filter", False, where(b),
                    "a comparison `entry.sequence <= self.sequence_snapshot` guards every `%s`" % what,
                    "comparisons relating get_sequence_number and sequence_snapshot: %d; guarded stores: %d" % (len(edges), len(targets)))
            continue
        for (tb, w) in targets:
            ok = b.must_pass(tb, through_edges=edges)
            R.check(rule, fn + "|sequence-filter", ok, w,
                    "`%s` is reachable only over an edge on which entry.sequence <= snapshot sequence" % what,
                    "guard edges %s" % edges)
    # provenance of the sequence bound
    SEQ_SRC = {PREV_SEQ, "snapshots::Snapshot::sequence_number", "snapshots::InnerSnapshot::sequence_number"}
    g = P.body(GET)
    if g is not None:
        for (u, cb) in unlocked_closures(P, L, g):
            for c in normal_sites(cb, "key::InternalKey::new_for_seeking"):
                ups = [o for o in origins(cb, c.args[1]) if o.kind == "upvar"]
                ok = False
                det = "sequence operand is not a captured variable"
                for up in ups:
                    # the captured operand in the parent
                    for bb in g.blocks:
                        for st in bb["stmts"]:
                            if st["k"] == "assign" and st["rv"]["k"] == "aggregate" and st["rv"].get("closure") == cb.path:
                                fs = st["rv"]["fields"]
                                if up.name in fs:
                                    from ..dataflow import deep_origins
                                    os_ = deep_origins(P, g, st["rv"]["ops"][fs.index(up.name)])
                                    ok = bool(os_) and all(o.kind == "call" and o.name in SEQ_SRC for o in os_)
                                    det = "captured `%s` originates from %s" % (up.name, sorted({str(o.name) for o in os_}))
                R.check(rule, GET + "|lookup-sequence-provenance", ok, c.where(),
                        "the sequence of the lookup key is the snapshot's or the one read from the version set under the mutex", det)
    ni = P.body(NEW_ITER)
    if ni is not None:
        for c in normal_sites(ni, "iterator::DatabaseIterator::new"):
            from ..dataflow import deep_origins
            os_ = deep_origins(P, ni, c.args[2])
            ok = bool(os_) and all(o.kind == "call" and o.name in SEQ_SRC for o in os_)
            R.check(rule, NEW_ITER + "|iterator-sequence-provenance", ok, c.where(),
                    "the iterator's sequence_snapshot is the snapshot's or the one read under the mutex", "%s" % sorted({repr(o) for o in os_}))


# ------------------------------------------------------------------------------------------- VERD-1 & friends
from ..rules import Cmp, bool_tests as _bt  # noqa: E402
from ..dataflow import roots, deep_origins  # noqa: E402

GET_OP = "key::InternalKey::get_operation"
GET_USER_KEY = "key::InternalKey::get_user_key"
TABLE_GET = "tables::table::Table::get"
VERSION_GET = "versioning::version::Version::get"
TABLE_CACHE_GET = "table_cache::TableCache::get"
MEM_GET = "memtable::MemTable::get"


def enum_value(P, enum_path, variant):
    for name, val in P.facts.get("enums", {}).get(enum_path, []):
        if name == variant:
            return int(val)
    return None


def variant_edges(P, body, enum_path, variant, source_pred):
    """Edges on which an enum value whose origins satisfy source_pred is known to be `variant`."""
    val = enum_value(P, enum_path, variant)
    edges = []
    if val is not None:
        for bb in range(body.n):
            for st in body.blocks[bb]["stmts"]:
                if st["k"] == "assign" and st["rv"]["k"] == "discr" and not st["pl"]["p"]:
                    if not source_pred(origins(body, st["rv"]["pl"])):
                        continue
                    d = st["pl"]["l"]
                    for sb in range(body.n):
                        t = body.term(sb)
                        if t["k"] == "switch" and t["discr"]["k"] in ("copy", "move") and t["discr"]["pl"]["l"] == d and not t["discr"]["pl"]["p"]:
                            listed = {int(v): tg for v, tg in t["targets"]}
                            if val in listed:
                                edges.append((sb, listed[val]))
                            else:
                                # falls into otherwise only if every other variant is listed explicitly
                                nvar = len(P.facts["enums"].get(enum_path, []))
                                if len(listed) == nvar - 1:
                                    edges.append((sb, t["otherwise"]))
    is_variant = lambda os_: any((o.kind == "agg" and o.name.endswith("::" + variant)) or
                                 (o.kind == "const" and isinstance(o.name, str) and variant in o.name) for o in os_)
    for c in comparisons(body):
        edges += c.edges_where("eq", source_pred, is_variant)
    return edges


def _ok_none_blocks(body):
    """blocks that assign Ok(None) to the return place"""
    out = []
    for bb in range(body.n):
        if body.is_cleanup(bb):
            continue
        for st in body.blocks[bb]["stmts"]:
            if st["k"] != "assign" or st["pl"]["l"] != 0 or st["pl"]["p"]:
                continue
            rv = st["rv"]
            if rv["k"] == "aggregate" and rv.get("variant") == "Ok" and rv["ops"]:
                op = rv["ops"][0]
                if op["k"] == "const":
                    if "None" in (op.get("text") or ""):
                        out.append((bb, st["line"]))
                else:
                    os_ = origins(body, op)
                    if os_ and all((o.kind == "agg" and o.name.endswith("Option::None")) or
                                   (o.kind == "const" and isinstance(o.name, str) and "None" in o.name) for o in os_):
                        out.append((bb, st["line"]))
            elif rv["k"] == "use" and rv["ops"][0]["k"] == "const" and "Ok(None)" in (rv["ops"][0].get("text") or "").replace(" ", ""):
                out.append((bb, st["line"]))
    return out


def _ok_some_blocks(body):
    out = []
    for bb in range(body.n):
        if body.is_cleanup(bb):
            continue
        for st in body.blocks[bb]["stmts"]:
            if st["k"] != "assign" or st["pl"]["l"] != 0 or st["pl"]["p"]:
                continue
            rv = st["rv"]
            if rv["k"] == "aggregate" and rv.get("variant") == "Ok" and rv["ops"] and rv["ops"][0]["k"] != "const":
                os_ = origins(body, rv["ops"][0])
                if any(o.kind == "agg" and o.name.endswith("Option::Some") for o in os_):
                    out.append((bb, st["line"]))
    return out


def verd1(P, R, L, rule="VERD-1", what=("table", "memtable", "version", "dbget")):
    is_op = origin_pred_call(GET_OP)
    targets = []
    if "table" in what:
        targets.append(TABLE_GET)
    if "memtable" in what:
        impls = [im for im in P.trait_impls.get(MEM_GET, []) if im in P.bodies]
        if not impls:
            R.missing_anchor(rule, "impl of MemTable::get")
        targets += impls
    for fn in targets:
        b = P.body(fn)
        if b is None:
            R.missing_anchor(rule, fn)
            continue
        R.analysed(b)
        del_edges = variant_edges(P, b, "key::Operation", "Delete", is_op)
        nones = _ok_none_blocks(b)
        for (bb, line) in nones:
            ok = bool(del_edges) and b.must_pass(bb, through_edges=del_edges)
            R.check(rule, fn + "|deleted-verdict-only-for-tombstone", ok, "%s:%s" % (b.file, line),
                    "`Ok(None)` (= deleted, stop searching) is produced only on the edge where the found entry's operation is Delete",
                    "Delete-edges %s" % del_edges)
        if not nones:
            R.check(rule, fn + "|has-deleted-verdict", False, where(b), "the lookup can report a tombstone as Ok(None)", "no Ok(None) assignment found")
        # a value is returned only for the same user key
        uk = origin_pred_call(GET_USER_KEY)
        eq_edges = []
        for c in comparisons(b):
            lo, ro = c.lhs_origins(), c.rhs_origins()
            if uk(lo) and uk(ro):
                eq_edges += [(c.bb, t) for t in (c.true_t if c.op == "eq" else c.false_t if c.op == "ne" else [])]
        for (bb, line) in _ok_some_blocks(b) + nones:
            ok = bool(eq_edges) and b.must_pass(bb, through_edges=eq_edges)
            R.check(rule, fn + "|verdict-only-for-same-user-key", ok, "%s:%s" % (b.file, line),
                    "a value / tombstone verdict is produced only on the edge where the found user key equals the target user key",
                    "user-key eq edges %s" % eq_edges)
    if "table" in what:
        grd7(P, R, L)
    if "version" in what:
        b = P.body(VERSION_GET)
        if b is None:
            R.missing_anchor(rule, VERSION_GET)
        else:
            R.analysed(b)
            sites = normal_sites(b, TABLE_CACHE_GET)
            okall = bool(sites)
            det = []
            for s in sites:
                tests = result_tests(b, s.dest["l"])
                is_err_payload = lambda os_, _s=s: True
                knf = variant_edges(P, b, "tables::errors::ReadError", "KeyNotFound",
                                    lambda os_, _s=s: any(o.kind == "call" and o.name == TABLE_CACHE_GET for o in os_))
                if not knf:
                    okall = False
                    det.append("no KeyNotFound test on the result")
                nexts = [c.bb for c in b.calls() if "Iterator" in (c.name or "") and c.name.endswith("::next") and in_cycle(b, c.bb)]
                for (sb, tg) in knf:
                    r = b.reachable(tg, removed_nodes=nexts)
                    wr = [x for x in r if any(st["k"] == "assign" and st["pl"]["l"] == 0 for st in b.blocks[x]["stmts"])]
                    if wr or any(x in r for x in b.return_blocks()):
                        okall = False
                        det.append("KeyNotFound edge reaches a write of the return place / return before the next file")
                # a miss moves on to the NEXT CANDIDATE OF THE SAME LEVEL (level 0 contributes several overlapping tables, newest
                # first): the KeyNotFound edge reaches the step of the innermost loop around the lookup without passing the
                # step of an enclosing loop first (`break` instead of `continue` skips the older level-0 tables)
                next_sites = [c for c in b.calls() if "Iterator" in (c.name or "") and c.name.endswith("::next") and in_cycle(b, c.bb) and not b.is_cleanup(c.bb)]
                inner = [n_ for n_ in next_sites if n_.target is not None and
                         s.bb in b.reachable(n_.target, removed_nodes=[x.bb for x in next_sites if x is not n_])]
                same_level = bool(knf) and bool(inner)
                for (sb, tg) in knf:
                    if not any(n_.bb in b.reachable(tg, removed_nodes=[x.bb for x in next_sites if x is not n_]) for n_ in inner):
                        same_level = False
                R.check(rule, VERSION_GET + "|a-miss-moves-on-to-the-next-candidate-of-the-level", same_level, s.where(),
                        "from the KeyNotFound edge the step of the innermost candidate loop is reached before the step of the loop over the levels",
                        "loop steps %d, innermost %s" % (len(next_sites), [n_.line for n_ in inner]))
                # any other Err variant ends the search at once (a damaged newer table must not be skipped in favour of an
                # older value further down)
                other_ok = True
                for (sb, tg) in knf:
                    for (_lab, tg2) in b.edges(sb):
                        if tg2 == tg or b.is_cleanup(tg2):
                            continue
                        if b.term(tg2)["k"] == "unreachable":
                            continue
                        if s.bb in b.reachable(tg2):
                            other_ok = False
                R.check(rule, VERSION_GET + "|read-error-ends-search", other_ok and bool(knf), s.where(),
                        "a table read error other than KeyNotFound ends the lookup with that error: no older file is consulted afterwards", "")
            # a verdict from a newer file stops the search
            from ..err import is_drop_glue_switch
            for s in sites:
                bad = False
                for t in result_tests(b, s.dest["l"]):
                    if t.kind == "match" and is_drop_glue_switch(b, t.bb, {s.dest["l"]}):
                        continue
                    for e in t.ok:
                        if s.bb in b.reachable(e):
                            bad = True
                R.check(rule, VERSION_GET + "|verdict-stops-search", not bad, s.where(),
                        "after an Ok verdict (value or tombstone) from a table no older file is consulted", "")
            R.check(rule, VERSION_GET + "|miss-continues-with-next-file", okall, where(b),
                    "Err(KeyNotFound) from a table re-enters the file loop without writing the return place", "; ".join(det))
            # exhausted search: the only Ok written outside the loop carries None... (not found anywhere)
    if "dbget" in what:
        g = P.body(GET)
        if g is None:
            return R.missing_anchor(rule, GET)
        for (u, cb) in unlocked_closures(P, L, g):
            R.analysed(cb)
            ms = [c for c in cb.calls() if (c.declared_name == MEM_GET or c.name == MEM_GET) and not cb.is_cleanup(c.bb)]
            vg = normal_sites(cb, VERSION_GET)
            # classify the memtable lookups by what the receiver is in the parent
            act, imm = [], []
            for c in ms:
                kinds = set()
                for o in origins(cb, c.args[0]):
                    if o.kind == "upvar":
                        for po in upvar_parent_origins(P, cb, o.name):
                            if po.kind == "call" and po.name in (MEMTABLE, LOAD_FULL):
                                kinds.add("active")
                            if "maybe_immutable_memtable" in po.path:
                                kinds.add("imm")
                    elif o.kind == "call" and o.name in (MEMTABLE, LOAD_FULL):
                        kinds.add("active")
                if kinds == {"active"}:
                    act.append(c)
                elif kinds == {"imm"}:
                    imm.append(c)
            ok = len(act) == 1 and len(imm) == 1 and len(vg) == 1
            R.check("ORD-1", GET + "|sources-present", ok, u.where(),
                    "the read path consults the active memtable, the captured immutable memtable and the captured version",
                    "active=%d imm=%d version=%d (of %d memtable lookups)" % (len(act), len(imm), len(vg), len(ms)))
            if not ok:
                continue
            a, i, v = act[0], imm[0], vg[0]
            ok = cb.must_pass(i.bb, through_nodes=[a.bb]) and cb.must_pass(v.bb, through_nodes=[a.bb]) \
                and v.bb not in cb.reachable(0, removed_nodes=[a.bb]) and i.bb not in cb.reachable(v.target)
            R.check("ORD-1", GET + "|newest-first", ok, a.where(),
                    "active memtable lookup dominates the immutable-memtable lookup and Version::get; the immutable memtable is never consulted after the version",
                    "lines active=%s imm=%s version=%s" % (a.line, i.line, v.line))
            # a verdict (value or tombstone) from a newer source stops the search: no older source after an Ok edge
            for c, later, nm in ((a, [i, v], "active"), (i, [v], "imm")):
                from ..err import is_drop_glue_switch
                tests = [t for t in result_tests(cb, c.dest["l"]) if not (t.kind == "match" and is_drop_glue_switch(cb, t.bb, {c.dest["l"]}))]
                bad = []
                for t in tests:
                    for e in t.ok:
                        r = cb.reachable(e)
                        bad += [x.line for x in later if x.bb in r]
                R.check(rule, GET + "|%s-verdict-stops-search" % nm, bool(tests) and not bad, c.where(),
                        "after an Ok verdict (value or tombstone) from the %s memtable no older source is consulted" % nm,
                        "older lookups reachable from the Ok edge at lines %s" % bad if bad else "")
            # a miss in a memtable continues with the next source
            for c, nxt, nm in ((a, [i.bb, v.bb], "active"), (i, [v.bb], "imm")):
                tests = result_tests(cb, c.dest["l"])
                good = bool(tests)
                for t in tests:
                    for e in t.err:
                        if not all(cb.must_pass(r, through_nodes=nxt, start=e) for r in cb.return_blocks()):
                            good = False
                R.check(rule, GET + "|%s-miss-continues" % nm, good, c.where(),
                        "an Err (not found) from the %s memtable lookup always continues to the next source" % nm, "")


def upvar_parent_origins(P, cb, upvar_name):
    """Origins, in the body that constructs closure cb, of the operand captured as `upvar_name`."""
    out = []
    parent = P.bodies.get(cb.direct_parent) or P.bodies.get(cb.parent)
    if parent is None:
        return out
    for bb in parent.blocks:
        for st in bb["stmts"]:
            if st["k"] == "assign" and st["rv"]["k"] == "aggregate" and st["rv"].get("closure") == cb.path:
                fs = st["rv"]["fields"]
                if upvar_name in fs:
                    from ..dataflow import deep_origins
                    out += deep_origins(P, parent, st["rv"]["ops"][fs.index(upvar_name)])
    return out


def grd7(P, R, L, rule="GRD-7"):
    b = P.body(TABLE_GET)
    if b is None:
        return R.missing_anchor(rule, TABLE_GET)
    kmm = normal_sites(b, "tables::filter_block::FilterBlockReader::key_may_match")
    gbr = sites_reaching(P, b, "tables::table::Table::get_block_reader")
    KMM = "tables::filter_block::FilterBlockReader::key_may_match"
    via_closure = []   # (map_or site, closure body, probe site): `maybe_filter.map_or(<no filter>, |f| f.key_may_match(..))`
    if not kmm:
        for c in b.calls():
            if b.is_cleanup(c.bb) or c.name != "std::option::Option::map_or" or len(c.args) != 3:
                continue
            for o in origins(b, c.args[2]):
                cb = P.bodies.get(o.name) if o.kind == "agg" and isinstance(o.name, str) else None
                if cb is None:
                    continue
                direct = [x for x in cb.calls() if not cb.is_cleanup(x.bb) and x.name == KMM and x.dest and x.dest["l"] == 0]
                if direct:
                    R.analysed(cb)
                    via_closure.append((c, cb, direct[0]))
    if (not kmm and not via_closure) or not gbr:
        return R.check(rule, TABLE_GET + "|anchors", False, where(b), "Table::get consults the filter and reads a block", "kmm=%d get_block_reader=%d" % (len(kmm), len(gbr)))
    for (mo, cb, probe) in via_closure:
        # without a usable filter block the lookup must go on to the block: the default is `true`
        dflt = origins(b, mo.args[1])
        okd = bool(dflt) and all(o.kind == "const" and str(o.name) in ("1", "true") for o in dflt)
        R.check(rule, TABLE_GET + "|no-filter-means-may-match", okd, mo.where(),
                "a table without a usable filter block is searched (the `no filter` default of the probe expression is `may match`)",
                "default %s" % [(o.kind, o.name) for o in dflt])
    for k in kmm + [mo for (mo, _, _) in via_closure]:
        tests = _bt(b, k.dest["l"])
        ok = bool(tests)
        det = []
        for t in tests:
            for e in t.err:   # filter says "definitely not"
                r = b.reachable(e)
                if any(g.bb in r for g in gbr):
                    ok = False
                    det.append("block read reachable after a filter miss")
                # must end in Err(KeyNotFound): no Ok written
                for x in r:
                    for st in b.blocks[x]["stmts"]:
                        if st["k"] == "assign" and st["pl"]["l"] == 0 and st["rv"]["k"] == "aggregate" and st["rv"].get("variant") == "Ok":
                            ok = False
                            det.append("Ok written after a filter miss (line %s)" % st["line"])
            for e in t.ok:    # filter says "maybe": must go on to read the block
                if not all(b.must_pass(rb, through_nodes=[g.bb for g in gbr], start=e) for rb in b.return_blocks()):
                    ok = False
                    det.append("a `may match` edge returns without reading the block")
        R.check(rule, TABLE_GET + "|filter-miss-is-not-found", ok, k.where(),
                "a filter miss returns Err(KeyNotFound) (never a verdict); a `may match` always goes on to read the block", "; ".join(det))
        # the probe uses the user key of the lookup key and the handle's offset
        pb, pk = b, k
        for (mo, cb, probe) in via_closure:
            if mo is k:
                pb, pk = cb, probe
        uk_ok = any(o.kind == "call" and o.name == GET_USER_KEY for o in origins(pb, pk.args[2]))
        off_ok = any(o.kind == "call" and o.name == "tables::block_handle::BlockHandle::get_offset" for o in origins(pb, pk.args[1]))
        R.check(rule, TABLE_GET + "|filter-probe-arguments", uk_ok and off_ok, k.where(),
                "the filter is probed with the block handle's offset and the lookup key's user key", "user_key=%s offset=%s" % (uk_ok, off_ok))


# ------------------------------------------------------------------------------------------- ROLE-1 / ACC-1 / PAIR-3
from .. import role  # noqa: E402

ADD_FILE = "versioning::version_manifest::VersionChangeManifest::add_file"
SET_SMALL = "versioning::file_metadata::FileMetadata::set_smallest_key"
SET_LARGE = "versioning::file_metadata::FileMetadata::set_largest_key"
CLONE_RANGE = "versioning::file_metadata::FileMetadata::clone_key_range"


def _range_aggregates(body, op, depth=0):
    """Range{start,end} aggregate statements an operand derives from (through moves)."""
    out = []
    if op["k"] not in ("copy", "move") or depth > 6:
        return out
    for d in body.defs().get(op["pl"]["l"], []):
        if d[0] == "stmt":
            rv = d[3]["rv"]
            if rv["k"] == "aggregate" and (rv.get("adt") or "").endswith("ops::Range") and len(rv["ops"]) == 2:
                out.append(d[3])
            elif rv["k"] == "use":
                out += _range_aggregates(body, rv["ops"][0], depth + 1)
    return out


def role1(P, R, L, rule="ROLE-1"):
    sites = [c for c in P.callers_of(ADD_FILE) if not c.body.is_cleanup(c.bb)]
    R.floor(rule, "add_file call sites in the lib crate", len(sites), 4)
    for c in sites:
        b = c.body
        R.analysed(b)
        R.call_sites += 1
        arg = c.args[4]
        aggs = _range_aggregates(b, arg)
        key = "%s|add_file-range" % b.path
        if aggs:
            for st in aggs:
                cs_, ce = role.colour(b, st["rv"]["ops"][0]), role.colour(b, st["rv"]["ops"][1])
                ok = cs_ in ("SMALL", None) and ce in ("LARGE", None)
                R.check(rule, key, ok, c.where(), "add_file(.., smallest..largest): no LARGE value in the start slot, no SMALL value in the end slot",
                        "start slot colour=%s, end slot colour=%s" % (cs_, ce))
        else:
            os_ = origins(b, arg)
            ok = any(o.kind == "call" and o.name == CLONE_RANGE for o in os_)
            R.check(rule, key, ok, c.where(), "the range comes from a Range literal or FileMetadata::clone_key_range", "origins %s" % sorted({repr(o) for o in os_})[:4])
    # clone_key_range's own literal
    ck = P.body(CLONE_RANGE)
    if ck is None:
        R.missing_anchor(rule, CLONE_RANGE)
    else:
        R.analysed(ck)
        n = 0
        for bb in ck.blocks:
            for st in bb["stmts"]:
                if st["k"] == "assign" and st["rv"]["k"] == "aggregate" and (st["rv"].get("adt") or "").endswith("ops::Range"):
                    n += 1
                    cs_, ce = role.colour(ck, st["rv"]["ops"][0]), role.colour(ck, st["rv"]["ops"][1])
                    R.check(rule, CLONE_RANGE + "|range-literal", cs_ == "SMALL" and ce == "LARGE", where(ck),
                            "clone_key_range returns smallest..largest", "start=%s end=%s" % (cs_, ce))
        if not n:
            R.check(rule, CLONE_RANGE + "|range-literal", False, where(ck), "clone_key_range builds a Range literal", "none found")
    # add_file's own body: range.start -> set_smallest_key, range.end -> set_largest_key
    af = P.body(ADD_FILE)
    if af is None:
        R.missing_anchor(rule, ADD_FILE)
    else:
        R.analysed(af)
        for setter, want in ((SET_SMALL, "SMALL"), (SET_LARGE, "LARGE")):
            ss = normal_sites(af, setter)
            ok = bool(ss) and all(role.colour(af, s.args[1]) == want for s in ss)
            R.check(rule, ADD_FILE + "|%s" % setter.rsplit("::", 1)[1], ok, where(af),
                    "%s receives the %s bound of the range" % (setter.rsplit("::", 1)[1], "start" if want == "SMALL" else "end"),
                    "colours %s" % [role.colour(af, s.args[1]) for s in ss])
    # the two setters write the field they are named after; the two getters read it
    for fn, field in ((SET_SMALL, "smallest_key"), (SET_LARGE, "largest_key"),
                      ("versioning::file_metadata::FileMetadata::smallest_key", "smallest_key"),
                      ("versioning::file_metadata::FileMetadata::largest_key", "largest_key")):
        fb = P.body(fn)
        if fb is None:
            R.missing_anchor(rule, fn)
            continue
        R.analysed(fb)
        touched = set()
        for bb in fb.blocks:
            for st in bb["stmts"]:
                if st["k"] != "assign":
                    continue
                pls = [st["pl"]]
                rv = st["rv"]
                if rv["k"] in ("ref", "rawptr"):
                    pls.append(rv["pl"])
                pls += [o["pl"] for o in rv.get("ops", []) if o["k"] in ("copy", "move")]
                for pl in pls:
                    for e in pl["p"]:
                        if isinstance(e, dict) and e.get("a") == "versioning::file_metadata::FileMetadata":
                            touched.add(e["n"])
        R.check(rule, fn + "|accessor-field", touched == {field}, where(fb), "accessor touches exactly the field `%s`" % field, "touches %s" % sorted(touched))
    role2_codec(P, R, L)


def _dominance_order(body, sites):
    """order call sites so that earlier ones dominate later ones (straight-line codecs); returns None if not a chain"""
    order = sorted(sites, key=lambda c: sum(1 for d in sites if body.dominates(d.bb, c.bb)))
    for i in range(len(order) - 1):
        if not body.dominates(order[i].bb, order[i + 1].bb):
            return None
    return order


def role2_codec(P, R, L, rule="ROLE-2"):
    w = P.body("<std::vec::Vec<u8> as std::convert::From<&versioning::file_metadata::FileMetadata>>::from")
    if w is None:
        # name may be printed differently: search
        for p in P.bodies:
            if "From<&versioning::file_metadata::FileMetadata>" in p and p.endswith("::from"):
                w = P.bodies[p]
    r = P.body("versioning::file_metadata::FileMetadata::deserialize")
    if w is None or r is None:
        return R.missing_anchor(rule, "FileMetadata serializer / deserialize")
    R.analysed(w, r)
    WLS = "utils::io::WriteHelpers::write_length_prefixed_slice"
    RLS = "utils::io::ReadHelpers::read_length_prefixed_slice"
    ws = [c for c in w.calls() if (c.declared_name or "").endswith("write_length_prefixed_slice") and not w.is_cleanup(c.bb)]
    rs = [c for c in r.calls() if (c.declared_name or "").endswith("read_length_prefixed_slice") and not r.is_cleanup(c.bb)]
    wo, ro = _dominance_order(w, ws), _dominance_order(r, rs)
    if not wo or not ro or len(wo) != len(ro) or len(wo) < 2:
        return R.check(rule, "FileMetadata-codec|key-count", False, where(w), "writer and reader handle the same number (2) of keys in a fixed order",
                       "writer keys %d reader keys %d" % (len(ws), len(rs)))
    wcols = [role.colour_of_origins(origins(w, c.args[1], transparent=role.COLOUR_TRANSPARENT | {
        "<std::vec::Vec<u8> as std::convert::From<&key::InternalKey>>::from", "std::convert::From::from"})) for c in wo]
    # reader: where does the k-th slice flow?
    rcols = []
    for c in ro:
        col = None
        for setter, cname in ((SET_SMALL, "SMALL"), (SET_LARGE, "LARGE")):
            for s in normal_sites(r, setter):
                os_ = origins(r, s.args[1], transparent=role.COLOUR_TRANSPARENT | {"std::convert::TryFrom::try_from", "<key::InternalKey as std::convert::TryFrom<&[u8]>>::try_from",
                                                                                 "<key::InternalKey as std::convert::TryFrom<std::vec::Vec<u8>>>::try_from"})
                if any(o.kind == "call" and o.site is not None and o.site.bb == c.bb for o in os_):
                    col = cname
        rcols.append(col)
    R.check(rule, "FileMetadata-codec|key-order", wcols == rcols and wcols == ["SMALL", "LARGE"], where(w),
            "the k-th key written has the role of the setter the k-th key read flows into (smallest, then largest)",
            "writer order %s, reader order %s" % (wcols, rcols))
    # scalar order: file_number then file_size
    WV = "write_varint"
    wv = [c for c in w.calls() if (c.declared_name or "").endswith("write_varint") and not w.is_cleanup(c.bb)]
    rv_ = [c for c in r.calls() if (c.declared_name or "").endswith("read_varint") and not r.is_cleanup(c.bb)]
    wvo, rvo = _dominance_order(w, wv), _dominance_order(r, rv_)
    ok = False
    det = "writer %d reader %d" % (len(wv), len(rv_))
    if wvo and rvo and len(wvo) == len(rvo) == 2:
        wn = [sorted({o.name.rsplit("::", 1)[1] for o in origins(w, c.args[1]) if o.kind == "call"}) for c in wvo]
        rn = []
        for c in rvo:
            sink = None
            for t in r.calls():
                if r.is_cleanup(t.bb):
                    continue
                if t.name in ("versioning::file_metadata::FileMetadata::new", "versioning::file_metadata::FileMetadata::set_file_size"):
                    for a in t.args:
                        if any(o.kind == "call" and o.site is not None and o.site.bb == c.bb for o in origins(r, a)):
                            sink = t.name.rsplit("::", 1)[1]
            rn.append(sink)
        ok = wn == [["file_number"], ["get_file_size"]] and rn == ["new", "set_file_size"]
        det = "writer %s reader %s" % (wn, rn)
    R.check(rule, "FileMetadata-codec|scalar-order", ok, where(w), "file number then file size on both sides", det)


def acc1(P, R, L, rule="ACC-1"):
    n = 0
    for p, b in sorted(P.bodies.items()):
        accs = role.find_accumulators(b)
        if not accs:
            continue
        R.analysed(b)
        for a in accs:
            for (d, ok, how, line) in role.accumulator_guard(b, a):
                n += 1
                R.check(rule, "%s|accumulator-colour=%s" % (p, a.colour), ok,
                        "%s:%s" % (b.file, line or b.line_lo),
                        "an accumulator over %s bounds is replaced only by a candidate that is %s than it" % (
                            "largest" if a.colour == "LARGE" else "smallest", "greater" if a.colour == "LARGE" else "smaller"),
                        "update is %s" % how)
    R.floor(rule, "min/max accumulators over file bounds", n, 7)


def pair3(P, R, L, rule="PAIR-3"):
    ADD_ENTRY = "tables::table_builder::TableBuilder::add_entry"
    CURRENT = "iterator::RainDbIterator::current"
    is_cur = lambda os_: any(o.kind == "call" and (o.name == CURRENT or (o.name or "").endswith("::current")) for o in os_)
    # (a) memtable flush
    b = P.body("db::DB::build_table_from_iterator")
    if b is None:
        R.missing_anchor(rule, "db::DB::build_table_from_iterator")
    else:
        R.analysed(b)
        ae = normal_sites(b, ADD_ENTRY)
        ss = normal_sites(b, SET_SMALL)
        sl = normal_sites(b, SET_LARGE)
        fin = normal_sites(b, "tables::table_builder::TableBuilder::finalize")
        ok = bool(ae) and bool(ss) and bool(sl) and bool(fin)
        det = []
        if ok:
            if not all(in_cycle(b, a.bb) for a in ae):
                ok = False
                det.append("add_entry is not in the loop")
            if not all(is_cur(origins(b, s.args[1])) for s in ss) or not all(b.must_pass(a.bb, through_nodes=[s.bb for s in ss]) for a in ae):
                ok = False
                det.append("smallest key is not taken from the iterator's current entry before the first add_entry")
            if any(in_cycle(b, s.bb) for s in ss):
                ok = False
                det.append("set_smallest_key is inside the loop")
            # largest: the value handed to set_largest_key comes from a local assigned, in the loop, from the same current() entry
            for s in sl:
                rl = roots(b, s.args[1])
                good = False
                for l in rl:
                    for d in b.defs().get(l, []):
                        if d[0] == "stmt" and in_cycle(b, d[1]) and not b.is_cleanup(d[1]):
                            rv = d[3]["rv"]
                            src = rv["ops"][0] if rv.get("ops") else None
                            if src is not None and is_cur(origins(b, src)):
                                # updated on every iteration that adds an entry
                                if all(b.must_pass(a.bb, through_nodes=[d[1]], start=_loop_head(b, a.bb)) or b.dominates(d[1], a.bb) or b.dominates(a.bb, d[1]) for a in ae):
                                    good = True
                if not good:
                    ok = False
                    det.append("set_largest_key's argument is not the per-iteration copy of the key that was added")
                if any(s.bb in b.reachable(0, removed_nodes=[a.bb for a in ae]) and False for a in ae):
                    pass
                if in_cycle(b, s.bb):
                    pass
            if not all(b.must_pass(f.bb, through_nodes=[s.bb for s in sl]) or all(b.must_pass(x, through_nodes=[s.bb for s in sl], start=f.target) for x in _ok_blocks(b)) for f in fin):
                ok = False
                det.append("a successful build can return without set_largest_key")
        R.check(rule, b.path + "|bounds-from-entries-added", ok, where(b),
                "smallest = first entry added, largest = last entry added (taken from the same iterator entries that go into the table)", "; ".join(det))
        # file size recorded after finalize
        fs_ = normal_sites(b, "versioning::file_metadata::FileMetadata::set_file_size")
        ok = bool(fs_) and bool(fin) and all(any(ok_guarded(b, s.bb, f)[0] for f in fin) for s in fs_)
        R.check(rule, b.path + "|size-after-finalize", ok, where(b), "the file size is recorded only over the success edge of TableBuilder::finalize", "")
    # (b) table compaction
    ct = P.body(COMPACT_TABLES)
    cb = None
    if ct is not None:
        for (u, c) in unlocked_closures(P, L, ct):
            if normal_sites(c, ADD_ENTRY):
                cb = c
    if cb is None:
        return R.missing_anchor(rule, "compact_tables merge closure")
    R.analysed(cb)
    ae = normal_sites(cb, ADD_ENTRY)
    ss = normal_sites(cb, SET_SMALL)
    sl = normal_sites(cb, SET_LARGE)
    ok = bool(ae) and bool(ss) and bool(sl)
    det = []
    if ok:
        for a in ae:
            if not cb.must_pass(a.bb, through_nodes=[s.bb for s in sl], start=_loop_head(cb, a.bb)):
                ok = False
                det.append("add_entry reachable in an iteration without set_largest_key")
            ka = {(o.name, o.site.bb if o.site else None) for o in origins(cb, a.args[1], transparent=role.COLOUR_TRANSPARENT | {"std::rc::Rc::new"}) if o.kind == "call"}
            for s in sl + ss:
                ks = {(o.name, o.site.bb if o.site else None) for o in origins(cb, s.args[1], transparent=role.COLOUR_TRANSPARENT) if o.kind == "call"}
                if not (ka & ks):
                    ok = False
                    det.append("%s argument does not come from the entry that is added (line %s)" % (s.name.rsplit("::", 1)[1], s.line))
        # smallest only for the first entry of an output: guarded by get_num_entries() == 0
        ne = origin_pred_call("tables::table_builder::TableBuilder::get_num_entries")
        zero = lambda os_: any(o.kind == "const" and o.name == "0" for o in os_)
        edges = []
        for c in comparisons(cb):
            edges += c.edges_where("eq", ne, zero)
        for s in ss:
            if not edges or not cb.must_pass(s.bb, through_edges=edges):
                ok = False
                det.append("set_smallest_key is not guarded by `get_num_entries() == 0`")
        for a in ae:
            for (sb, tg) in edges:
                if not cb.must_pass(a.bb, through_nodes=[s.bb for s in ss], start=tg):
                    ok = False
                    det.append("first entry of an output can be added without set_smallest_key")
    R.check(rule, cb.path + "|bounds-from-entries-added", ok, where(cb),
            "every add_entry(k) is accompanied by set_largest_key(k); set_smallest_key(k) happens exactly for the first entry of an output",
            "; ".join(sorted(set(det))))


def _ok_blocks(b):
    return [bb for bb in range(b.n) if not b.is_cleanup(bb) for st in b.blocks[bb]["stmts"]
            if st["k"] == "assign" and st["pl"]["l"] == 0 and st["rv"]["k"] == "aggregate" and st["rv"].get("variant") == "Ok"]


def _loop_head(b, bb):
    """a block of the innermost cycle containing bb that dominates bb and is a cycle entry (approximation: the
    dominator of bb closest to the entry that is still in a cycle with bb)"""
    idom = b.dominators()
    x = bb
    head = bb
    while x in idom and x != 0:
        x = idom[x]
        if bb in b.reachable(x) and x in b.reachable(bb):
            head = x
    return head


# ------------------------------------------------------------------------------------------- GRD-2 / ORD-7
SMALLEST_SNAPSHOT = "compaction::state::CompactionState::get_smallest_snapshot"
SEQ_OF_KEY2 = "key::InternalKey::get_sequence_number"
IS_BASE_LEVEL = "compaction::manifest::CompactionManifest::is_base_level_for_key"
STATE_NEW = "compaction::state::CompactionState::new"


def merge_closure(P, L):
    ct = P.body(COMPACT_TABLES)
    if ct is None:
        return None, None
    for (u, c) in unlocked_closures(P, L, ct):
        if normal_sites(c, "tables::table_builder::TableBuilder::add_entry"):
            return ct, c
    return ct, None


def grd2_retention(P, R, L, rule="GRD-2"):
    ct, cb = merge_closure(P, L)
    if cb is None:
        return R.missing_anchor(rule, "compact_tables merge closure")
    R.analysed(cb)
    # the drop flag: a const-assigned bool that steers add_entry
    ae = normal_sites(cb, "tables::table_builder::TableBuilder::add_entry")
    # the decision variable: a named bool (assigned constants, or — written as one boolean expression — constants on the
    # short-circuit paths and the result of is_base_level_for_key on the last one)
    flags = [l for l in range(len(cb.locals)) if cb.local_ty(l) == "bool" and cb.local_name(l) is not None]
    drop_flag = None
    for l in flags:
        tests = _bt(cb, l)
        if tests and all(cb.must_pass(a.bb, through_edges=[e for t in tests for e in t.err_edges()]) for a in ae):
            drop_flag = l
    if drop_flag is None:
        return R.check(rule, cb.path + "|drop-flag", False, where(cb),
                       "add_entry is reachable only when the per-entry drop decision is false", "no constant-assigned bool guards add_entry on its false edge")
    R.check(rule, cb.path + "|drop-flag", True, where(cb), "add_entry is reachable only when the per-entry drop decision is false",
            "flag `%s`" % cb.local_name(drop_flag))
    stores = []
    for bb in range(cb.n):
        if cb.is_cleanup(bb):
            continue
        for st in cb.blocks[bb]["stmts"]:
            if st["k"] == "assign" and st["pl"]["l"] == drop_flag and not st["pl"]["p"]:
                rv = st["rv"]
                if rv["k"] == "use" and rv["ops"][0]["k"] == "const":
                    if rv["ops"][0].get("val") == "1":
                        stores.append((bb, st["line"], "const"))
                else:
                    stores.append((bb, st["line"], "other"))
        t_ = cb.term(bb)
        if t_["k"] == "call" and not t_["dest"]["p"] and t_["dest"]["l"] == drop_flag:
            nm_ = strip_generics(t_.get("resolved") or t_.get("callee") or "")
            stores.append((bb, t_.get("line"), "base" if nm_ == IS_BASE_LEVEL else "other"))
    snap = origin_pred_call(SMALLEST_SNAPSHOT)
    seqk = origin_pred_call(SEQ_OF_KEY2)
    # last_sequence_for_key: a local with a constant def and a def from get_sequence_number
    last_locals = set()
    for l, dl in cb.defs().items():
        has_const = any(d[0] == "stmt" and d[3]["rv"]["k"] == "use" and d[3]["rv"]["ops"][0]["k"] == "const" for d in dl)
        has_seq = any((d[0] == "call" and strip_generics(d[3].get("resolved") or d[3].get("callee")) == SEQ_OF_KEY2) or
                      (d[0] == "stmt" and d[3]["rv"]["k"] == "use" and seqk(origins(cb, d[3]["rv"]["ops"][0]))) for d in dl)
        if has_const and has_seq and cb.local_ty(l) == "u64":
            last_locals.add(l)
    is_last = lambda op: bool(roots(cb, op) & last_locals) if op["k"] in ("copy", "move") else False
    e_hidden, e_seq_le = [], []
    for c in comparisons(cb):
        lo, ro = c.lhs_origins(), c.rhs_origins()
        if snap(ro) and is_last(c.lhs):
            e_hidden += _edges_rel(c, "le", lhs_is_a=True)
        elif snap(lo) and is_last(c.rhs):
            e_hidden += _edges_rel(c, "le", lhs_is_a=False)
        elif snap(ro) and seqk(lo) and not is_last(c.lhs):
            e_seq_le += _edges_rel(c, "le", lhs_is_a=True)
        elif snap(lo) and seqk(ro) and not is_last(c.rhs):
            e_seq_le += _edges_rel(c, "le", lhs_is_a=False)
    # the two drop rules agree at the boundary: a tombstone with `sequence == smallest snapshot` is dropped by the second
    # rule (`<=`) only if the first rule (`last sequence for this key <= smallest snapshot`) drops the entries it hides as
    # well — a strict `<` there keeps the hidden Put while its tombstone goes, and the deleted key comes back
    from ..rules import SWAP as _SW, NEG as _NG
    def _norm(c, lhs_is_a):
        """the relation `a REL snapshot` that holds on the edge leading to the drop (a = lhs or rhs)"""
        op = c.op if lhs_is_a else _SW[c.op]
        return op
    rel_hidden, rel_tomb = set(), set()
    for c in comparisons(cb):
        lo, ro = c.lhs_origins(), c.rhs_origins()
        if snap(ro) and is_last(c.lhs):
            rel_hidden.add(_norm(c, True))
        elif snap(lo) and is_last(c.rhs):
            rel_hidden.add(_norm(c, False))
        elif snap(ro) and seqk(lo) and not is_last(c.lhs):
            rel_tomb.add(_norm(c, True))
        elif snap(lo) and seqk(ro) and not is_last(c.rhs):
            rel_tomb.add(_norm(c, False))
    incl = lambda rels: any(r in ("le", "gt") for r in rels)      # the test separates `<= snapshot` from `> snapshot`
    R.check(rule, cb.path + "|drop-rules-agree-at-the-snapshot-boundary", bool(rel_hidden) and bool(rel_tomb) and (incl(rel_hidden) or not incl(rel_tomb)), where(cb),
            "if a tombstone with `sequence == smallest snapshot` can be dropped, an entry hidden at `last sequence == smallest snapshot` is dropped too "
            "(both rules compare with `<=`)", "hidden rule tests %s, tombstone rule tests %s" % (sorted(rel_hidden), sorted(rel_tomb)))
    e_delete = variant_edges(P, cb, "key::Operation", "Delete", origin_pred_call(GET_OP))
    e_base = []
    for c in normal_sites(cb, IS_BASE_LEVEL):
        for t in _bt(cb, c.dest["l"]):
            e_base += t.ok_edges()
    kinds = {"hidden": 0, "tombstone": 0}
    for (bb, line, how) in stores:
        hidden = how == "const" and bool(e_hidden) and cb.must_pass(bb, through_edges=e_hidden)
        if how == "base":
            # `.. || (is_delete && seq <= smallest && is_base_level(..))`: the flag takes the value of the base-level test itself
            tomb = bool(e_delete) and bool(e_seq_le) and cb.must_pass(bb, through_edges=e_delete) and cb.must_pass(bb, through_edges=e_seq_le)
        else:
            tomb = how == "const" and bool(e_delete) and bool(e_seq_le) and bool(e_base) and cb.must_pass(bb, through_edges=e_delete) and \
                cb.must_pass(bb, through_edges=e_seq_le) and cb.must_pass(bb, through_edges=e_base)
        k = "hidden" if hidden else "tombstone" if tomb else None
        if k:
            kinds[k] += 1
        R.check(rule, cb.path + "|drop-decision", k is not None, "%s:%s" % (cb.file, line),
                "an entry is dropped only if `last sequence for this key <= smallest snapshot`, or it is a Delete with "
                "`sequence <= smallest snapshot` at the base level for its key",
                "guard: %s (hidden-edges %d, delete-edges %d, seq-edges %d, base-edges %d)" % (k, len(e_hidden), len(e_delete), len(e_seq_le), len(e_base)))
    R.check(rule, cb.path + "|both-rules-present", kinds["hidden"] >= 1 and kinds["tombstone"] >= 1, where(cb),
            "both retention rules exist (shadowed entries and obsolete tombstones)", str(kinds))
    # last_sequence_for_key bookkeeping: reset on user-key change, updated from the current key before the iterator advances
    ok_reset = False
    ok_update = False
    for l in last_locals:
        consts_in, consts_out = set(), set()
        for d in cb.defs().get(l, []):
            if d[0] == "stmt" and d[3]["rv"]["k"] == "use" and d[3]["rv"]["ops"][0]["k"] == "const" and not cb.is_cleanup(d[1]):
                (consts_in if in_cycle(cb, d[1]) else consts_out).add(d[3]["rv"]["ops"][0].get("val"))
        # reset inside the loop to the same sentinel it starts with (MAX_SEQUENCE_NUMBER)
        if consts_in and consts_in == consts_out and len(consts_in) == 1:
            ok_reset = True
        upd = [d[1] for d in cb.defs().get(l, []) if in_cycle(cb, d[1]) and (
            (d[0] == "call" and strip_generics(d[3].get("resolved") or d[3].get("callee")) == SEQ_OF_KEY2) or
            (d[0] == "stmt" and d[3]["rv"]["k"] == "use" and d[3]["rv"]["ops"][0]["k"] != "const"))]
        nxt = [c for c in cb.calls() if not cb.is_cleanup(c.bb) and in_cycle(cb, c.bb) and (c.name or "").endswith("::next") and "MergingIterator" in (c.name or "")]
        if upd and nxt and all(cb.must_pass(n.bb, through_nodes=upd, start=_loop_head(cb, n.bb)) for n in nxt):
            ok_update = True
        # the update comes after the decision (the decision must see the previous entry's sequence)
        for (bb, line, _how) in stores:
            if any(bb in cb.reachable(u, stop_nodes=[n.bb for n in nxt]) and bb != u for u in upd):
                ok_update = False
    R.check(rule, cb.path + "|last-sequence-bookkeeping", ok_reset and ok_update, where(cb),
            "last_sequence_for_key is reset to MAX_SEQUENCE_NUMBER inside the loop and set from the current key on every iteration, after the drop decision",
            "reset=%s update=%s" % (ok_reset, ok_update))


def _edges_rel(c, rel, lhs_is_a):
    from ..rules import SWAP, NEG, implies
    op = c.op if lhs_is_a else SWAP[c.op]
    out = []
    if implies(op, rel):
        out += [(c.bb, t) for t in c.true_t]
    if implies(NEG[op], rel):
        out += [(c.bb, t) for t in c.false_t]
    return out


def ord7_smallest_snapshot(P, R, L, rule="ORD-7"):
    ct = P.body(COMPACT_TABLES)
    if ct is None:
        return R.missing_anchor(rule, COMPACT_TABLES)
    R.analysed(ct)
    from ..dataflow import TRANSPARENT
    T2 = TRANSPARENT | {"snapshots::Snapshot::sequence_number", "snapshots::InnerSnapshot::sequence_number"}
    news = normal_sites(ct, STATE_NEW)
    emp = [c for c in ct.calls() if c.name == "snapshots::SnapshotList::is_empty" and not ct.is_cleanup(c.bb)]
    if not news or not emp:
        return R.check(rule, COMPACT_TABLES + "|anchors", False, where(ct), "CompactionState::new and snapshots.is_empty() present",
                       "new=%d is_empty=%d" % (len(news), len(emp)))
    e_empty, e_nonempty = [], []
    for e in emp:
        for t in _bt(ct, e.dest["l"]):
            e_empty += t.ok_edges()
            e_nonempty += t.err_edges()
    seen_kinds = set()

    def _closure_result(op):
        for ao in origins(ct, op):
            cb_ = P.bodies.get(ao.name) if ao.kind == "agg" else None
            if cb_ is not None and cb_.kind == "closure":
                return origins(cb_, {"l": 0, "p": []}, transparent=T2)
        return None

    def _then_else(o):
        """(origins of the value chosen where the snapshot list is empty, ... where it is not) for
        `snapshots.is_empty().then(<closure>).unwrap_or_else(<closure>)`; None for anything else"""
        nm = o.name or ""
        if not (nm.startswith("std::option::Option") and nm.endswith("::unwrap_or_else")) or len(o.site.args) != 2 or o.path:
            return None
        ro = origins(ct, o.site.args[0])
        if len(ro) != 1 or ro[0].kind != "call" or ro[0].site is None or not ((ro[0].name or "").endswith("::then") and "bool" in (ro[0].name or "")):
            return None
        th = ro[0].site
        co = origins(ct, th.args[0])
        if not co or not all(x.kind == "call" and x.name == "snapshots::SnapshotList::is_empty" for x in co):
            return None
        a, b_ = _closure_result(th.args[1]), _closure_result(o.site.args[1])
        return None if a is None or b_ is None else (a, b_)

    for n in news:
        os_ = origins(ct, n.args[1], transparent=T2)
        # each source of the value is judged where it is computed (the value may be selected into a local first)
        ok, req_parts, names = bool(os_), [], set()
        for o in os_:
            if o.kind != "call" or o.site is None:
                ok = False
                names.add("%s:%s" % (o.kind, o.name))
                continue
            names.add(o.name)
            te = _then_else(o)
            if te is not None:
                # `snapshots.is_empty().then(|| last).unwrap_or_else(|| oldest)`: the selection is in the Option, not in the CFG -
                # the closure handed to `then` runs where the list is empty, the one handed to `unwrap_or_else` where it is not
                r_empty, r_nonempty = te
                if r_empty and all(x.kind == "call" and x.name == PREV_SEQ for x in r_empty) and \
                        r_nonempty and all(x.kind == "call" and x.name == "snapshots::SnapshotList::oldest" for x in r_nonempty):
                    seen_kinds |= {"oldest", "last"}
                else:
                    ok = False
                continue
            if o.name == "snapshots::SnapshotList::oldest":
                seen_kinds.add("oldest")
                if not ct.must_pass(o.site.bb, through_edges=e_nonempty):
                    ok = False
            elif o.name == PREV_SEQ:
                seen_kinds.add("last")
                if not ct.must_pass(o.site.bb, through_edges=e_empty):
                    ok = False
            else:
                ok = False
        req = "the smallest snapshot is SnapshotList::oldest() where snapshots are live and get_prev_sequence_number() where there are none"
        R.check(rule, COMPACT_TABLES + "|smallest-snapshot-source", ok, n.where(), req, "origins %s" % sorted(names))
    R.check(rule, COMPACT_TABLES + "|both-sources", seen_kinds == {"oldest", "last"}, where(ct), "both cases are handled", str(sorted(seen_kinds)))
    for n in news:
        R.check(rule, COMPACT_TABLES + "|captured-under-mutex", L.site_state(n) == "held", n.where(),
                "the smallest snapshot is computed while the DB mutex is held", L.site_state(n))
    # SnapshotList::oldest really is the head (smallest sequence) - structural: it reads the list head, newest the tail
    so = P.body("snapshots::SnapshotList::oldest")
    sn = P.body("snapshots::SnapshotList::newest")
    if so is not None and sn is not None:
        R.analysed(so, sn)
        ho = {c.name.rsplit("::", 1)[1] for c in so.calls() if "linked_list" in (c.name or "")}
        hn = {c.name.rsplit("::", 1)[1] for c in sn.calls() if "linked_list" in (c.name or "")}
        R.check(rule, "snapshots::SnapshotList|oldest-vs-newest", ho != hn and bool(ho) and bool(hn), where(so),
                "oldest() and newest() read opposite ends of the snapshot list", "oldest uses %s, newest uses %s" % (sorted(ho), sorted(hn)))
        # snapshots are taken with non-decreasing sequence numbers and appended at the end `oldest()` does not read
        ns = P.body("snapshots::SnapshotList::new_snapshot")
        if ns is None:
            R.missing_anchor(rule, "snapshots::SnapshotList::new_snapshot")
        else:
            R.analysed(ns)
            ps = {c.name.rsplit("::", 1)[1] for c in ns.calls() if "linked_list" in (c.name or "") and "push" in (c.name or "")}
            pair_ok = (ps <= {"push", "push_node"} and ho == {"head"}) or (ps <= {"push_front", "push_node_front"} and ho == {"tail"})
            R.check(rule, "snapshots::SnapshotList|append-end-vs-oldest-end", bool(ps) and pair_ok, where(ns),
                    "new snapshots are appended at the end opposite to the one oldest() reads", "new_snapshot uses %s, oldest uses %s" % (sorted(ps), sorted(ho)))


# ------------------------------------------------------------------------------------------- TS-1 / GRD-6 / ORD-14 / OWN-5 / COV-1
from .. import ts  # noqa: E402

READ_RECORD = "logs::LogReader::read_record"
READ_PHYS = "logs::LogReader::read_physical_record"


def ts1(P, R, L, rule="TS-1"):
    b = P.body(READ_RECORD)
    if b is None:
        return R.missing_anchor(rule, READ_RECORD)
    R.analysed(b)
    res = ts.analyse(P, b)
    R.paths += res["explored"]
    R.extra["ts1"] = {k: v for k, v in res.items() if k != "violations"}
    if not res["buffers"] and "fragment" not in res["return_kinds"]:
        R.check(rule, READ_RECORD + "|anchors", False, where(b), "read_record assembles fragments into a buffer", "no fragment buffer found")
    if res["variant_edges"] < 4 or res["returns_checked"] < 1:
        R.check(rule, READ_RECORD + "|anchors", False, where(b), "read_record examines the four fragment types and returns records",
                "variant edges %d, record returns %d" % (res["variant_edges"], res["returns_checked"]))
    if not res["violations"]:
        R.check(rule, READ_RECORD + "|reassembly", True, where(b),
                "a record is delivered only from a buffer assembled as First Middle* Last, or a single Full fragment",
                "%d product states explored; %d record-returning exits; %d dropped-fragment edges" % (res["explored"], res["returns_checked"], res["dropped_fragment_edges"]))
    seen = set()
    for v in res["violations"]:
        k = READ_RECORD + "|reassembly|state=%s" % v["state"]
        if k in seen:
            continue
        seen.add(k)
        R.check(rule, k, False, "%s:%s" % (b.file, v["line"]),
                "a record is delivered only from a buffer assembled as First Middle* Last, or a single Full fragment", v["detail"])


def grd6(P, R, L, rule="GRD-6"):
    b = P.body(READ_RECORD)
    if b is None:
        return R.missing_anchor(rule, READ_RECORD)
    R.analysed(b)
    # end-of-log returns: Ok((_, true))
    eof_blocks = []
    for bb in range(b.n):
        if b.is_cleanup(bb):
            continue
        for st in b.blocks[bb]["stmts"]:
            if st["k"] == "assign" and st["pl"]["l"] == 0 and st["rv"]["k"] == "aggregate" and st["rv"].get("variant") == "Ok":
                tup = st["rv"]["ops"][0]
                if tup["k"] in ("copy", "move"):
                    for d in b.defs().get(tup["pl"]["l"], []):
                        if d[0] == "stmt" and d[3]["rv"]["k"] == "aggregate" and d[3]["rv"]["ak"] == "tuple" and len(d[3]["rv"]["ops"]) == 2:
                            e = d[3]["rv"]["ops"][1]
                            if e["k"] == "const" and e.get("val") == "1":
                                eof_blocks.append((bb, st["line"]))
                elif tup["k"] == "const" and "true" in (tup.get("text") or ""):
                    eof_blocks.append((bb, st["line"]))
    # edges: ErrorKind::UnexpectedEof of the physical read error; cursor >= len
    kind_src = lambda os_: any(o.kind == "call" and o.name in ("errors::DBIOError::kind", "std::io::Error::kind") for o in os_)
    e_eof = []
    ek = None
    for bb in range(b.n):
        for st in b.blocks[bb]["stmts"]:
            if st["k"] == "assign" and st["rv"]["k"] == "discr" and kind_src(origins(b, st["rv"]["pl"])):
                d = st["pl"]["l"]
                for sb in range(b.n):
                    t = b.term(sb)
                    if t["k"] == "switch" and t["discr"]["k"] in ("copy", "move") and t["discr"]["pl"]["l"] == d:
                        # std::io::ErrorKind is foreign: identify the UnexpectedEof edge as the one whose target writes the eof tuple
                        for v, tg in t["targets"]:
                            e_eof.append((sb, tg, int(v)))
    e_eof_edges = [(sb, tg) for (sb, tg, v) in e_eof]
    for c in comparisons(b):
        is_kind = kind_src
        is_eofk = lambda os_: any((o.kind == "const" and isinstance(o.name, str) and "UnexpectedEof" in o.name) or
                                  (o.kind == "agg" and o.name.endswith("UnexpectedEof")) for o in os_)
        e_eof_edges += c.edges_where("eq", is_kind, is_eofk)
    cur = origin_pred_field("current_cursor_position")
    ln = origin_pred_call("logs::LogReader::len")
    e_len = []
    for c in comparisons(b):
        e_len += c.edges_where("ge", cur, ln)
    R.floor(rule, "end-of-log exits of read_record", len(eof_blocks), 2)
    # every UnexpectedEof from the physical read ends as end-of-log (a torn tail must never fail the open), whatever
    # state the reassembly is in
    only_kind_edges = [(sb, tg) for (sb, tg) in e_eof_edges]
    eofb = [bb for (bb, _) in eof_blocks]
    tail_ok = bool(only_kind_edges)
    for (sb, tg) in only_kind_edges:
        # only the edge that can carry UnexpectedEof: the one from which an eof block is reachable at all
        if not any(x in b.reachable(tg) for x in eofb):
            continue
        if not all(b.must_pass(r, through_nodes=eofb, start=tg) for r in b.return_blocks()):
            tail_ok = False
    R.check(rule, READ_RECORD + "|unexpected-eof-is-always-end-of-log", tail_ok, where(b),
            "from the UnexpectedEof edge of the physical read every path returns end-of-log (never an error, whatever was being reassembled)", "")
    # ... and the kind of an I/O error is examined before anything else decides about the error: no exit (in particular not
    # the `report_damaged_records` one that serves the manifest reader) is reachable from the Err edge of the physical read
    # without passing the ErrorKind test, except over the edge "this is not an I/O error at all"
    phys_sites = [c for c in b.calls() if c.name == READ_PHYS and not b.is_cleanup(c.bb)]
    kind_sw = {sb for (sb, _, _) in e_eof} | {c.bb for c in comparisons(b) if kind_src(c.lhs_origins()) or kind_src(c.rhs_origins())}
    early = []
    for ps in phys_sites:
        tests = result_tests(b, ps.dest["l"])
        test_bbs = {e[0] for t in tests for e in t.err_edges() + t.ok_edges()}
        for t in tests:
            for (src, tg) in t.err_edges():
                # only the test that examines the fresh result (the others are drop-elaboration tests at scope ends)
                if ps.target is None or src not in b.reachable(ps.target, removed_nodes=[x for x in test_bbs if x != src]):
                    continue
                region = b.reachable(tg)
                bypass = []
                for sb in region:
                    tm = b.term(sb)
                    if tm["k"] != "switch" or sb in test_bbs or sb in kind_sw or tm["discr"]["k"] not in ("copy", "move"):
                        continue
                    dl = tm["discr"]["pl"]["l"]
                    is_variant_of_err = any(d[0] == "stmt" and d[3]["rv"]["k"] == "discr" and
                                            any(o.kind == "call" and o.site is not None and o.site.bb == ps.bb for o in origins(b, d[3]["rv"]["pl"]))
                                            for d in b.defs().get(dl, []))
                    if not is_variant_of_err or not (b.reachable(sb, removed_nodes=[ps.bb]) & kind_sw):
                        continue
                    for x in [y[1] for y in tm["targets"]] + ([tm["otherwise"]] if tm.get("otherwise") is not None else []):
                        if not (b.reachable(x, removed_nodes=[ps.bb]) & kind_sw):
                            bypass.append((sb, x))
                for r in b.return_blocks():
                    if r in region and not b.must_pass(r, through_nodes=list(kind_sw) + [ps.bb], through_edges=bypass, start=tg):
                        early.append("a return is reachable from the Err edge of the physical read (line %s) before the ErrorKind test" % ps.line)
                        break
    R.check(rule, READ_RECORD + "|error-kind-examined-before-any-exit", bool(phys_sites) and bool(kind_sw) and not early, where(b),
            "from the Err edge of read_physical_record no return is reachable without passing the ErrorKind test (other than for a non-I/O error): "
            "a torn tail is end-of-log for the manifest reader too", "; ".join(early) or "kind tests at bb%s" % sorted(kind_sw))
    # the cursor-at-length exit is the one taken BEFORE anything was read in this call; once a physical read was attempted only its
    # UnexpectedEof may end the log (a fragment that fails to parse and happens to end at the file length is damage, not a torn tail)
    after_read = set()
    for ps in phys_sites:
        if ps.target is not None:
            after_read |= b.reachable(ps.target)
    for (bb, line) in eof_blocks:
        by_kind = bool(e_eof_edges) and b.must_pass(bb, through_edges=e_eof_edges)
        by_len = bool(e_len) and b.must_pass(bb, through_edges=e_len) and bb not in after_read
        ok = by_kind or by_len
        R.check(rule, READ_RECORD + "|eof-only-when-file-ends", ok, "%s:%s" % (b.file, line),
                "end-of-log is reported only for ErrorKind::UnexpectedEof from the physical read, or - before anything was read - when the cursor reached the file length",
                "kind-edges %d, len-edges %d, behind a physical read: %s" % (len(e_eof_edges), len(e_len), bb in after_read))
    # the UnexpectedEof edge must lead to the eof return (torn tail => open proceeds), not to an error
    pr = P.body(READ_PHYS)
    if pr is None:
        return R.missing_anchor(rule, READ_PHYS)
    R.analysed(pr)
    reads = [c for c in pr.calls() if (c.declared_name or c.name or "").endswith("Read::read") and not pr.is_cleanup(c.bb)]
    parse = [c for c in pr.calls() if not pr.is_cleanup(c.bb) and "BlockRecord" in (c.name or "") and (c.name or "").endswith("try_from")]
    if not parse:
        parse = [c for c in pr.calls() if not pr.is_cleanup(c.bb) and (c.declared_name or "") == "std::convert::TryFrom::try_from"]
    e_short, e_full = [], []
    is_read = lambda os_: any(o.kind == "call" and (o.name or "").endswith("Read::read") for o in os_)
    for c in comparisons(pr):
        if is_read(c.lhs_origins()) and not is_read(c.rhs_origins()):
            e_short += _edges_rel(c, "lt", True)
            e_full += _edges_rel(c, "ge", True)
        elif is_read(c.rhs_origins()) and not is_read(c.lhs_origins()):
            e_short += _edges_rel(c, "lt", False)
            e_full += _edges_rel(c, "ge", False)
    R.check(rule, READ_PHYS + "|short-read-tests", len(reads) >= 2 and len(e_short) >= 2, where(pr),
            "both raw reads (header, payload) are followed by a `bytes read < expected` test", "reads=%d short-edges=%d" % (len(reads), len(e_short)))
    # on the short edge an UnexpectedEof error is constructed and returned; parsing needs the full edges
    for (sb, tg) in e_short:
        r = pr.reachable(tg)
        is_eof_kind = lambda body, op: any((o.kind == "const" and isinstance(o.name, str) and "UnexpectedEof" in o.name) or
                                           (o.kind == "agg" and (o.name or "").endswith("UnexpectedEof")) for o in origins(body, op))
        mk = [c for c in pr.calls() if c.bb in r and c.name == "errors::DBIOError::new" and not pr.is_cleanup(c.bb)]
        ok = bool(mk) and all(is_eof_kind(pr, m.args[0]) for m in mk)
        if not mk:
            # the error may be built by a private helper: every DBIOError::new in it must be given UnexpectedEof
            for c in pr.calls():
                h = P.bodies.get(c.t.get("resolved") or "")
                if c.bb not in r or pr.is_cleanup(c.bb) or h is None or c.t.get("dyn") or not c.t.get("local"):
                    continue
                hm = [x for x in h.calls() if not h.is_cleanup(x.bb) and x.name == "errors::DBIOError::new"]
                if hm:
                    R.analysed(h)
                    ok = all(is_eof_kind(h, x.args[0]) for x in hm)
        ok = ok and not any(p.bb in r for p in parse)
        R.check(rule, READ_PHYS + "|short-read-is-unexpected-eof", ok, pr.where(sb),
                "a short header/payload read returns an UnexpectedEof error (mapped to end-of-log) and never reaches the parser", "")
    for p_ in parse:
        n_short_tests = len({sb for (sb, _) in e_short})
        ok = n_short_tests >= 2 and all(pr.must_pass(p_.bb, through_edges=[(s, t) for (s, t) in e_full if s == sb]) for sb in {sb for (sb, _) in e_short})
        R.check(rule, READ_PHYS + "|parse-only-full-fragment", ok, p_.where(),
                "BlockRecord::try_from is reached only when header and payload were read completely", "")
    # a fragment that was read and parsed is delivered: nothing that can fail on a file ending inside the block trailer
    # (a further read whose error is simply propagated) lies between the parser and the return -- the trailer is skipped
    # lazily, before the *next* header, so a log whose last record ends 1..6 bytes before a block boundary keeps it
    late = []
    # ... nor between the complete read of the fragment's payload (the last read in front of the parser) and the parser
    starts = list(parse)
    for p_ in parse:
        before = [r_ for r_ in reads if r_.target is not None and pr.dominates(r_.bb, p_.bb) and r_.bb != p_.bb]
        last = [r_ for r_ in before if not any(o is not r_ and o.bb in pr.reachable(r_.target) for o in before)]
        starts += last
    for p_ in starts:
        after = pr.reachable(p_.target) if p_.target is not None else set()
        for c in pr.calls():
            if c.bb == p_.bb:
                continue
            nm = c.declared_name or c.name or ""
            if c.bb not in after or pr.is_cleanup(c.bb) or not (nm.endswith("Read::read") or nm.endswith("Read::read_exact")):
                continue
            tolerant = False
            for t in result_tests(pr, c.dest["l"]) if c.dest else []:
                for e in t.err_edges():
                    rr_ = pr.reachable(e[1])
                    if any((x.name or "").endswith("Error::kind") for x in pr.calls() if x.bb in rr_):
                        tolerant = True
            if not tolerant:
                late.append("line %s" % c.line)
    R.check(rule, READ_PHYS + "|parsed-fragment-is-returned", bool(parse) and not late, where(pr),
            "no file read whose failure is propagated follows the successful parse of a fragment (the block trailer is skipped before "
            "the next header read, not after the record)", "; ".join(late) or "parse sites %d" % len(parse))


def ord14(P, R, L, rule="ORD-14"):
    # (a) table blocks
    rb = P.body("tables::table::Table::read_block_from_disk")
    if rb is None:
        R.missing_anchor(rule, "Table::read_block_from_disk")
    else:
        R.analysed(rb)
        stored = origin_pred_call("utils::crc::unmask_checksum")
        calc = lambda os_: any(o.kind == "call" and (o.name or "").startswith("crc::") and (o.name or "").endswith("checksum") for o in os_)
        eq = []
        for c in comparisons(rb):
            eq += c.edges_where("eq", stored, calc)
        oks = _ok_blocks(rb)
        parsers = [c for c in rb.calls() if not rb.is_cleanup(c.bb) and (
            (c.name or "").startswith("snap::") or (c.declared_name or "").endswith("TryInto<U>>::try_into") or (c.name or "").endswith("try_into")
            or (c.name or "") == "std::io::Read::read_to_end")]
        ok = bool(eq) and bool(oks) and all(rb.must_pass(x, through_edges=eq) for x in oks) and all(rb.must_pass(c.bb, through_edges=eq) for c in parsers)
        R.check(rule, rb.path + "|checksum-before-use", ok, where(rb),
                "every `return Ok` and every interpretation of the block (compression byte, decompression) lies behind the equal edge of stored vs computed checksum",
                "eq-edges %s, Ok blocks %d, parser sites %d" % (eq, len(oks), len(parsers)))
        # the checksum is computed over contents + compression byte: the slice handed to checksum ends where the stored checksum starts
        # short read check
        rf = [c for c in rb.calls() if (c.declared_name or "").endswith("ReadonlyRandomAccessFile::read_from") and not rb.is_cleanup(c.bb)]
        ne_edges = []
        for c in comparisons(rb):
            is_rf = lambda os_: any(o.kind == "call" and (o.name or "").endswith("read_from") for o in os_)
            if is_rf(c.lhs_origins()) or is_rf(c.rhs_origins()):
                ne_edges += [(c.bb, t) for t in (c.false_t if c.op == "ne" else c.true_t if c.op == "eq" else [])]
        ok = bool(rf) and bool(ne_edges) and all(rb.must_pass(x, through_edges=ne_edges) for x in oks)
        R.check(rule, rb.path + "|short-read-rejected", ok, where(rb), "a block is used only when the full block + descriptor was read", "")
    # (b) log fragments
    tf = None
    for p in P.bodies:
        if "logs::BlockRecord" in p and "TryFrom" in p and p.endswith("::try_from"):
            tf = P.bodies[p]
    if tf is None:
        R.missing_anchor(rule, "<BlockRecord as TryFrom<&Vec<u8>>>::try_from")
    else:
        R.analysed(tf)
        stored = origin_pred_call("utils::crc::unmask_checksum")
        calc = lambda os_: any(o.kind == "call" and (o.name or "").startswith("crc::") and (o.name or "").endswith("checksum") for o in os_)
        eq = []
        for c in comparisons(tf):
            eq += c.edges_where("eq", stored, calc)
        oks = _ok_blocks(tf)
        # Ok may also be written by a call (Ok(BlockRecord::new(..)) is an aggregate) - handled by _ok_blocks
        ok = bool(eq) and bool(oks) and all(tf.must_pass(x, through_edges=eq) for x in oks)
        R.check(rule, tf.path + "|checksum-before-ok", ok, where(tf),
                "a log fragment is accepted only over the equal edge of stored vs computed CRC", "eq-edges %s, Ok blocks %d" % (eq, len(oks)))
    # (c) footer magic
    ft = None
    for p in P.bodies:
        if p.startswith("<tables::footer::Footer as std::convert::TryFrom<") and p.endswith("::try_from"):
            ft = P.bodies[p]
    if ft is None:
        R.missing_anchor(rule, "<Footer as TryFrom>::try_from")
    else:
        R.analysed(ft)
        dec = [c for c in ft.calls() if not ft.is_cleanup(c.bb) and "BlockHandle" in (c.name or "") and ("try_from" in (c.name or "") or "deserialize" in (c.name or ""))]
        magic_edges = []
        dec_fixed = lambda os_: any(o.kind == "call" and (o.name or "").endswith("decode_fixed") for o in os_)
        konst = lambda os_: any(o.kind == "const" for o in os_)
        for c in comparisons(ft):
            magic_edges += c.edges_where("eq", dec_fixed, konst)
        oks = _ok_blocks(ft)
        ok = bool(magic_edges) and bool(oks) and all(ft.must_pass(x, through_edges=magic_edges) for x in oks) and \
            all(ft.must_pass(d.bb, through_edges=magic_edges) for d in dec)
        R.check(rule, ft.path + "|magic-before-ok", ok, where(ft), "a footer is accepted (and its handles decoded) only over the equal edge of the magic-number test",
                "magic-edges %s, Ok blocks %d, handle decoders %d" % (magic_edges, len(oks), len(dec)))


def own5(P, R, L, rule="OWN-5"):
    RB = "tables::table::Table::read_block_from_disk"
    # who reads raw bytes of table files
    rf = [c for c in P.callers_of(lambda c: (c.declared_name or "").endswith("ReadonlyRandomAccessFile::read_from")) if not c.body.is_cleanup(c.bb)]
    tbl = [c for c in rf if c.body.file.startswith("src/tables/")]
    for c in tbl:
        ok = c.body.path in ("tables::table::Table::open", RB)
        R.check(rule, "%s|reads-table-bytes" % c.body.path, ok, c.where(), "raw table bytes are read only by Table::open (footer) and read_block_from_disk", c.body.path)
    R.floor(rule, "raw table read sites", len(tbl), 2)
    # block parsers are fed only by read_block_from_disk
    for ctor in ("tables::block::BlockReader::new", "tables::filter_block::FilterBlockReader::new"):
        sites = [c for c in P.callers_of(ctor) if not c.body.is_cleanup(c.bb)]
        for c in sites:
            argi = 0 if ctor.endswith("BlockReader::new") and "filter" not in ctor else 1
            os_ = origins(c.body, c.args[argi])
            ok = bool(os_) and all(o.kind == "call" and o.name == RB for o in os_)
            R.check(rule, "%s|feeds-%s" % (c.body.path, ctor.rsplit("::", 2)[1]), ok, c.where(),
                    "%s receives only bytes returned by read_block_from_disk (checksum verified)" % ctor, "origins %s" % sorted({repr(o) for o in os_})[:4])
        R.floor(rule, "%s call sites" % ctor, len(sites), 1)


def cov1(P, R, L, rule="COV-1"):
    """writer side: the bytes handed to the CRC data-depend on every header byte that steers parsing"""
    tb = P.body("tables::table_builder::TableBuilder::emit_block_to_disk")
    if tb is None:
        R.missing_anchor(rule, "TableBuilder::emit_block_to_disk")
    else:
        R.analysed(tb)
        cs = [c for c in tb.calls() if not tb.is_cleanup(c.bb) and (c.name or "").startswith("crc::")]
        # the digest must be updated with the contents and with the compression type byte
        upd = [c for c in cs if (c.name or "").endswith("update")]
        whole = [c for c in cs if (c.name or "").endswith("checksum")]
        ok = len(upd) >= 2 or bool(whole)
        R.check(rule, tb.path + "|crc-covers-contents-and-type", ok, where(tb),
                "the table block checksum is computed over the block contents and the compression-type byte", "crc calls %s" % [c.name for c in cs])
    bn = P.body("logs::BlockRecord::new")
    if bn is None:
        return R.missing_anchor(rule, "logs::BlockRecord::new")
    R.analysed(bn)
    cs = [c for c in bn.calls() if not bn.is_cleanup(c.bb) and (c.name or "").startswith("crc::") and (c.name or "").endswith("checksum")]
    covered = set()
    for c in cs:
        for a in c.args[1:]:
            for o in origins(bn, a):
                if o.kind == "param":
                    covered.add(o.name)
    # params: 1 = length, 2 = block_type, 3 = data
    names = {1: "length", 2: "block_type", 3: "data"}
    uncovered = [names[i] for i in (1, 2, 3) if i not in covered]
    R.check(rule, "logs::BlockRecord::new|uncovered=%s" % ",".join(uncovered), not uncovered, where(bn),
            "the fragment checksum covers the payload and the header bytes that steer reassembly (type, length)",
            "checksum input derives from parameters %s; not covered: %s" % (sorted(names[i] for i in covered), uncovered))


# ------------------------------------------------------------------------------------------- ROLE-3 level roles / PAIR-6 group membership / cache eviction
REMOVE_FILE_EDIT = "versioning::version_manifest::VersionChangeManifest::remove_file"
LEVEL_FN = "compaction::manifest::CompactionManifest::level"


def level_expr(body, op, depth=0):
    """classify an operand as `level + k`: returns ('level', k) | ('level+var', None) | None"""
    if op["k"] == "const":
        return None
    os_ = origins(body, op)
    base = any((o.kind == "call" and o.name == LEVEL_FN) or ("level" in o.path) for o in os_)
    if base and all(o.kind != "binop" for o in os_):
        return ("level", 0)
    for o in os_:
        if o.kind == "binop" and o.name in ("Add", "AddWithOverflow", "AddUnchecked") and o.extra:
            st = o.extra[1]
            a, b_ = st["rv"]["ops"]
            for x, y in ((a, b_), (b_, a)):
                lx = level_expr(body, x, depth + 1) if depth < 3 else None
                if lx and lx[0] == "level" and lx[1] == 0:
                    if y["k"] == "const" and y.get("val") is not None:
                        return ("level", int(y["val"]))
                    return ("level+var", None)
    return None


def role3_levels(P, R, L, rule="ROLE-3"):
    # compaction outputs go to level+1
    fv = P.body("compaction::state::CompactionState::finalize_version_manifest")
    if fv is None:
        R.missing_anchor(rule, "CompactionState::finalize_version_manifest")
    else:
        R.analysed(fv)
        af = normal_sites(fv, ADD_FILE)
        ok = bool(af) and all(level_expr(fv, a.args[1]) == ("level", 1) for a in af)
        dl = sites_reaching(P, fv, "compaction::manifest::CompactionManifest::add_input_deletions")
        R.check(rule, fv.path + "|outputs-at-parent-level", ok and bool(dl), where(fv),
                "compaction outputs are added at level()+1 and the inputs are recorded as deletions",
                "add_file level exprs %s; add_input_deletions sites %d" % ([level_expr(fv, a.args[1]) for a in af], len(dl)))
    ad = P.body("compaction::manifest::CompactionManifest::add_input_deletions")
    if ad is None:
        R.missing_anchor(rule, "CompactionManifest::add_input_deletions")
    else:
        R.analysed(ad)
        rm = normal_sites(ad, REMOVE_FILE_EDIT)
        ex = [level_expr(ad, r.args[1]) for r in rm]
        ok = bool(rm) and all(e == ("level+var", None) for e in ex) and all(in_cycle(ad, r.bb) for r in rm) and \
            bool(field_reads(ad, "input_files"))
        R.check(rule, ad.path + "|both-input-levels-deleted", ok, where(ad),
                "every file of both input levels (level + index over input_files) is recorded as deleted", "remove_file level exprs %s" % ex)
    tm = P.body("compaction::manifest::CompactionManifest::set_change_manifest_for_trivial_move")
    if tm is None:
        R.missing_anchor(rule, "CompactionManifest::set_change_manifest_for_trivial_move")
    else:
        R.analysed(tm)
        rm = normal_sites(tm, REMOVE_FILE_EDIT)
        af = normal_sites(tm, ADD_FILE)
        ok = len(rm) == 1 and len(af) == 1 and level_expr(tm, rm[0].args[1]) == ("level", 0) and level_expr(tm, af[0].args[1]) == ("level", 1)
        same = False
        if ok:
            n1 = {(o.name, o.site.bb if o.site else None) for o in origins(tm, rm[0].args[2]) if o.kind == "call"}
            n2 = {(o.name, o.site.bb if o.site else None) for o in origins(tm, af[0].args[2]) if o.kind == "call"}
            same = any(n[0].endswith("file_number") for n in n1) and any(n[0].endswith("file_number") for n in n2)
        R.check(rule, tm.path + "|move-level-to-parent", ok and same, where(tm),
                "a trivial move deletes the file at `level` and adds the same file number at `level + 1`",
                "remove %s add %s" % ([level_expr(tm, r.args[1]) for r in rm], [level_expr(tm, a.args[1]) for a in af]))
    # flush output level: add_file level is 0 or the level picked by pick_level_for_memtable_output
    cv = P.body(CONVERT)
    if cv is not None:
        R.analysed(cv)
        for a in normal_sites(cv, ADD_FILE):
            os_ = origins(cv, a.args[1])
            names = {o.name for o in os_ if o.kind in ("call", "const")}
            ok = names <= {"0", "versioning::version::Version::pick_level_for_memtable_output"} and bool(names)
            R.check(rule, CONVERT + "|flush-output-level", ok, a.where(),
                    "a flushed memtable goes to level 0 or to the level chosen by pick_level_for_memtable_output", "level origins %s" % sorted(names))


def pair6_group_membership(P, R, L, rule="PAIR-6"):
    b = P.body("db::DB::build_group_commit_batch")
    if b is None:
        return R.missing_anchor(rule, "db::DB::build_group_commit_batch")
    R.analysed(b)
    apps = [c for c in normal_sites(b, "batch::Batch::append_batch")]
    loop_apps = [c for c in apps if in_cycle(b, c.bb)]
    # last_writer: the local whose clone is returned as the second tuple element
    ret_locals = set()
    for bb in range(b.n):
        for st in b.blocks[bb]["stmts"]:
            if st["k"] == "assign" and st["rv"]["k"] == "aggregate" and st["rv"]["ak"] == "tuple" and len(st["rv"]["ops"]) == 2 and not b.is_cleanup(bb):
                ret_locals |= roots(b, st["rv"]["ops"][1])
    cand = [l for l in ret_locals if b.local_name(l) is not None and len(b.defs().get(l, [])) >= 2]
    if not cand or not loop_apps:
        return R.check(rule, b.path + "|anchors", False, where(b), "the group builder tracks the last writer of the group and appends batches in a loop",
                       "last-writer locals %s, loop append sites %d" % (cand, len(loop_apps)))
    lw = cand[0]
    nobatch_edges = []
    for c in b.calls():
        if c.name == "std::option::Option::is_none" and in_cycle(b, c.bb) and not b.is_cleanup(c.bb):
            if any(o.kind == "call" and o.name == "writers::Writer::maybe_batch" for o in origins(b, c.args[0])):
                for t in _bt(b, c.dest["l"]):
                    nobatch_edges += t.ok_edges()
    ok = True
    det = []
    for d in b.defs().get(lw, []):
        if b.is_cleanup(d[1]) or not in_cycle(b, d[1]):
            continue
        head = _loop_head(b, d[1])
        with_append = b.must_pass(d[1], through_nodes=[a.bb for a in loop_apps], start=head)
        no_batch = bool(nobatch_edges) and b.must_pass(d[1], through_edges=nobatch_edges, start=head)
        if not (with_append or no_batch):
            ok = False
            det.append("line %s: a writer becomes the group's last writer without its batch having been appended" % (d[3].get("line") if d[0] == "stmt" else d[3].get("line")))
    # the size check comes before the append
    R.check(rule, b.path + "|last-writer-only-if-included", ok, where(b),
            "inside the grouping loop a writer becomes `last_writer` only after its batch was appended (or it carries no batch)", "; ".join(det))
    # the leader's own batch is appended before the loop
    first_apps = [c for c in apps if not in_cycle(b, c.bb)]
    R.check(rule, b.path + "|leader-batch-included", bool(first_apps), where(b), "the leader's own batch is appended before the grouping loop", "sites %d" % len(first_apps))


def cache_eviction(P, R, L, rule="GRD-5"):
    b = P.body(REMOVE_OBSOLETE)
    if b is None:
        return R.missing_anchor(rule, REMOVE_OBSOLETE)
    ev = normal_sites(b, "table_cache::TableCache::remove")
    pushes = [c for c in normal_sites(b, "std::vec::Vec::push") if "PathBuf" in " ".join(c.t.get("substs") or [])]
    # the push that is dominated by a TableFile variant test: approximate by "some push is dominated by the eviction"
    ok = bool(ev) and any(b.must_pass(p.bb, through_nodes=[e.bb for e in ev]) for p in pushes)
    R.check(rule, REMOVE_OBSOLETE + "|evict-before-delete", ok, where(b),
            "a table file queued for deletion is evicted from the table cache first (a reused file number must not serve a stale table)",
            "evictions %d" % len(ev))


# ------------------------------------------------------------------------------------------- ERR-2 iterator status consulted
GET_ERROR = "versioning::file_iterators::MergingIterator::get_error"


def err2_iterator_status(P, R, L, rule="ERR-2"):
    """The merging iterator stores child read errors (a table that cannot be opened looks like an empty input).
    Before the results of a merge are installed, every path must consult MergingIterator::get_error."""
    ct = P.body(COMPACT_TABLES)
    if ct is None:
        return R.missing_anchor(rule, COMPACT_TABLES)
    R.analysed(ct)
    inst = sites_reaching(P, ct, INSTALL)
    merges = [u for (u, cb) in unlocked_closures(P, L, ct) if normal_sites(cb, "tables::table_builder::TableBuilder::add_entry")]
    status = sites_reaching(P, ct, GET_ERROR)
    status = [s for s in status if s not in merges]
    if not inst or not merges:
        return R.check(rule, COMPACT_TABLES + "|anchors", False, where(ct), "compact_tables runs a merge section and installs its results",
                       "install sites %d merge sections %d" % (len(inst), len(merges)))
    # the iterator exists only on the Ok edge of the merge section's result
    starts = []
    for m in merges:
        for t in result_tests(ct, m.dest["l"]):
            starts += t.ok
    for i in inst:
        ok = bool(status) and bool(starts) and all(ct.must_pass_fs(i.bb, through_nodes=[s.bb for s in status], start=st_) for st_ in starts)
        R.check(rule, COMPACT_TABLES + "|iterator-status-before-install", ok, i.where(),
                "every path from the end of the merge to install_compaction_results consults the merging iterator's stored error "
                "(a compaction input that failed to open must not be treated as empty and deleted)",
                "status sites at lines %s" % [s.line for s in status])
    fin = P.body("compaction::state::CompactionState::finish_compaction_output_file")
    if fin is not None:
        R.analysed(fin)
        ge = normal_sites(fin, GET_ERROR)
        fz = sites_reaching(P, fin, "tables::table_builder::TableBuilder::finalize")
        ok = bool(ge) and all(fin.must_pass(f.bb, through_nodes=[g.bb for g in ge]) for f in fz)
        R.check(rule, fin.path + "|iterator-status-before-finalize", ok, where(fin),
                "an output table is finalized only after the input iterator's stored error was consulted", "")


# ------------------------------------------------------------------------------------------- GRD-10 closed-interval bounds
def grd10_closed_intervals(P, R, L, rule="GRD-10"):
    """File key ranges are closed intervals [smallest, largest]. Every ordering comparison between a user key X and a
    file's bound user key must therefore be `X < smallest` / `X >= smallest` or `X > largest` / `X <= largest`
    (a comparison and its complement); `X <= smallest`, `X > smallest`, `X >= largest`, `X < largest` put the
    boundary key on the wrong side. Sibling sites agree on this everywhere in the crate (contradiction rule)."""
    from ..rules import SWAP
    UK = GET_USER_KEY
    T = role.COLOUR_TRANSPARENT - {UK}
    allowed = {"SMALL": {"lt", "ge"}, "LARGE": {"gt", "le"}}
    n = 0
    for p, b in sorted(P.bodies.items()):
        cmps = [c for c in comparisons(b) if c.op not in ("eq", "ne")]
        if not cmps:
            continue
        for c in cmps:
            lu = any(o.kind == "call" and o.name == UK for o in origins(b, c.lhs, transparent=T))
            ru = any(o.kind == "call" and o.name == UK for o in origins(b, c.rhs, transparent=T))
            if not (lu or ru):
                continue
            lc, rc = role.colour(b, c.lhs), role.colour(b, c.rhs)
            views = []
            if rc in allowed:
                views.append(c.op in allowed[rc])              # X = lhs, bound = rhs : lhs op rhs
            if lc in allowed:
                views.append(SWAP[c.op] in allowed[lc])        # X = rhs, bound = lhs : rhs swap(op) lhs
            if not views:
                continue
            n += 1
            R.analysed(b)
            R.check(rule, "%s|bound-comparison" % p, any(views), "%s:%s" % (b.file, c.line),
                    "a user key is compared with a file bound as a closed interval (X < smallest | X >= smallest | X > largest | X <= largest)",
                    "`lhs %s rhs` with lhs colour %s, rhs colour %s" % (c.op, lc, rc))
    R.floor(rule, "user-key vs file-bound comparisons", n, 11)


# ------------------------------------------------------------------------------------------- ORD-8b sequence range of the group / ORD-17 manual slot
def ord8b_sequence_range(P, R, L, rule="ORD-8b"):
    """The published sequence is prev + len(the merged batch), the batch's starting sequence is prev + 1, and it is that
    same batch that is logged and applied."""
    b = P.body(APPLY)
    if b is None:
        return R.missing_anchor(rule, APPLY)
    R.analysed(b)
    pubs = normal_sites(b, SET_PREV_SEQ)
    starts = normal_sites(b, "batch::Batch::set_starting_seq_number")
    ucs = [(u, cb) for (u, cb) in unlocked_closures(P, L, b) if P.fn_reaches(cb.path, [APPLY_BATCH])]
    if not (pubs and starts and ucs):
        return R.check(rule, APPLY + "|anchors", False, where(b), "publication, starting sequence and the WAL+memtable section exist", "")
    # the batch captured by the section
    captured = set()
    for bb in b.blocks:
        for st in bb["stmts"]:
            if st["k"] == "assign" and st["rv"]["k"] == "aggregate" and st["rv"].get("closure") in [cb.path for (_, cb) in ucs]:
                for nm, op in zip(st["rv"]["fields"], st["rv"]["ops"]):
                    if op["k"] in ("copy", "move") and "Batch" in b.local_ty(op["pl"]["l"]):
                        captured |= roots(b, op)
    batch_roots = {l for l in captured if "batch::Batch" in b.local_ty(l) and not b.local_ty(l).startswith("&")}
    ok = bool(batch_roots)
    det = []
    for p_ in pubs:
        good = False
        for o in origins(b, p_.args[1]):
            if o.kind == "binop" and o.name.startswith("Add") and o.extra:
                ops = o.extra[1]["rv"]["ops"]
                sides = [origins(b, x) for x in ops]
                has_prev = any(any(y.kind == "call" and y.name == PREV_SEQ for y in s_) for s_ in sides)
                lens = [y for s_ in sides for y in s_ if y.kind == "call" and y.name == "batch::Batch::len"]
                same = any(roots(b, y.site.args[0]) & batch_roots for y in lens if y.site is not None)
                if has_prev and same:
                    good = True
        if not good:
            ok = False
            det.append("the published value is not get_prev_sequence_number() + len(the batch that is logged and applied)")
    for s in starts:
        if not (roots(b, s.args[0]) & batch_roots):
            ok = False
            det.append("set_starting_seq_number is applied to a different batch than the one logged")
        good = False
        for o in origins(b, s.args[1]):
            if o.kind == "binop" and o.name.startswith("Add") and o.extra:
                ops = o.extra[1]["rv"]["ops"]
                sides = [origins(b, x) for x in ops]
                if any(any(y.kind == "call" and y.name == PREV_SEQ for y in s_) for s_ in sides) and \
                        any(any(y.kind == "const" and y.name == "1" for y in s_) for s_ in sides):
                    good = True
        if not good:
            ok = False
            det.append("the starting sequence is not get_prev_sequence_number() + 1")
    # inside the section: the appended bytes and the applied batch are the captured batch
    for (u, cb) in ucs:
        for c in normal_sites(cb, APPLY_BATCH):
            if not any(o.kind == "upvar" for o in origins(cb, c.args[1])):
                ok = False
                det.append("apply_batch_to_memtable is not given the captured batch")
        for c in sites_reaching(P, cb, LOG_APPEND):
            if c.name == LOG_APPEND and not any(o.kind == "upvar" for o in origins(cb, c.args[1], transparent=__import__("rdbcheck.dataflow", fromlist=["x"]).TRANSPARENT | {
                    "<std::vec::Vec<u8> as std::convert::From<&batch::Batch>>::from", "std::convert::From::from"})):
                ok = False
                det.append("the WAL record is not the serialisation of the captured batch")
    R.check(rule, APPLY + "|sequence-range-of-group", ok, where(b),
            "the group is numbered prev+1 .. prev+len(group) and exactly that batch is logged, applied and published", "; ".join(det))
    # apply_batch_to_memtable numbers entries consecutively from the batch's starting sequence
    ab = P.body(APPLY_BATCH)
    if ab is not None:
        R.analysed(ab)
        st = any(c.name == "batch::Batch::get_starting_seq_number" for c in ab.calls())
        inc = any(st_["k"] == "assign" and st_["rv"]["k"] == "binop" and st_["rv"]["op"].startswith("Add") and in_cycle(ab, bb_i)
                  and any(o.get("val") == "1" for o in st_["rv"]["ops"] if o["k"] == "const")
                  for bb_i in range(ab.n) for st_ in ab.blocks[bb_i]["stmts"])
        R.check(rule, APPLY_BATCH + "|consecutive-sequences", st and inc, where(ab),
                "entries are numbered from get_starting_seq_number() in steps of 1 inside the loop", "start=%s increment=%s" % (st, inc))


def ord17_manual_slot(P, R, L, rule="ORD-17"):
    """A manual compaction request is always taken out of `maybe_manual_compaction` by the worker run that saw it,
    and `done` is written: otherwise force_level_compaction waits forever."""
    b = P.body(COORD)
    if b is None:
        return R.missing_anchor(rule, COORD)
    R.analysed(b)
    sees = [c for c in b.calls() if c.name == "std::option::Option::is_some" and not b.is_cleanup(c.bb)
            and any("maybe_manual_compaction" in o.path for o in origins(b, c.args[0]))]
    takes = [c for c in b.calls() if c.name == "std::option::Option::take" and not b.is_cleanup(c.bb)
             and any("maybe_manual_compaction" in o.path for o in origins(b, c.args[0]))]
    dones = field_stores(b, "done")
    ok = bool(sees) and bool(takes) and bool(dones)
    det = []
    for s in sees:
        asm = {s.dest["l"]: 1}
        if s.dest["l"] not in b.stable_bools() or s.target is None:
            ok = False
            det.append("the observation is not kept in a single-assignment bool that is re-tested")
            continue
        e = s.target
        if not all(b.must_pass_fs(r, through_nodes=[x.bb for x in takes], start=e, assume=asm) for r in b.return_blocks()):
            ok = False
            det.append("a run that saw a manual request can return without taking it out of the slot")
        if not all(b.must_pass_fs(r, through_nodes=[d[0] for d in dones], start=e, assume=asm) for r in b.return_blocks()):
            ok = False
            det.append("a run that saw a manual request can return without writing `done`")
    R.check(rule, COORD + "|manual-request-always-consumed", ok, where(b),
            "every worker run that observed a manual compaction request writes `done` and clears the slot before returning", "; ".join(sorted(set(det))))
    f = P.body("db::DB::force_level_compaction")
    if f is not None:
        R.analysed(f)
        sets = field_stores(f, "maybe_manual_compaction")
        sch = sites_reaching(P, f, "compaction::worker::CompactionWorker::schedule_task")
        ok = bool(sets) and bool(sch)
        R.check(rule, f.path + "|request-installed-and-scheduled", ok, where(f),
                "force_level_compaction installs its request and schedules the worker", "stores=%d schedule sites=%d" % (len(sets), len(sch)))


# ------------------------------------------------------------------------------------------- PAIR-7 direction agreement of iterators
ITER_TRAIT = "iterator::RainDbIterator"
DIRECTION_TABLE = [
    # (self type, forward helper, backward helper, mode for next/prev)
    ("tables::table::TwoLevelIterator", "tables::table::TwoLevelIterator::skip_empty_data_blocks_forward",
     "tables::table::TwoLevelIterator::skip_empty_data_blocks_backward", "exhausted"),
    ("versioning::file_iterators::FilesEntryIterator", "versioning::file_iterators::FilesEntryIterator::skip_empty_table_files_forward",
     "versioning::file_iterators::FilesEntryIterator::skip_empty_table_files_backward", "exhausted"),
    ("versioning::file_iterators::MergingIterator", "versioning::file_iterators::MergingIterator::find_smallest",
     "versioning::file_iterators::MergingIterator::find_largest", "value"),
    ("iterator::DatabaseIterator", "iterator::DatabaseIterator::find_next_client_entry",
     "iterator::DatabaseIterator::find_prev_client_entry", "value"),
]
FORWARD_METHODS = ("seek", "seek_to_first", "next")
BACKWARD_METHODS = ("seek_to_last", "prev")


def static_sites_reaching(P, body, name, depth=4):
    """call sites of `body` that call `name` directly or through statically dispatched local helpers (dyn calls are
    not followed: a child iterator's method is not this iterator's helper)"""
    def reaches(path, d, seen):
        if d < 0 or path in seen or path not in P.bodies:
            return False
        seen.add(path)
        for c in P.bodies[path].calls():
            if c.name == name:
                return True
            if c.t.get("local") and not c.t.get("dyn") and c.t.get("resolved") in P.bodies and reaches(c.t["resolved"], d - 1, seen):
                return True
        return False
    out = []
    for c in body.calls():
        if body.is_cleanup(c.bb):
            continue
        if c.name == name:
            out.append(c)
        elif c.t.get("local") and not c.t.get("dyn") and c.t.get("resolved") in P.bodies and c.t["resolved"] != body.path \
                and reaches(c.t["resolved"], depth, set()):
            out.append(c)
    return out


def pair7_direction(P, R, L, rule="PAIR-7", types=None):
    n = 0
    for (ty, fwd, bwd, mode) in DIRECTION_TABLE:
        if types and ty not in types:
            continue
        for meth in FORWARD_METHODS + BACKWARD_METHODS:
            path = "<%s as %s>::%s" % (ty, ITER_TRAIT, meth)
            b = P.body(path)
            if b is None:
                R.missing_anchor(rule, path)
                continue
            R.analysed(b)
            n += 1
            want, other = (fwd, bwd) if meth in FORWARD_METHODS else (bwd, fwd)
            ws = static_sites_reaching(P, b, want)
            os_ = static_sites_reaching(P, b, other)
            ok = bool(ws) and not os_
            det = []
            if os_:
                det.append("calls the helper of the opposite direction (%s)" % other.rsplit("::", 1)[1])
            if not ws:
                det.append("never calls %s" % want.rsplit("::", 1)[1])
            elif meth.startswith("seek"):
                # every Ok return passes the helper, except paths on which the inner iterator is known invalid
                # (DatabaseIterator::seek: `if inner.is_valid() { find_next } else { is_valid = false }`)
                oks = _ok_blocks(b)
                inval = [s[0] for s in field_stores(b, "is_valid", const=0)]
                if not oks or not all(b.must_pass(x, through_nodes=[w.bb for w in ws] + inval) for x in oks):
                    ok = False
                    det.append("an Ok return is reachable without positioning through %s" % want.rsplit("::", 1)[1])
            elif mode == "value":
                # a path that yields a value (ends in `current()`) must have passed the helper
                cur = [c for c in b.calls() if not b.is_cleanup(c.bb) and (c.name or "").endswith("::current") and c.dest["l"] == 0]
                if not cur or not all(b.must_pass(c.bb, through_nodes=[w.bb for w in ws]) for c in cur):
                    ok = False
                    det.append("a value is returned without passing %s" % want.rsplit("::", 1)[1])
            else:
                # exhausted: when the child iterator runs out (its next()/prev() returned None) the helper runs
                inner = [c for c in b.calls() if not b.is_cleanup(c.bb) and (c.declared_name or "") == "%s::%s" % (ITER_TRAIT, meth)]
                good = False
                for c in inner:
                    for t_ in b.calls():
                        if t_.name == "std::option::Option::is_none" and t_.args and roots(b, t_.args[0]) & {c.dest["l"]}:
                            for tt in _bt(b, t_.dest["l"]):
                                for e in tt.ok:
                                    if all(b.must_pass(r, through_nodes=[w.bb for w in ws], start=e) for r in b.return_blocks()):
                                        good = True
                if not good:
                    ok = False
                    det.append("when the child runs out the iterator does not move on through %s" % want.rsplit("::", 1)[1])
            R.check(rule, "%s|direction" % path, ok, where(b),
                    "%s positions through %s and never through the opposite-direction helper" % (meth, want.rsplit("::", 1)[1]), "; ".join(det))
    R.floor(rule, "iterator positioning methods checked", n, 5 * len([t for t in DIRECTION_TABLE if not types or t[0] in types]))
    # direction field of the merging / database iterator
    for (ty, variants_field) in (("versioning::file_iterators::MergingIterator", "direction"), ("iterator::DatabaseIterator", "direction")):
        if types and ty not in types:
            continue
        for meth, want in (("seek", "Forward"), ("seek_to_first", "Forward"), ("seek_to_last", "Backward")):
            b = P.body("<%s as %s>::%s" % (ty, ITER_TRAIT, meth))
            if b is None:
                continue
            st = field_stores(b, "direction")
            vs = set()
            for s in st:
                vs |= {v for v in stored_variants(b, s[2]) if v}
                rv = s[2]["rv"]
                if rv["k"] == "use" and rv["ops"][0]["k"] == "const":
                    txt = rv["ops"][0].get("text") or ""
                    vs |= {x for x in ("Forward", "Backward") if x in txt}
            R.check(rule, "%s|direction-field" % b.path, vs == {want}, where(b),
                    "%s records the iteration direction %s" % (meth, want), "stores %s" % sorted(vs))


# ------------------------------------------------------------------------------------------- GRD-11 block offset on reopen
def grd11_reopen_offset(P, R, L, rule="GRD-11"):
    """LogWriter::new: the writer's block offset is `file length % BLOCK_SIZE` for every non-empty existing file: the
    value stored into current_block_offset derives from `len() % const`, and any comparison guarding that computation
    compares the length with 0 only."""
    b = None
    for p in P.bodies:
        if p.startswith("logs::LogWriter::new") and "closure" not in p:
            b = P.bodies[p]
    if b is None:
        return R.missing_anchor(rule, "logs::LogWriter::new")
    R.analysed(b)
    is_len = lambda os_: any(o.kind == "call" and (o.name or "").endswith("::len") for o in os_)
    rems = []
    for bb in range(b.n):
        if b.is_cleanup(bb):
            continue
        for st in b.blocks[bb]["stmts"]:
            if st["k"] == "assign" and st["rv"]["k"] == "binop" and st["rv"]["op"] == "Rem" and is_len(origins(b, st["rv"]["ops"][0])):
                cv = [o.name for o in origins(b, st["rv"]["ops"][1]) if o.kind == "const"]
                rems.append((bb, st["line"], cv))
    ok = bool(rems)
    det = []
    # the struct literal's current_block_offset derives from the Rem (or the constant 0 for an empty file)
    agg_ok = False
    for bb in b.blocks:
        for st in bb["stmts"]:
            if st["k"] == "assign" and st["rv"]["k"] == "aggregate" and (st["rv"].get("adt") or "").endswith("logs::LogWriter"):
                fs = st["rv"]["fields"]
                if "current_block_offset" in fs:
                    os_ = origins(b, st["rv"]["ops"][fs.index("current_block_offset")])
                    if any(o.kind == "binop" and o.name == "Rem" for o in os_) and all(
                            (o.kind == "binop" and o.name == "Rem") or (o.kind == "const" and o.name == "0") for o in os_):
                        agg_ok = True
    if not agg_ok:
        ok = False
        det.append("current_block_offset is not `len % BLOCK_SIZE` (or 0)")
    for (bb, line, cv) in rems:
        for c in comparisons(b):
            if not b.must_pass(bb, through_edges=[(c.bb, t) for t in c.true_t]) and not b.must_pass(bb, through_edges=[(c.bb, t) for t in c.false_t]):
                continue   # this comparison does not control the computation
            lo, ro = c.lhs_origins(), c.rhs_origins()
            if is_len(lo) or is_len(ro):
                other = ro if is_len(lo) else lo
                if not any(o.kind == "const" and o.name == "0" for o in other):
                    ok = False
                    det.append("line %s: the offset computation is guarded by a comparison of the file length with something other than 0" % c.line)
    # a zero offset is only right for an empty file: an assignment of the constant 0 to the offset may be controlled by a
    # comparison of the file length with 0 and by nothing else (a file that ends inside a block trailer still needs the padding
    # the writer emits when it sees the true offset)
    off_locals = set()
    for bb in b.blocks:
        for st in bb["stmts"]:
            if st["k"] == "assign" and st["rv"]["k"] == "aggregate" and (st["rv"].get("adt") or "").endswith("logs::LogWriter") and \
                    "current_block_offset" in st["rv"]["fields"]:
                op = st["rv"]["ops"][st["rv"]["fields"].index("current_block_offset")]
                todo = [op]
                while todo:
                    x = todo.pop()
                    if x.get("k") in ("copy", "move") and not x["pl"]["p"] and x["pl"]["l"] not in off_locals:
                        off_locals.add(x["pl"]["l"])
                        for d in b.defs().get(x["pl"]["l"], []):
                            if d[0] == "stmt" and d[3]["rv"]["k"] == "use":
                                todo.append(d[3]["rv"]["ops"][0])
    for l in off_locals:
        for d in b.defs().get(l, []):
            if d[0] == "stmt" and d[3]["rv"]["k"] == "use" and d[3]["rv"]["ops"][0]["k"] == "const" and str(d[3]["rv"]["ops"][0].get("val")) == "0":
                for c in comparisons(b):
                    if not b.must_pass(d[1], through_edges=[(c.bb, t) for t in c.true_t]) and not b.must_pass(d[1], through_edges=[(c.bb, t) for t in c.false_t]):
                        continue
                    lo, ro = c.lhs_origins(), c.rhs_origins()
                    len_vs_zero = (is_len(lo) and any(o.kind == "const" and o.name == "0" for o in ro)) or \
                                  (is_len(ro) and any(o.kind == "const" and o.name == "0" for o in lo))
                    if not len_vs_zero:
                        ok = False
                        det.append("line %s: the offset is reset to 0 under a condition (line %s) other than `file length == 0`" % (d[3].get("line"), c.line))
    R.check(rule, b.path + "|block-offset-from-file-length", ok, where(b),
            "a re-opened log continues at block offset `len % BLOCK_SIZE` for every non-empty file", "; ".join(det) or "rem sites %s" % [(l, c) for (_, l, c) in rems])
    # writer and reader agree on the block size and header length constants used in the trailer test
    w = P.body("logs::LogWriter::append")
    r = P.body(READ_PHYS)
    if w is not None and r is not None:
        R.analysed(w, r)

        def trailer_tests(body):
            out = set()
            for c in comparisons(body):
                for side, oth in ((c.lhs, c.rhs), (c.rhs, c.lhs)):
                    so = origins(body, side)
                    subs = [o for o in so if o.kind == "binop" and o.name.startswith("Sub") and o.extra]
                    if subs or any("current_block_offset" in o.path for o in so):
                        k = tuple(sorted(str(o.name) for o in origins(body, oth) if o.kind == "const"))
                        bs = tuple(sorted({str(x.name) for s_ in subs for op_ in s_.extra[1]["rv"]["ops"] for x in origins(body, op_) if x.kind == "const"}))
                        opn = c.op if side is c.lhs else __import__("rdbcheck.rules", fromlist=["SWAP"]).SWAP[c.op]
                        # a test and its negation (branches swapped) are the same decision
                        opn = {"ge": "lt", "le": "gt", "ne": "eq"}.get(opn, opn)
                        if k:
                            out.add((opn, k, bs))
            return out
        tw, tr = trailer_tests(w), trailer_tests(r)
        common_ = tw & tr
        R.check(rule, "logs|writer-reader-trailer-agreement", bool(common_), where(w),
                "writer and reader decide 'no room for a header in this block' with the same relation and constants",
                "writer %s reader %s" % (sorted(tw), sorted(tr)))


# ------------------------------------------------------------------------------------------- ROLE-4 persisted counters round trip
def role4_counters(P, R, L, rule="ROLE-4"):
    """The four counters recovery depends on are written into every version edit from the version set's own state and
    restored from the manifest into the same fields: next file number, last sequence, current WAL, previous WAL."""
    VS = "versioning::version_set::VersionSet"
    VCM = "versioning::version_manifest::VersionChangeManifest"
    w = P.body(VS + "::get_new_version_from_current")
    if w is None:
        R.missing_anchor(rule, VS + "::get_new_version_from_current")
    else:
        R.analysed(w)
        for dst, src in (("curr_file_number", "curr_file_number"), ("prev_sequence_number", "prev_sequence_number"),
                         ("wal_file_number", "curr_wal_number"), ("prev_wal_file_number", "prev_wal_number")):
            st = field_stores(w, dst, adt=VCM)
            good = [s for s in st if any(src in o.path for o in origins(w, s[2]["rv"]["ops"][0]) ) or
                    any(src in o.path for x in s[2]["rv"].get("ops", []) for o in origins(w, x))] if st else []
            required_always = dst in ("curr_file_number", "prev_sequence_number")
            ok = bool(good)
            if ok and required_always:
                ok = all(w.must_pass(x, through_nodes=[s[0] for s in good]) for x in _ok_blocks(w))
            R.check(rule, "%s|edit.%s<-version_set.%s" % (w.path, dst, src), ok, where(w),
                    "every version edit records %s from the version set's %s%s" % (dst, src, "" if required_always else " when the caller left it unset"),
                    "stores %d, from the right field %d" % (len(st), len(good)))
    r = P.body(VS + "::recover")
    if r is None:
        R.missing_anchor(rule, VS + "::recover")
    else:
        R.analysed(r)
        oks = _ok_blocks(r)
        for dst in ("curr_file_number", "prev_sequence_number", "curr_wal_number", "prev_wal_number", "manifest_file_number"):
            st = field_stores(r, dst, adt=VS)
            ok = bool(st) and all(r.must_pass(x, through_nodes=[s[0] for s in st]) for x in oks)
            R.check(rule, "%s|restores.%s" % (r.path, dst), ok, where(r),
                    "a successful recovery restores VersionSet::%s from the manifest" % dst, "stores %d" % len(st))
        # the restored values come from the edits read from the manifest: the accumulator locals are assigned from
        # the corresponding VersionChangeManifest fields inside the read loop
        for fld in ("wal_file_number", "prev_wal_file_number", "curr_file_number", "prev_sequence_number"):
            rd = sorted(field_reads(r, fld))
            ok = bool(rd) and any(in_cycle(r, x) for x in rd)
            R.check(rule, "%s|reads-edit.%s" % (r.path, fld), ok, where(r),
                    "recovery folds VersionChangeManifest::%s of every manifest record" % fld, "read in blocks %s" % rd[:6])
    # the codec writes / reads each of the four scalars
    for p, b in P.bodies.items():
        if "VersionChangeManifest" in p and p.endswith("::from") and "Vec<u8>" in p:
            R.analysed(b)
            for fld in ("wal_file_number", "prev_wal_file_number", "curr_file_number", "prev_sequence_number"):
                wr = [c for c in b.calls() if (c.declared_name or "").endswith("write_varint") and not b.is_cleanup(c.bb)
                      and any(fld in o.path for o in origins(b, c.args[1]))]
                R.check(rule, "manifest-codec|writes.%s" % fld, bool(wr), where(b), "the serialiser writes %s" % fld, "sites %d" % len(wr))
        if p.startswith("<versioning::version_manifest::VersionChangeManifest as std::convert::TryFrom<") and p.endswith("::try_from"):
            R.analysed(b)
            for fld in ("wal_file_number", "prev_wal_file_number", "curr_file_number", "prev_sequence_number"):
                st = field_stores(b, fld, adt=VCM)
                R.check(rule, "manifest-codec|reads.%s" % fld, bool(st), where(b), "the deserialiser fills %s" % fld, "stores %d" % len(st))


# ------------------------------------------------------------------------------------------- PAIR-8 reversal repositions the inner iterator
def pair8_reversal(P, R, L, rule="PAIR-8"):
    """On a change of direction the underlying iterator is moved before the search for the next visible entry starts
    (DatabaseIterator), and the merging iterator steps its current child before choosing the new smallest/largest."""
    DBI = "iterator::DatabaseIterator"
    MI = "versioning::file_iterators::MergingIterator"
    for meth, helper, opposite, inner_moves in (
            ("next", DBI + "::find_next_client_entry", "Backward", ("seek_to_first", "next", "seek")),
            ("prev", DBI + "::find_prev_client_entry", "Forward", ("seek_to_last", "prev", "seek"))):
        b = P.body("<%s as %s>::%s" % (DBI, ITER_TRAIT, meth))
        if b is None:
            R.missing_anchor(rule, DBI + "::" + meth)
            continue
        R.analysed(b)
        hs = static_sites_reaching(P, b, helper)
        # edges on which the stored direction is the opposite one
        e = variant_edges(P, b, "iterator::DbIterationDirection", opposite, origin_pred_field("direction"))
        moves = [c for c in b.calls() if not b.is_cleanup(c.bb) and (c.name or "").startswith(MI) or
                 ((c.name or "").startswith("<" + MI + " as " + ITER_TRAIT) )]
        moves = [c for c in b.calls() if not b.is_cleanup(c.bb) and any((c.name or "").endswith("::" + m) for m in inner_moves)
                 and MI in (c.name or "")]
        ok = bool(hs) and bool(e) and bool(moves)
        det = "helper sites %d, direction edges %d, inner moves %d" % (len(hs), len(e), len(moves))
        if ok:
            for h in hs:
                for (sb, tg) in e:
                    if not b.must_pass(h.bb, through_nodes=[m.bb for m in moves], start=tg):
                        ok = False
                        det = "from the `direction == %s` edge %s is reachable without moving the inner iterator" % (opposite, helper.rsplit("::", 1)[1])
        R.check(rule, "%s|reposition-on-reversal" % b.path, ok, where(b),
                "when the iterator was travelling %s, %s() moves the inner iterator before searching for the next visible entry" % (opposite.lower(), meth), det)
        # the direction field is updated on that edge
        st = [s for s in field_stores(b, "direction")]
        R.check(rule, "%s|direction-updated" % b.path, bool(st), where(b), "the reversal updates the stored direction", "stores %d" % len(st))
    for meth, step, chooser in (("next", MI + "::advance_current_iterator", MI + "::find_smallest"),
                                ("prev", MI + "::reverse_current_iterator", MI + "::find_largest")):
        b = P.body("<%s as %s>::%s" % (MI, ITER_TRAIT, meth))
        if b is None:
            R.missing_anchor(rule, MI + "::" + meth)
            continue
        R.analysed(b)
        ss = static_sites_reaching(P, b, step)
        skip_edges = []
        if not ss:
            # the step written in place: `if let Some(i) = self.current_iterator_index { self.iterators[i].next(); }`
            ss = [c for c in b.calls() if not b.is_cleanup(c.bb) and (c.declared_name or "") == "%s::%s" % (ITER_TRAIT, meth) and not in_cycle(b, c.bb)
                  and any("iterators" in o.path or (o.kind == "call" and "index" in (o.name or "") and o.site is not None and
                                                    any("iterators" in x.path for x in origins(b, o.site.args[0]))) for o in origins(b, c.args[0]))]
            skip_edges = field_option_edges(b, "current_iterator_index")[1]
        cs_ = static_sites_reaching(P, b, chooser)
        ok = bool(ss) and bool(cs_) and all(b.must_pass(c.bb, through_nodes=[s.bb for s in ss], through_edges=skip_edges) for c in cs_)
        # on the reversal edge every non-current child is re-seeked (a dyn seek inside a loop) before the step
        resk = [c for c in b.calls() if not b.is_cleanup(c.bb) and (c.declared_name or "") == ITER_TRAIT + "::seek" and in_cycle(b, c.bb)]
        st = field_stores(b, "direction")
        R.check(rule, "%s|step-before-choose" % b.path, ok and bool(resk) and bool(st), where(b),
                "%s steps the current child before choosing, re-seeks the other children in a loop on reversal and records the new direction" % meth,
                "step sites %d, chooser sites %d, child re-seek sites %d, direction stores %d" % (len(ss), len(cs_), len(resk), len(st)))
        # the other children are re-seeked relative to the key the current child is ON: the re-seek loop comes before the
        # step, never after it (stepping first positions them behind the current child's NEXT key and loses what lies between)
        late = [r.line for r in resk if any(s.target is not None and r.bb in b.reachable(s.target) for s in ss)]
        R.check(rule, "%s|reseek-before-step" % b.path, bool(ss) and bool(resk) and not late, where(b),
                "on a reversal the other children are re-seeked to the current key before the current child is stepped",
                "re-seek at line(s) %s reachable after the step" % late if late else "re-seek sites %d, step sites %d" % (len(resk), len(ss)))


# ------------------------------------------------------------------------------------------- PAIR-9 boundary expansion before range computation
def _vec_signature(body, op):
    """identify which file vector an operand denotes: ('field', field path, const index) for self.input_files[i],
    ('local', name-independent local id) for a local vector"""
    INDEXERS = {"<std::vec::Vec<T, A> as std::ops::Index<I>>::index", "<std::vec::Vec<T, A> as std::ops::IndexMut<I>>::index_mut",
                "core::slice::index::index", "core::slice::index::index_mut", "std::array::index"}
    sigs = set()
    for o in origins(body, op):
        if o.kind == "call" and o.name in INDEXERS and o.site is not None:
            base = origins(body, o.site.args[0])
            idx = [x.name for x in origins(body, o.site.args[1]) if x.kind == "const"]
            for b_ in base:
                sigs.add(("field", tuple(b_.path) if b_.path else (b_.kind, str(b_.name)), tuple(idx)))
    if not sigs and op["k"] in ("copy", "move"):
        # `self.input_files[i]` as a place projection: field path + constant index local
        for o in origins(body, op):
            if "input_files" in o.path:
                idx = []
                for il in _index_locals(body, op):
                    idx += [x.name for x in origins(body, {"k": "copy", "pl": {"l": il, "p": []}}) if x.kind == "const"]
                sigs.add(("field", ("input_files",), tuple(idx)))
    if not sigs and op["k"] in ("copy", "move"):
        for l in roots(body, op):
            if body.local_name(l) is not None and "Vec<" in body.local_ty(l):
                sigs.add(("local", l))
    return sigs


def pair9_boundary_inputs(P, R, L, rule="PAIR-9"):
    """finalize_compaction_inputs: a set of compaction-level files is expanded by add_boundary_inputs (files of the same
    level that continue the last user key) before a key range is computed from it — otherwise versions of one user key
    that straddle two files are split by the compaction."""
    fn = "compaction::manifest::CompactionManifest::finalize_compaction_inputs"
    b = P.body(fn)
    if b is None:
        return R.missing_anchor(rule, fn)
    R.analysed(b)
    ab = normal_sites(b, "compaction::manifest::CompactionManifest::add_boundary_inputs")
    kr = normal_sites(b, "versioning::file_metadata::FileMetadata::get_key_range_for_files")
    R.floor(rule, "add_boundary_inputs call sites in finalize_compaction_inputs", len(ab), 3)
    if not kr:
        return R.check(rule, fn + "|anchors", False, where(b), "key ranges are computed from the input sets", "no get_key_range_for_files call")
    for k in kr:
        sk = _vec_signature(b, k.args[0])
        doms = [a for a in ab if _vec_signature(b, a.args[1]) & sk]
        ok = bool(sk) and bool(doms) and b.must_pass(k.bb, through_nodes=[a.bb for a in doms])
        R.check(rule, fn + "|range-of-boundary-expanded-set", ok, k.where(),
                "the file set whose key range is computed was expanded by add_boundary_inputs first",
                "set %s; expansions of the same set at lines %s" % (sorted(map(str, sk)), [a.line for a in doms]))
    # the expansion works on the FILLED set: whatever is added to an input set (extend / append / push) is followed by the
    # boundary expansion of that set on every path to the return (expanding the still empty parent set is a no-op)
    fills = [c for c in b.calls() if not b.is_cleanup(c.bb) and (c.name or "") in (
        "std::vec::Vec::extend", "<std::vec::Vec<T, A> as std::iter::Extend<T>>::extend", "std::vec::Vec::append", "std::vec::Vec::push",
        "std::vec::Vec::extend_from_slice") and c.args]
    n_f = 0
    for f in fills:
        sf = _vec_signature(b, f.args[0])
        exp = [a for a in ab if _vec_signature(b, a.args[1]) & sf]
        if not sf or not exp or f.target is None:
            continue
        n_f += 1
        ok = all(b.must_pass(r, through_nodes=[a.bb for a in exp], start=f.target) for r in b.return_blocks())
        R.check(rule, fn + "|expansion-follows-the-fill", ok, f.where(),
                "files added to an input set are followed by the boundary expansion of that set before the function returns",
                "set %s; expansions at lines %s" % (sorted(map(str, sf)), [a.line for a in exp]))
    R.floor(rule, "fills of a boundary-expanded input set in finalize_compaction_inputs", n_f, 1)
    # a candidate set that REPLACES an input set (the grown inputs of the expansion branch) has been boundary-expanded with
    # the files of that set's own level: slot 0 with files[level], slot 1 (the parent set) with files[level + 1]
    INDEXERS_ = {"<std::vec::Vec<T, A> as std::ops::Index<I>>::index", "<std::vec::Vec<T, A> as std::ops::IndexMut<I>>::index_mut",
                 "core::slice::index::index", "std::array::index", "<[T; N] as std::ops::Index<I>>::index", "core::array::<impl std::ops::Index<I> for [T; N]>::index"}
    from ..dataflow import TRANSPARENT as _TR

    def searched_level(a):
        lv_ = None
        for o in origins(b, a.args[0], transparent=_TR - INDEXERS_):
            if o.kind == "call" and (o.name in INDEXERS_ or "index" in (o.name or "").lower()) and o.site is not None and len(o.site.args) > 1:
                lv_ = level_expr(b, o.site.args[1])
        if lv_ is None:
            for il in _index_locals(b, a.args[0]):
                lv_ = level_expr(b, {"k": "copy", "pl": {"l": il, "p": []}})
        return lv_

    def named_local(op, depth=0):
        """the named local a plain operand / reference denotes (through moves and `&mut x`)"""
        if op["k"] not in ("copy", "move") or depth > 6:
            return None
        l = op["pl"]["l"]
        if b.local_name(l) is not None and not any(isinstance(e, dict) for e in op["pl"]["p"]):
            return l
        for d in b.defs().get(l, []):
            if d[0] == "stmt":
                rv_ = d[3]["rv"]
                if rv_["k"] == "use":
                    r_ = named_local(rv_["ops"][0], depth + 1)
                    if r_ is not None:
                        return r_
                elif rv_["k"] in ("ref", "rawptr") and not any(isinstance(e, dict) for e in rv_["pl"]["p"]):
                    r_ = named_local({"k": "copy", "pl": rv_["pl"]}, depth + 1)
                    if r_ is not None:
                        return r_
        return None
    n_rep = 0
    for bb in range(b.n):
        if b.is_cleanup(bb):
            continue
        for st in b.blocks[bb]["stmts"]:
            if st["k"] != "assign" or st["rv"]["k"] != "use" or st["rv"]["ops"][0]["k"] not in ("copy", "move"):
                continue
            fps = [e for e in st["pl"]["p"] if isinstance(e, dict) and "f" in e]
            if not fps or fps[-1].get("n") != "input_files":
                continue
            slot = None
            for il in [e["idx"] for e in st["pl"]["p"] if isinstance(e, dict) and "idx" in e]:
                cs_ = [x.name for x in origins(b, {"k": "copy", "pl": {"l": il, "p": []}}) if x.kind == "const"]
                if cs_:
                    slot = int(cs_[0])
            src = named_local(st["rv"]["ops"][0])
            if slot is None or src is None:
                continue
            exp = [a for a in ab if named_local(a.args[1]) == src and a.bb != bb and b.must_pass(bb, through_nodes=[a.bb])]
            right = [a for a in exp if searched_level(a) == ("level", slot)]
            n_rep += 1
            R.check(rule, fn + "|replacement-set-expanded-with-its-own-level|slot=%s" % slot, bool(right), "%s:%s" % (b.file, st.get("line")),
                    "a vector that replaces input_files[%s] was boundary-expanded with the files of level + %s before" % (slot, slot),
                    "expansions of `%s` at lines %s, searched in %s" % (b.local_name(src), [a.line for a in exp], [searched_level(a) for a in exp]))
    R.floor(rule, "whole-set replacements of an input set", n_rep, 2)
    # the parent-level set is expanded too, with the parent level's files
    lv = [level_expr(b, a.args[0]) for a in ab]
    par = [a for a in ab if any(o.kind == "binop" and o.name.startswith("Add") for x in [a.args[0]] for o in origins(b, x, transparent=__import__("rdbcheck.dataflow", fromlist=["x"]).TRANSPARENT | {
        "<std::vec::Vec<T, A> as std::ops::Index<I>>::index", "std::array::index", "<[T; N] as std::ops::Index<I>>::index"}))]
    R.check(rule, fn + "|both-levels-expanded", len(ab) >= 2, where(b),
            "both the compaction level's and the parent level's input sets are boundary-expanded", "%d expansion sites" % len(ab))


# ------------------------------------------------------------------------------------------- GRD-12 no append after a torn tail
def grd12_reuse_only_complete_logs(P, R, L, rule="GRD-12"):
    """A log is re-opened for appending (WAL in recover_wal_records, manifest in VersionSet::recover via
    maybe_reuse_manifest) only on an edge that depends on the reader's consumed position versus the file length:
    the reader stops at a torn tail, a writer would continue after it and everything appended would be unreadable."""
    def reader_state_queries(body):
        out = []
        for c in body.calls():
            if body.is_cleanup(c.bb):
                continue
            nm = c.name or ""
            if nm.startswith("logs::LogReader::") and nm not in ("logs::LogReader::read_record", "logs::LogReader::new") and c.callee in P.bodies:
                cb = P.bodies[c.callee]
                if field_reads(cb, "current_cursor_position") or P.fn_reaches(c.callee, "logs::LogReader::len"):
                    out.append(c)
        return out

    def guard_edges(body, queries):
        """edges on which a bool derived from a reader-state query is true"""
        edges = []
        qnames = {q.name for q in queries}
        # the guard is the reader-state query and nothing else (`is_eof || fully_consumed` is true for every torn tail)
        derived = lambda os_: bool(os_) and all(o.kind == "call" and o.name in qnames for o in os_)
        from ..dataflow import TRANSPARENT
        T2 = TRANSPARENT | {"std::result::Result::unwrap_or", "std::result::Result::unwrap_or_default", "std::result::Result::unwrap_or_else",
                            "std::result::Result::map_err", "std::result::Result::map", "std::result::Result::ok", "std::option::Option::unwrap_or"}
        for bb in range(body.n):
            t = body.term(bb)
            if t["k"] == "switch" and t["discr"]["k"] in ("copy", "move"):
                if derived(origins(body, t["discr"], transparent=T2)):
                    from ..rules import switch_target
                    f = switch_target(t, 0)
                    edges += [(bb, tg) for _, tg in body.edges(bb) if tg != f]
        return edges

    for fn, target_pred, what in (
            ("db::DB::recover_wal_records", lambda c: c.name == "logs::LogWriter::new" and len(c.args) > 2 and c.args[2]["k"] == "const" and c.args[2].get("val") == "1",
             "the WAL"),
            ("versioning::version_set::VersionSet::recover", lambda c: c.name == "versioning::version_set::VersionSet::maybe_reuse_manifest", "the manifest")):
        b = P.body(fn)
        if b is None:
            R.missing_anchor(rule, fn)
            continue
        R.analysed(b)
        sites = [c for c in b.calls() if not b.is_cleanup(c.bb) and target_pred(c)]
        if not sites:
            R.check(rule, fn + "|anchors", False, where(b), "%s reuse site present" % what, "not found")
            continue
        q = reader_state_queries(b)
        e = guard_edges(b, q)
        for s in sites:
            ok = bool(q) and bool(e) and b.must_pass(s.bb, through_edges=e)
            R.check(rule, fn + "|reuse-only-when-fully-consumed", ok, s.where(),
                    "%s is re-opened for appending only on an edge that depends on the log reader having consumed the whole file" % what,
                    "reader-state queries %s; guard edges %d" % ([c.name.rsplit("::", 1)[1] for c in q], len(e)))


def grd12_cursor_counts_complete_reads(P, R, L, rule="GRD-12"):
    """`is_fully_consumed` (the guard GRD-12 relies on) compares LogReader::current_cursor_position with the file length,
    so the cursor may only count bytes of completely read physical records: in read_physical_record a store to the
    cursor that can follow a (possibly short) `read` lies behind that read's `bytes_read >= expected` edge."""
    b = P.body(READ_PHYS)
    if b is None:
        return R.missing_anchor(rule, READ_PHYS)
    R.analysed(b)
    stores = [s for s in field_stores(b, "current_cursor_position")]
    reads = [c for c in b.calls() if not b.is_cleanup(c.bb) and (c.declared_name or c.name or "").endswith("::read")
             and "read_exact" not in (c.name or "")]
    R.floor(rule, "short-read-capable read sites in read_physical_record", len(reads), 2)
    bad = []
    fulls = {}
    for r in reads:
        n_is = lambda os_, r=r: any(o.kind == "call" and o.site is not None and o.site.bb == r.bb for o in os_)
        anything = lambda os_: True
        full = []
        for c in comparisons(b):
            full += c.edges_where("ge", n_is, anything)
        if not full:
            bad.append("the byte count of the read at line %s is never compared with the expected length" % r.line)
            continue
        start = None
        for t in result_tests(b, r.dest["l"]):
            for e in t.ok_edges():
                start = e[1]
        start = start if start is not None else r.target
        reach = b.reachable(start)
        fulls[r.bb] = (full, start, reach)
        for s in stores:
            if s[0] in reach and not b.must_pass(s[0], through_edges=full, start=start):
                bad.append("the cursor store at line %s can follow the read at line %s without passing its full-read edge" % (s[2].get("line"), r.line))
    # a fragment is counted as a whole or not at all: a store that follows one read of the fragment (the header) lies behind the
    # full-read edge of every later read of the same call (the payload) as well - otherwise a file torn exactly between header
    # and payload leaves cursor == file length and the log is re-opened for appending behind an orphaned header
    for rbb, (full, start, reach) in sorted(fulls.items()):
        for r2bb, (full2, _, _) in sorted(fulls.items()):
            if r2bb == rbb or r2bb not in reach:
                continue
            for s in stores:
                if s[0] in reach and not b.must_pass(s[0], through_edges=full2, start=start):
                    bad.append("the cursor store at line %s counts bytes of a fragment whose later read (line %s) may still come up short" % (
                        s[2].get("line"), b.term(r2bb).get("line")))
    R.check(rule, READ_PHYS + "|cursor-counts-only-complete-reads", bool(stores) and not bad, where(b),
            "the consumed-bytes cursor is advanced only behind the `bytes_read >= expected` edge of every read that precedes the store "
            "(a torn tail must leave cursor < file length)", "; ".join(bad) or "%d stores, %d read sites" % (len(stores), len(reads)))


def grd12_fully_consumed_is_exact(P, R, L, rule="GRD-12"):
    """LogReader::is_fully_consumed answers `cursor >= file length` and nothing weaker: any slack (e.g. "fewer than a
    header's worth of bytes left") lets a log with a short torn tail be re-opened for appending behind the garbage."""
    fn = "logs::LogReader::is_fully_consumed"
    b = P.body(fn)
    if b is None:
        return R.missing_anchor(rule, fn)
    R.analysed(b)
    good, seen = False, []
    for bb in range(b.n):
        if b.is_cleanup(bb):
            continue
        for st in b.blocks[bb]["stmts"]:
            if st["k"] == "assign" and st["rv"]["k"] == "aggregate" and st["rv"].get("variant") == "Ok" and st["pl"]["l"] == 0:
                for o in origins(b, st["rv"]["ops"][0]):
                    seen.append((o.kind, o.name))
                    if o.kind == "binop" and o.extra:
                        ops = o.extra[1]["rv"]["ops"]
                        so = [origins(b, x) for x in ops]
                        is_cur = lambda os_: bool(os_) and all("current_cursor_position" in x.path and x.kind in ("param", "field") for x in os_)
                        is_len = lambda os_: bool(os_) and all(x.kind == "call" and x.name == "logs::LogReader::len" for x in os_)
                        if (o.name == "Ge" and is_cur(so[0]) and is_len(so[1])) or (o.name == "Le" and is_len(so[0]) and is_cur(so[1])) or \
                                (o.name == "Eq" and ((is_cur(so[0]) and is_len(so[1])) or (is_len(so[0]) and is_cur(so[1])))):
                            good = True
    R.check(rule, fn + "|exact-comparison", good and len(seen) == 1, where(b),
            "is_fully_consumed is exactly `consumed cursor >= file length` (no slack: a 1..6 byte torn tail is not 'consumed')", "value origins %s" % seen)


# ------------------------------------------------------------------------------------------- MAN-1 manifest reader reports damage
def man1_manifest_reader_strict(P, R, L, rule="MAN-1"):
    """Skipping a damaged fragment is documented behaviour for the write-ahead log only. The manifest must be read in a
    mode in which a fragment that fails its checksum / cannot be parsed is an error: (a) LogReader::read_record has a
    per-reader bool field on whose true edge the dropped-fragment path returns Err; (b) the reader VersionSet::recover
    uses went through a LogReader method that sets that field."""
    rr = P.body(READ_RECORD)
    rec = P.body("versioning::version_set::VersionSet::recover")
    if rr is None or rec is None:
        return R.missing_anchor(rule, "LogReader::read_record / VersionSet::recover")
    R.analysed(rr, rec)
    phys = [c for c in rr.calls() if c.name == READ_PHYS and not rr.is_cleanup(c.bb)]
    err_targets = []
    for c in phys:
        for t in result_tests(rr, c.dest["l"]):
            err_targets += t.err
    # mode fields: bool fields of LogReader read in read_record by a switch after the Err edge
    mode_fields = {}
    for bb in range(rr.n):
        t = rr.term(bb)
        if t["k"] != "switch" or t["discr"]["k"] not in ("copy", "move"):
            continue
        if not any(bb in rr.reachable(e) or bb == e for e in err_targets):
            continue
        for o in origins(rr, t["discr"]):
            if o.kind == "param" and o.name == 1 and o.path and rr.local_ty(t["discr"]["pl"]["l"]) == "bool":
                from ..rules import switch_target
                f = switch_target(t, 0)
                true_t = [tg for _, tg in rr.edges(bb) if tg != f]
                # on the true edge every path to return writes Err
                errs = [x for x in range(rr.n) if not rr.is_cleanup(x) for st in rr.blocks[x]["stmts"]
                        if st["k"] == "assign" and st["pl"]["l"] == 0 and st["rv"]["k"] == "aggregate" and st["rv"].get("variant") == "Err"]
                if true_t and all(rr.must_pass(r, through_nodes=errs, start=tt) for tt in true_t for r in rr.return_blocks()) \
                        and not any(c.bb in rr.reachable(tt) for tt in true_t for c in phys):
                    mode_fields[o.path[-1]] = bb
    ok_a = bool(mode_fields)
    R.check(rule, READ_RECORD + "|damage-can-be-reported", ok_a, where(rr),
            "read_record has a per-reader mode in which a fragment that cannot be delivered is returned as an error instead of being skipped",
            "mode fields %s" % sorted(mode_fields))
    # (b) recover's reader has the mode switched on
    setters = set()
    for p, b in P.bodies.items():
        if p.startswith("logs::LogReader::"):
            for fld in mode_fields:
                if field_stores(b, fld, const=1) or any(
                        st["k"] == "assign" and st["rv"]["k"] == "aggregate" and (st["rv"].get("adt") or "").endswith("logs::LogReader")
                        and fld in st["rv"]["fields"] and st["rv"]["ops"][st["rv"]["fields"].index(fld)].get("val") == "1"
                        for bb_ in b.blocks for st in bb_["stmts"]):
                    setters.add(p)
    reads = [c for c in rec.calls() if c.name == READ_RECORD and not rec.is_cleanup(c.bb)]
    ok_b = bool(reads) and bool(setters)
    if ok_b:
        from ..dataflow import TRANSPARENT
        T2 = TRANSPARENT | {"std::result::Result::map"}
        for c in reads:
            os_ = origins(rec, c.args[0], transparent=T2)
            chain_ok = any(o.kind == "call" and o.name in {strip_generics(s_) for s_ in setters} for o in os_)
            if not chain_ok:
                # Result::map(LogReader::setter): the setter is passed as a function item
                chain_ok = any(a.get("fn") and strip_generics(a["fn"]) in {strip_generics(s_) for s_ in setters}
                               for x in rec.calls() for a in x.args if a["k"] == "const")
            if not chain_ok:
                ok_b = False
    R.check(rule, rec.path + "|manifest-reader-reports-damage", ok_b, where(rec),
            "the reader used to recover the manifest has the report-damage mode switched on (a damaged manifest record fails the open)",
            "mode setters %s" % sorted(setters))


# ------------------------------------------------------------------------------------------- ORD-8c recovered sequence / PAIR-10 builder slot
def expr_calls(body, op, depth=6, seen=None):
    """names of calls (and constants) feeding an arithmetic expression tree"""
    out = set()
    seen = seen if seen is not None else set()
    for o in origins(body, op):
        if o.kind == "call":
            out.add(o.name)
            # min / max select one of their arguments: both feed the value
            if strip_generics(o.name or "") in ("std::cmp::max", "std::cmp::min", "std::cmp::Ord::max", "std::cmp::Ord::min") and o.site is not None and depth > 0:
                key = ("call", o.site.bb)
                if key not in seen:
                    seen.add(key)
                    for x in o.site.args:
                        out |= expr_calls(body, x, depth - 1, seen)
        elif o.kind == "const":
            out.add("const:%s" % o.name)
        elif o.kind in ("binop", "unop") and o.extra and depth > 0:
            key = (o.extra[0], id(o.extra[1]))
            if key in seen:
                continue
            seen.add(key)
            for x in o.extra[1]["rv"]["ops"]:
                out |= expr_calls(body, x, depth - 1, seen)
    return out


def ord8c_recovered_sequence(P, R, L, rule="ORD-8c"):
    """Recovery publishes the sequence of the LAST operation of the last replayed batch: the value returned by
    recover_wal_records derives from get_starting_seq_number() + len() - 1 of the replayed batch, and
    recover_unrecorded_logs publishes the maximum through set_prev_sequence_number."""
    b = P.body("db::DB::recover_wal_records")
    if b is None:
        return R.missing_anchor(rule, "db::DB::recover_wal_records")
    R.analysed(b)
    ok = False
    det = "no Ok((.., last_sequence)) tuple found"
    for bb in _ok_blocks(b):
        for st in b.blocks[bb]["stmts"]:
            if st["k"] == "assign" and st["pl"]["l"] == 0 and st["rv"]["k"] == "aggregate" and st["rv"].get("variant") == "Ok":
                tup = st["rv"]["ops"][0]
                if tup["k"] not in ("copy", "move"):
                    continue
                for d in b.defs().get(tup["pl"]["l"], []):
                    if d[0] == "stmt" and d[3]["rv"]["k"] == "aggregate" and d[3]["rv"]["ak"] == "tuple" and len(d[3]["rv"]["ops"]) == 2:
                        names = expr_calls(b, d[3]["rv"]["ops"][1])
                        need = {"batch::Batch::get_starting_seq_number", "batch::Batch::len", "const:1"}
                        ok = need <= names
                        det = "returned sequence is computed from %s" % sorted(n for n in names if not n.startswith("const:") or n == "const:1")
    R.check(rule, b.path + "|last-sequence-of-replayed-batch", ok, where(b),
            "the sequence restored from a WAL is start + len - 1 of the replayed batch (the whole batch becomes visible, not a prefix)", det)
    u = P.body("db::DB::recover_unrecorded_logs")
    if u is not None:
        R.analysed(u)
        sp = normal_sites(u, SET_PREV_SEQ)
        rw = normal_sites(u, "db::DB::recover_wal_records")
        from ..dataflow import TRANSPARENT as _TR
        _T3 = _TR | {"std::cmp::max", "std::cmp::Ord::max"}
        ok = bool(sp) and bool(rw) and all(any(o.kind == "call" and o.name == "db::DB::recover_wal_records" for o in origins(u, s.args[1], transparent=_T3))
                                            or "db::DB::recover_wal_records" in expr_calls(u, s.args[1]) for s in sp)
        R.check(rule, u.path + "|publishes-recovered-sequence", ok, where(u),
                "the value published after replay comes from recover_wal_records' result", "")
        # ... as a running maximum over all replayed logs (the last log may be empty), and never below the manifest's value
        is_new = lambda os_: any(o.kind == "call" and o.name == "db::DB::recover_wal_records" for o in os_)
        accs = set()
        for s_ in sp:
            accs |= {l for l in roots(u, s_.args[1]) if u.local_name(l) is not None and u.local_ty(l) == "u64"}
        # an accumulator starts from a constant before the loop
        accs = {a for a in accs if any(d[0] == "stmt" and d[3]["rv"]["k"] == "use" and d[3]["rv"]["ops"][0]["k"] == "const" and not in_cycle(u, d[1])
                                       for d in u.defs().get(a, []))}
        det = []
        okm = bool(accs)
        for a in accs:
            grow = []
            for c in comparisons(u):
                l_acc = c.lhs["k"] in ("copy", "move") and a in roots(u, c.lhs)
                r_acc = c.rhs["k"] in ("copy", "move") and a in roots(u, c.rhs)
                l_new = not l_acc and is_new(c.lhs_origins())
                r_new = not r_acc and is_new(c.rhs_origins())
                if l_new and r_acc:        # new OP acc
                    grow += [(c.bb, t) for t in (c.true_t if c.op in ("gt", "ge") else c.false_t if c.op in ("lt", "le") else [])]
                elif l_acc and r_new:      # acc OP new
                    grow += [(c.bb, t) for t in (c.true_t if c.op in ("lt", "le") else c.false_t if c.op in ("gt", "ge") else [])]
            for d in u.defs().get(a, []):
                if u.is_cleanup(d[1]) or not in_cycle(u, d[1]):
                    continue
                if d[0] == "call":
                    nm = strip_generics(d[3].get("resolved") or d[3].get("callee") or "")
                    if nm in ("std::cmp::max", "std::cmp::Ord::max"):
                        continue
                    okm = False
                    det.append("line %s: the accumulator is overwritten by %s" % (d[3].get("line"), nm))
                elif d[0] == "stmt":
                    ops_ = d[3]["rv"].get("ops") or []
                    if ops_ and ops_[0]["k"] in ("copy", "move") and origins(u, ops_[0]) and all(
                            o.kind == "call" and strip_generics(o.name or "") in ("std::cmp::max", "std::cmp::Ord::max") for o in origins(u, ops_[0])):
                        continue        # acc = max(acc, new)
                    if not grow or not u.must_pass(d[1], through_edges=grow, start=_loop_head(u, d[1])):
                        okm = False
                        det.append("line %s: the accumulator is overwritten without the `new > accumulated` guard" % d[3].get("line"))
        R.check(rule, u.path + "|running-maximum", okm, where(u),
                "the recovered sequence is the maximum over all replayed logs: inside the loop it is only ever raised", "; ".join(det) or "accumulators %s" % sorted(accs))
        prev_lt = []
        for c in comparisons(u):
            lo, ro = c.lhs_origins(), c.rhs_origins()
            if any(o.kind == "call" and o.name == PREV_SEQ for o in lo) and c.rhs["k"] in ("copy", "move") and roots(u, c.rhs) & accs:
                prev_lt += [(c.bb, t) for t in (c.true_t if c.op in ("lt", "le") else c.false_t if c.op in ("gt", "ge") else [])]
            if any(o.kind == "call" and o.name == PREV_SEQ for o in ro) and c.lhs["k"] in ("copy", "move") and roots(u, c.lhs) & accs:
                prev_lt += [(c.bb, t) for t in (c.true_t if c.op in ("gt", "ge") else c.false_t if c.op in ("lt", "le") else [])]
        okp = bool(sp) and all((bool(prev_lt) and u.must_pass(s_.bb, through_edges=prev_lt)) or
                                any(o.kind == "call" and (o.name or "").endswith("::max") for o in origins(u, s_.args[1])) for s_ in sp)
        R.check(rule, u.path + "|never-lowers-the-sequence", okp, where(u),
                "the published sequence is only raised above the manifest's value, never lowered", "guard edges %d" % len(prev_lt))


def pair10_builder_slot(P, R, L, rule="PAIR-10"):
    """finish_compaction_output_file: once TableBuilder::finalize / abandon ran, the builder is taken out of the state on
    every path to return (cleanup_compaction would otherwise abandon() an already closed builder and panic the worker)."""
    fn = "compaction::state::CompactionState::finish_compaction_output_file"
    b = P.body(fn)
    if b is None:
        return R.missing_anchor(rule, fn)
    R.analysed(b)
    closers = [c for c in b.calls() if not b.is_cleanup(c.bb) and c.name in ("tables::table_builder::TableBuilder::finalize", "tables::table_builder::TableBuilder::abandon")]
    takes = [c for c in b.calls() if not b.is_cleanup(c.bb) and c.name == "std::option::Option::take"
             and any("table_builder" in o.path for o in origins(b, c.args[0]))]
    clears = [c.bb for c in takes] + [s[0] for s in field_stores(b, "table_builder")]
    ok = bool(closers) and bool(clears)
    det = []
    for c in closers:
        if c.target is None:
            continue
        for r in b.return_blocks():
            if not b.must_pass(r, through_nodes=clears, start=c.target):
                ok = False
                det.append("after %s (line %s) a return is reachable with the closed builder still in place" % (c.name.rsplit("::", 1)[1], c.line))
                break
    R.check(rule, fn + "|closed-builder-is-removed", ok, where(b),
            "after finalize()/abandon() the table builder is taken out of the compaction state on every path to return", "; ".join(det))
    cc = P.body(CLEANUP)
    if cc is not None:
        R.analysed(cc)
        ab = normal_sites(cc, "tables::table_builder::TableBuilder::abandon")
        hb = [c for c in cc.calls() if c.name == "compaction::state::CompactionState::has_table_builder" and not cc.is_cleanup(c.bb)]
        e = []
        for h in hb:
            for t in _bt(cc, h.dest["l"]):
                e += t.ok_edges()
        ok = all(cc.must_pass(a.bb, through_edges=e) for a in ab) and bool(e) if ab else True
        R.check(rule, CLEANUP + "|abandon-only-open-builder", ok, where(cc), "cleanup_compaction abandons a builder only if one is present", "")


# ------------------------------------------------------------------------------------------- LCK-5 version-node RwLock nesting
VNODE = "linked_list::Node<versioning::version::Version>"
RW_READ = "parking_lot::lock_api::RwLock::read"
RW_WRITE = "parking_lot::lock_api::RwLock::write"


def lck5_version_rwlock(P, R, L, rule="LCK-5"):
    """parking_lot's RwLock is not re-entrant: taking the write lock of a version node while the same thread still holds a
    read or write guard of a version node (or a read lock while it holds a write guard) can self-deadlock. Class-level
    rule (all version nodes are one class): while a guard on Node<Version> is live in a body, no call may reach a
    conflicting acquisition on Node<Version>."""
    def is_vnode_lock(cs, which):
        return cs.name == which and any(VNODE in x for x in (cs.t.get("substs") or []) + [cs.t.get("self_ty") or ""])

    # summaries: bodies that (sync, transitively) take a read / write lock on a version node
    takes = {"r": set(), "w": set()}
    for p, b in P.bodies.items():
        for cs in b.calls():
            if is_vnode_lock(cs, RW_READ):
                takes["r"].add(p)
            if is_vnode_lock(cs, RW_WRITE):
                takes["w"].add(p)
    cg = P.callgraph(sync_only=True)
    changed = True
    while changed:
        changed = False
        for p, succs in cg.items():
            for k in ("r", "w"):
                if p not in takes[k] and succs & takes[k]:
                    takes[k].add(p)
                    changed = True
    n_bodies = 0
    for p, b in sorted(P.bodies.items()):
        locks = [cs for cs in b.calls() if (is_vnode_lock(cs, RW_READ) or is_vnode_lock(cs, RW_WRITE)) and not b.is_cleanup(cs.bb)]
        if not locks:
            continue
        n_bodies += 1
        R.analysed(b)
        guard_kind = {cs.dest["l"]: ("r" if cs.name == RW_READ else "w") for cs in locks if not cs.dest["p"]}
        bad = []

        def transfer(bb, us, phase, data, b=b, guard_kind=guard_kind, bad=bad):
            if phase == "stmts":
                cur = set(us)
                for st in data["stmts"]:
                    if st["k"] == "assign" and st["rv"]["k"] == "use" and st["rv"]["ops"][0]["k"] == "move" and not st["rv"]["ops"][0]["pl"]["p"]:
                        src = st["rv"]["ops"][0]["pl"]["l"]
                        for (g, k) in list(cur):
                            if g == src and not st["pl"]["p"]:
                                cur.discard((g, k))
                                cur.add((st["pl"]["l"], k))
                return frozenset(cur)
            lab, tg = data
            t = b.term(bb)
            cur = set(us)
            if t["k"] == "drop" and not t["pl"]["p"]:
                cur = {(g, k) for (g, k) in cur if g != t["pl"]["l"]}
            elif t["k"] == "call":
                from ..cfg import CallSite
                cs = CallSite(b, bb, t)
                if cur and lab == "ret":
                    held = {k for (_, k) in cur}
                    wants = set()
                    if is_vnode_lock(cs, RW_READ):
                        wants.add("r")
                    if is_vnode_lock(cs, RW_WRITE):
                        wants.add("w")
                    for c in P.callees_of_site(cs, sync_only=True):
                        if c in takes["r"]:
                            wants.add("r")
                        if c in takes["w"]:
                            wants.add("w")
                    if "w" in wants or ("r" in wants and "w" in held):
                        bad.append((t.get("line"), cs.name, sorted(held), sorted(wants)))
                for a in t["args"]:
                    if a["k"] == "move" and not a["pl"]["p"]:
                        cur = {(g, k) for (g, k) in cur if g != a["pl"]["l"]}
                if lab == "ret" and not t["dest"]["p"] and t["dest"]["l"] in guard_kind and (is_vnode_lock(cs, RW_READ) or is_vnode_lock(cs, RW_WRITE)):
                    cur.add((t["dest"]["l"], guard_kind[t["dest"]["l"]]))
            return frozenset(cur)
        try:
            seen, _ = b.explore(frozenset(), transfer)
            R.paths += len(seen)
        except Exception:
            bad.append((b.line_lo, "exploration cap", [], []))
        uniq = sorted({(ln, nm) for (ln, nm, _, _) in bad})
        R.check(rule, "%s|version-rwlock-nesting" % p, not uniq, where(b),
                "no conflicting version-node RwLock acquisition while a version-node guard is live in this body",
                "; ".join("line %s: %s while a guard is held" % (ln, nm) for ln, nm in uniq[:4]) or "%d acquisition sites, none nested" % len(locks))
    R.floor(rule, "bodies that lock a version node", n_bodies, 10)


def lck6_manual_config_lock_order(P, R, L, rule="LCK-6"):
    """The manual-compaction configuration mutex is only ever taken while the DB mutex is held (the invariant stated at
    GuardedDbFields::maybe_manual_compaction): one lock order, no ABBA deadlock between requester and worker."""
    MC = "compaction::manual_compaction::ManualCompactionConfiguration"
    sites = [c for c in P.callers_of("parking_lot::lock_api::Mutex::lock") if MC in (c.t.get("substs") or []) and not c.body.is_cleanup(c.bb)]
    R.floor(rule, "manual-compaction mutex acquisitions", len(sites), 3)
    for c in sites:
        R.analysed(c.body)
        st = L.site_state(c)
        R.check(rule, "%s|manual-config-locked-under-db-mutex" % c.body.path, st == "held", c.where(),
                "the manual compaction configuration is locked only while the DB mutex is held", "state=%s" % st)


def own8_file_numbers(P, R, L, rule="OWN-8"):
    """File numbers are unique: the counter is written only by get_new_file_number (+1), mark_file_number_used (raise),
    reuse_file_number (−1, only when the number handed back is the current one) and recover (restore)."""
    VS = "versioning::version_set::VersionSet"
    allowed = {VS + "::get_new_file_number", VS + "::mark_file_number_used", VS + "::reuse_file_number", VS + "::recover", VS + "::new"}
    n = 0
    for p, b in sorted(P.bodies.items()):
        st = field_stores(b, "curr_file_number", adt=VS)
        if not st:
            continue
        n += 1
        R.analysed(b)
        R.check(rule, "%s|writes-file-number-counter" % p, p in allowed, where(b), "only the four counter functions write VersionSet::curr_file_number", p)
    R.floor(rule, "writers of the file-number counter", n, 4)
    ru = P.body(VS + "::reuse_file_number")
    if ru is not None:
        R.analysed(ru)
        st = field_stores(ru, "curr_file_number", adt=VS)
        eq = []
        cur = origin_pred_field("curr_file_number")
        par = lambda os_: any(o.kind == "param" and o.name == 2 and not o.path for o in os_)
        for c in comparisons(ru):
            eq += c.edges_where("eq", cur, par, exact=True)
        ok = bool(st) and bool(eq) and all(ru.must_pass(s[0], through_edges=eq) for s in st)
        R.check(rule, ru.path + "|decrement-only-for-current-number", ok, where(ru),
                "the counter is decremented only on the edge where the returned number equals the current counter", "eq-edges %s" % eq)
    gn = P.body(VS + "::get_new_file_number")
    if gn is not None:
        R.analysed(gn)
        st = field_stores(gn, "curr_file_number", adt=VS)
        inc = any(s[2]["rv"]["k"] == "use" and any(o.kind == "binop" and o.name.startswith("Add") for o in origins(gn, s[2]["rv"]["ops"][0])) for s in st) or \
            any(s[2]["rv"]["k"] == "binop" and s[2]["rv"]["op"].startswith("Add") for s in st)
        ret_field = any("curr_file_number" in o.path for o in origins(gn, {"l": 0, "p": []}))
        R.check(rule, gn.path + "|increment-then-return", bool(st) and inc and ret_field, where(gn),
                "get_new_file_number increments the counter and returns the incremented value", "stores %d inc=%s returns-field=%s" % (len(st), inc, ret_field))
    mk = P.body(VS + "::mark_file_number_used")
    if mk is not None:
        R.analysed(mk)
        st = field_stores(mk, "curr_file_number", adt=VS)
        le = []
        for c in comparisons(mk):
            le += c.edges_where("le", origin_pred_field("curr_file_number"), lambda os_: any(o.kind == "param" and o.name == 2 for o in os_))
        ok = bool(st) and bool(le) and all(mk.must_pass(s[0], through_edges=le) for s in st)
        R.check(rule, mk.path + "|only-raises", ok, where(mk), "mark_file_number_used only ever raises the counter", "le-edges %s" % le)


# ------------------------------------------------------------------------------------------- GRD-13 / OWN-9 / PAIR-9 levels
def grd13_find_file_compares_internal_keys(P, R, L, rule="GRD-13"):
    """find_file_with_upper_bound_range is the level>=1 file search of point reads and overlap tests. It must order by the
    full internal key (user key, then sequence descending): two versions of one user key can sit in neighbouring files
    of a level, and a search by user key alone picks the wrong one for a snapshot read."""
    fn = "versioning::utils::find_file_with_upper_bound_range"
    b = P.body(fn)
    if b is None:
        return R.missing_anchor(rule, fn)
    R.analysed(b)
    cmps = [c for c in comparisons(b) if role.colour(b, c.lhs) == "LARGE" or role.colour(b, c.rhs) == "LARGE"]
    ok = bool(cmps)
    det = []
    for c in cmps:
        T = role.COLOUR_TRANSPARENT - {GET_USER_KEY}
        for side in (c.lhs, c.rhs):
            if any(o.kind == "call" and o.name == GET_USER_KEY for o in origins(b, side, transparent=T)):
                ok = False
                det.append("line %s compares user keys only" % c.line)
        # the target side is the parameter (an InternalKey), the bound side is largest_key()
        tys = {b.local_ty(side["pl"]["l"]) for side in (c.lhs, c.rhs) if side["k"] in ("copy", "move")}
        if not any("InternalKey" in t for t in tys):
            ok = False
            det.append("line %s does not compare InternalKey values (%s)" % (c.line, sorted(tys)))
        lt = c.edges_where("lt", lambda os_: role.colour_of_origins(os_) == "LARGE", lambda os_: any(o.kind == "param" and o.name == 2 for o in os_), exact=True)
        if not lt:
            ok = False
            det.append("line %s: not the relation `file.largest < target` / its complement" % c.line)
    R.check(rule, fn + "|orders-by-internal-key", ok, where(b),
            "the file search compares file.largest_key() with the target as internal keys (`largest < target` moves right, else left)", "; ".join(det))


def own9_create_mode(P, R, L, rule="OWN-9"):
    """Files are created truncating: FileSystem::create_file(.., append) is called with `false` everywhere except in
    LogWriter::new, where the flag is the caller's is_appending. A table file / temp file opened for append would inherit
    the bytes of a crashed predecessor with the same (re-issued) file number."""
    sites = [c for c in P.callers_of(lambda c: (c.declared_name or "") == "fs::traits::FileSystem::create_file") if not c.body.is_cleanup(c.bb)]
    R.floor(rule, "FileSystem::create_file call sites", len([s for s in sites if not s.body.file.startswith("src/fs/")]), 3)
    for c in sites:
        if c.body.file.startswith("src/fs/"):
            continue
        R.analysed(c.body)
        a = c.args[2]
        if a["k"] == "const":
            ok = a.get("val") == "0"
            how = "append=%s" % a.get("val")
        else:
            os_ = origins(c.body, a)
            ok = c.body.path.startswith("logs::LogWriter::new") and any(o.kind == "param" for o in os_)
            how = "append flag from %s" % sorted({repr(o) for o in os_})[:2]
        R.check(rule, "%s|create-mode" % c.body.path, ok, c.where(), "create_file truncates (append = false) outside LogWriter::new", how)


def _index_locals(body, op, depth=8, seen=None):
    """locals used as index in `x[i]` place projections on the def chain of an operand"""
    out = []
    if op["k"] not in ("copy", "move") or depth <= 0:
        return out
    seen = seen if seen is not None else set()
    l = op["pl"]["l"]
    if l in seen:
        return out
    seen.add(l)
    for e in op["pl"]["p"]:
        if isinstance(e, dict) and "idx" in e:
            out.append(e["idx"])
    for d in body.defs().get(l, []):
        if d[0] == "stmt":
            rv = d[3]["rv"]
            if rv["k"] in ("ref", "rawptr"):
                for e in rv["pl"]["p"]:
                    if isinstance(e, dict) and "idx" in e:
                        out.append(e["idx"])
                out += _index_locals(body, {"k": "copy", "pl": {"l": rv["pl"]["l"], "p": []}}, depth - 1, seen)
            elif rv["k"] in ("use", "cast") and rv["ops"][0]["k"] in ("copy", "move"):
                out += _index_locals(body, rv["ops"][0], depth - 1, seen)
        elif d[0] == "call":
            t = d[3]
            nm = strip_generics(t.get("resolved") or t.get("callee"))
            from ..dataflow import TRANSPARENT as _T
            if nm in _T and t["args"]:
                out += _index_locals(body, t["args"][0], depth - 1, seen)
    return out


def pair9_levels(P, R, L, rule="PAIR-9"):
    fn = "compaction::manifest::CompactionManifest::finalize_compaction_inputs"
    b = P.body(fn)
    if b is None:
        return
    INDEXERS = {"<std::vec::Vec<T, A> as std::ops::Index<I>>::index", "<std::vec::Vec<T, A> as std::ops::IndexMut<I>>::index_mut",
                "core::slice::index::index", "std::array::index", "<[T; N] as std::ops::Index<I>>::index", "core::array::<impl std::ops::Index<I> for [T; N]>::index"}
    for a in normal_sites(b, "compaction::manifest::CompactionManifest::add_boundary_inputs"):
        # which set is expanded?
        sig = _vec_signature(b, a.args[1])
        want = None
        for s_ in sig:
            if s_[0] == "field" and s_[2] == ("1",):
                want = 1
            elif s_[0] == "field" and s_[2] == ("0",):
                want = 0
        if want is None:
            # a local candidate set (expanded0 / expanded1): its level is the one its files were collected from
            want = 0
            for o in origins(b, a.args[1]):
                if o.kind == "call" and (o.name or "").endswith("get_overlapping_compaction_inputs_strong") and o.site is not None and len(o.site.args) > 1:
                    lx = level_expr(b, o.site.args[1])
                    if lx and lx[0] == "level" and lx[1] is not None:
                        want = lx[1]
        # which level's files are searched? (`files[level]` is a place index projection, or an Index call)
        lv = None
        from ..dataflow import TRANSPARENT
        for o in origins(b, a.args[0], transparent=TRANSPARENT - INDEXERS):
            if o.kind == "call" and (o.name in INDEXERS or "index" in (o.name or "").lower()) and o.site is not None and len(o.site.args) > 1:
                lv = level_expr(b, o.site.args[1])
        if lv is None:
            for il in _index_locals(b, a.args[0]):
                lv = level_expr(b, {"k": "copy", "pl": {"l": il, "p": []}})
        ok = lv == ("level", want)
        R.check(rule, fn + "|boundary-search-in-own-level", ok, a.where(),
                "boundary files for a set are searched among the files of that set's own level (level for the compaction set, level+1 for the parent set)",
                "set of level+%s searched in %s" % (want, lv))


# ------------------------------------------------------------------------------------------- GRD-14 manual compaction input truncation
def grd14_manual_inputs(P, R, L, rule="GRD-14", parts=("level0",)):
    """VersionSet::compact_range may cut the list of input files short (to bound the work) only for levels > 0: level-0
    files overlap each other, so dropping one of them while compacting another moves newer data below older data."""
    fn = "versioning::version_set::VersionSet::compact_range"
    b = P.body(fn)
    if b is None:
        return R.missing_anchor(rule, fn)
    R.analysed(b)
    tr = [c for c in b.calls() if c.name == "std::vec::Vec::truncate" and not b.is_cleanup(c.bb)]
    is_level = lambda os_: any(o.kind == "param" and o.name == 2 and not o.path for o in os_)
    zero = lambda os_: any(o.kind == "const" and o.name == "0" for o in os_)
    edges = []
    for c in comparisons(b):
        edges += c.edges_where("gt", is_level, zero, exact=True)
        edges += c.edges_where("ne", is_level, zero, exact=True)
    ok = all(b.must_pass(t.bb, through_edges=edges) for t in tr) and (bool(edges) or not tr)
    if "nonempty" in parts:
        lens_ok, det = True, []
        for t in tr:
            os_ = origins(b, t.args[1])
            vec_roots = roots(b, t.args[0])
            # a length carried in an Option local (`Some(index + 1)` ... `if let Some(n)`) shows up with its wrappers
            os_ = [o for o in os_ if not (o.kind == "agg" and (o.name or "") in ("std::option::Option::Some", "std::option::Option::None"))]
            good = bool(os_) and all(
                (o.kind == "binop" and o.name in ("Add", "AddWithOverflow", "AddUnchecked") and o.extra and any(
                    x["k"] == "const" and (x.get("val") or "0").isdigit() and int(x["val"]) >= 1 for x in o.extra[1]["rv"]["ops"]))
                # `truncate(v.len())` keeps everything (the list was checked to be non-empty before)
                or (o.kind == "call" and (o.name or "").endswith("::len") and o.site is not None and roots(b, o.site.args[0]) & vec_roots)
                for o in os_)
            if not good:
                lens_ok = False
                det.append("line %s: length is %s" % (t.line, [(o.kind, o.name) for o in os_]))
        R.check(rule, fn + "|truncation-keeps-at-least-one-file", lens_ok, where(b),
                "the truncated input list keeps the file that crossed the size limit (length = index + 1, never 0): an empty input list "
                "trips the non-empty assertion on the compaction thread", "; ".join(det) or "truncate sites %d" % len(tr))
    if "level0" not in parts:
        return
    R.check(rule, fn + "|truncate-only-above-level-0", ok, where(b),
            "the input list of a manual compaction is truncated only on the edge `level > 0`", "truncate sites %d, guard edges %d" % (len(tr), len(edges)))


# ------------------------------------------------------------------------------------------- PAIR-11 a (re)loaded child iterator is positioned before use
TWO_LEVEL_TABLE = [
    # (self type, loader, child field, forward helper, backward helper)
    ("tables::table::TwoLevelIterator", "tables::table::TwoLevelIterator::init_data_block", "maybe_data_block_iter",
     "skip_empty_data_blocks_forward", "skip_empty_data_blocks_backward"),
    ("versioning::file_iterators::FilesEntryIterator", "versioning::file_iterators::FilesEntryIterator::set_table_iter", "current_table_iter",
     "skip_empty_table_files_forward", "skip_empty_table_files_backward"),
]


def pair11_loaded_child_positioned(P, R, L, rule="PAIR-11", types=None):
    """The loader of a two-level iterator (init_data_block / set_table_iter) keeps the existing child iterator — cursor
    included — when the block / file did not change.  So after every successful loader call the child must be positioned
    explicitly (seek / seek_to_first / seek_to_last, matching the direction of the enclosing method) before the method
    returns or uses it, unless the child is None."""
    n = 0
    for (ty, loader, child, fwd, bwd) in TWO_LEVEL_TABLE:
        if types and ty not in types:
            continue
        for p, b in sorted(P.bodies.items()):
            if p == loader:
                continue
            ls = [c for c in b.calls() if c.name == loader and not b.is_cleanup(c.bb)]
            if not ls:
                continue
            R.analysed(b)
            meth = p.rsplit("::", 1)[1]
            want = {"seek": "seek", "seek_to_first": "seek_to_first", "seek_to_last": "seek_to_last", fwd: "seek_to_first", bwd: "seek_to_last"}.get(meth)
            on_child = lambda c: bool(c.args) and any(child in o.path for o in origins(b, c.args[0]))
            pos = [c for c in b.calls() if not b.is_cleanup(c.bb) and (c.declared_name or "").startswith(ITER_TRAIT + "::seek") and on_child(c)]
            pos_kind = {id(c): (c.declared_name or "").rsplit("::", 1)[1] for c in pos}

            def helper_positions(path):
                """kinds of seek a local helper applies to the child on every path where the child is Some (None if it does not)"""
                h = P.bodies.get(path)
                if h is None or path == loader:
                    return None
                hp = [c for c in h.calls() if not h.is_cleanup(c.bb) and (c.declared_name or "").startswith(ITER_TRAIT + "::seek")
                      and c.args and any(child in o.path for o in origins(h, c.args[0]))]
                if not hp or any(c.name == loader for c in h.calls()):
                    return None
                hn = field_option_edges(h, child)[1]
                oks = _ok_blocks(h) or h.return_blocks()
                if all(h.must_pass(r, through_nodes=[c.bb for c in hp], through_edges=hn) for r in oks):
                    R.analysed(h)
                    return {(c.declared_name or "").rsplit("::", 1)[1] for c in hp}
                return None
            for c in b.calls():
                if not b.is_cleanup(c.bb) and c.t.get("local") and not c.t.get("dyn") and c.t.get("resolved") in P.bodies and c.t["resolved"] != loader \
                        and not (c.declared_name or "").startswith(ITER_TRAIT):
                    ks = helper_positions(c.t["resolved"])
                    if ks and len(ks) == 1:
                        pos.append(c)
                        pos_kind[id(c)] = list(ks)[0]
            none_edges = []
            for c in b.calls():
                if b.is_cleanup(c.bb) or c.name not in ("std::option::Option::is_some", "std::option::Option::is_none") or not on_child(c):
                    continue
                for t in _bt(b, c.dest["l"]):
                    tg = t.err if c.name.endswith("is_some") else t.ok
                    none_edges += [(t.bb, x) for x in tg]
            # `if let Some(it) = self.child.as_mut()` / `match self.child { None => .. }`: discriminant reads of the child option
            from ..rules import _switches_on_local, switch_target
            for bb in range(b.n):
                if b.is_cleanup(bb):
                    continue
                for st in b.blocks[bb]["stmts"]:
                    if st["k"] == "assign" and st["rv"]["k"] == "discr" and not st["pl"]["p"] and \
                            "Option<" in b.local_ty(st["rv"]["pl"]["l"]) and \
                            any(child in o.path for o in origins(b, {"k": "copy", "pl": st["rv"]["pl"]})):
                        for sb in _switches_on_local(b, st["pl"]["l"]):
                            none_edges.append((sb, switch_target(b.term(sb), 0)))
            for ld in ls:
                n += 1
                starts = [e[1] for t in result_tests(b, ld.dest["l"]) for e in t.ok_edges()] or ([ld.target] if ld.target is not None else [])
                bad = []
                others = [x.bb for x in ls]
                for s in starts:
                    r = b.reachable(s, removed_nodes=[c.bb for c in pos] + others, removed_edges=none_edges)
                    if any(x in r for x in b.return_blocks()) and s not in others and s not in [c.bb for c in pos]:
                        bad.append(s)
                kinds = sorted({pos_kind[id(c)] for c in pos})
                ok = bool(pos) and not bad and (want is None or kinds == [want])
                R.check(rule, "%s|%s-then-position" % (p, loader.rsplit("::", 1)[1]), ok, ld.where(),
                        "after %s succeeds the (possibly re-used) child iterator is positioned with %s on every path where it is Some" % (
                            loader.rsplit("::", 1)[1], want or "a seek"),
                        "positioning calls on the child: %s; %s" % (kinds, "a return is reachable without one" if bad else "all paths covered"))
    R.floor(rule, "loader call sites of the two-level iterators", n, 5 * len([t for t in TWO_LEVEL_TABLE if not types or t[0] in types]))


# ------------------------------------------------------------------------------------------- TS-2 writer-side fragment typing
def ts2_writer_fragment_types(P, R, L, rule="TS-2"):
    """LogWriter::append: the fragment type written for a chunk is the one the reader's reassembly automaton (TS-1)
    expects: Full = first & last, First = first & !last, Last = !first & last, Middle = !first & !last; the `first`
    flag is cleared after every emitted fragment; `last` means `remaining == length of the chunk written now`; the
    chunk is min(remaining, room in the block)."""
    fn = "logs::LogWriter::append"
    b = P.body(fn)
    if b is None:
        return R.missing_anchor(rule, fn)
    R.analysed(b)
    emits = [c for c in b.calls() if c.name == "logs::LogWriter::emit_block" and not b.is_cleanup(c.bb)]
    if len(emits) != 1:
        return R.check(rule, fn + "|anchors", False, where(b), "append emits fragments at exactly one emit_block site", "sites %d" % len(emits))
    emit = emits[0]

    class _T:
        def __init__(self, bb, ok, err):
            self.bb, self.ok, self.err = bb, ok, err

    def variant_assigns(body, target_locals):
        out = {}
        for bb in range(body.n):
            if body.is_cleanup(bb):
                continue
            for st in body.blocks[bb]["stmts"]:
                if st["k"] == "assign" and not st["pl"]["p"] and st["pl"]["l"] in target_locals and (
                        st["rv"]["k"] == "aggregate" or (st["rv"]["k"] == "use" and st["rv"]["ops"][0]["k"] == "const")):
                    for v in stored_variants(body, st):
                        if v:
                            out.setdefault(v, []).append(bb)
        return out

    def tests_of(body, l):
        """switches on the bool local, directly or as a field of a tuple built from it (`match (first, last) {..}`)"""
        out = [_T(t.bb, list(t.ok), list(t.err)) for t in _bt(body, l)]
        for bb in range(body.n):
            for st in body.blocks[bb]["stmts"]:
                if st["k"] == "assign" and st["rv"]["k"] == "aggregate" and st["rv"].get("ak") == "tuple" and not st["pl"]["p"]:
                    for i_, op in enumerate(st["rv"]["ops"]):
                        if op["k"] in ("copy", "move") and not op["pl"]["p"] and (op["pl"]["l"] == l or l in roots(body, op)) and body.local_ty(op["pl"]["l"]) == "bool":
                            tl = st["pl"]["l"]
                            for sb in range(body.n):
                                t = body.term(sb)
                                if t["k"] == "switch" and t["discr"]["k"] in ("copy", "move") and t["discr"]["pl"]["l"] == tl:
                                    pr = t["discr"]["pl"]["p"]
                                    if len(pr) == 1 and isinstance(pr[0], dict) and str(pr[0].get("f")) == str(i_):
                                        fl = [tg for v, tg in t["targets"] if int(v) == 0]
                                        tr = [tg for v, tg in t["targets"] if int(v) != 0] + ([t["otherwise"]] if t.get("otherwise") is not None else [])
                                        out.append(_T(sb, tr, fl))
        return out
    # the two flags of append, by how they are defined: `first` is only ever assigned constants, `last` is one equality
    first, last = [], []
    for l in range(len(b.locals)):
        if b.local_ty(l) != "bool" or b.local_name(l) is None:
            continue
        defs = [d for d in b.defs().get(l, []) if d[0] == "stmt"]
        if len(defs) >= 2 and all(d[3]["rv"]["k"] == "use" and d[3]["rv"]["ops"][0]["k"] == "const" for d in defs):
            first.append(l)
        elif len(defs) == 1 and defs[0][3]["rv"]["k"] == "binop" and defs[0][3]["rv"]["op"] == "Eq" and not b.defs().get(l, [])[1:]:
            last.append(l)
    # where is the type decided: in append itself, or in a local helper that receives the two flags
    D, assigns = b, variant_assigns(b, roots(b, emit.args[1]))
    Fd, Ld = (first[0] if len(first) == 1 else None), (last[0] if len(last) == 1 else None)
    if not assigns and Fd is not None and Ld is not None:
        for o in origins(b, emit.args[1]):
            if o.kind == "call" and o.site is not None and o.site.t.get("resolved") in P.bodies and not o.site.t.get("dyn"):
                H = P.bodies[o.site.t["resolved"]]
                pf = [i_ + 1 for i_, a in enumerate(o.site.args) if a["k"] in ("copy", "move") and Fd in roots(b, a)]
                pl = [i_ + 1 for i_, a in enumerate(o.site.args) if a["k"] in ("copy", "move") and Ld in roots(b, a)]
                if len(pf) == 1 and len(pl) == 1 and pf != pl:
                    R.analysed(H)
                    tl_ = {0}
                    for bb in range(H.n):
                        for st in H.blocks[bb]["stmts"]:
                            if st["k"] == "assign" and st["pl"]["l"] == 0 and st["rv"]["k"] == "use" and st["rv"]["ops"][0]["k"] in ("copy", "move"):
                                tl_ |= roots(H, st["rv"]["ops"][0])
                    D, assigns, Fd, Ld = H, variant_assigns(H, tl_), pf[0], pl[0]
    is_len = lambda os_: bool(os_) and all(o.kind == "call" and (o.name or "").endswith("::len") for o in os_)
    not_len = lambda os_: bool(os_) and not is_len(os_)
    # `last` need not be a flag of its own: with chunk = min(remaining, room), `remaining == chunk` is `remaining <= room`, and the
    # type may be decided by that comparison directly - exactly `<=` on the last side, exactly `>` on the other
    direct = Fd is not None and Ld is None and D is b and set(assigns) == {"Full", "First", "Middle", "Last"}
    if Fd is None or (Ld is None and not direct) or set(assigns) != {"Full", "First", "Middle", "Last"}:
        return R.check(rule, fn + "|anchors", False, where(b), "one const-assigned `first` flag, one `last` flag defined by an equality (or direct `remaining <= room` tests), four fragment types",
                       "first %s last %s variants %s" % (first, last, sorted(assigns)))
    F = first[0]
    Lf = last[0] if not direct else None
    f_true = [(t.bb, y) for t in tests_of(D, Fd) for y in t.ok]
    f_false = [(t.bb, y) for t in tests_of(D, Fd) for y in t.err]
    if not direct:
        l_true = [(t.bb, y) for t in tests_of(D, Ld) for y in t.ok]
        l_false = [(t.bb, y) for t in tests_of(D, Ld) for y in t.err]
    else:
        l_true, l_false = [], []
        for c in comparisons(b):
            l_true += c.edges_where("le", is_len, not_len, exact=True)
            l_false += c.edges_where("gt", is_len, not_len, exact=True)
    want = {"Full": (f_true, l_true), "First": (f_true, l_false), "Last": (f_false, l_true), "Middle": (f_false, l_false)}
    for v, (fe, le) in sorted(want.items()):
        ok = bool(fe) and bool(le) and all(D.must_pass_fs(x, through_edges=fe) and D.must_pass_fs(x, through_edges=le) for x in assigns[v])
        R.check(rule, fn + "|type-%s" % v, ok, where(D),
                "%s is chosen exactly when first=%s and last=%s" % (v, v in ("Full", "First"), v in ("Full", "Last")),
                "assigned in %s bb%s" % (D.path.rsplit("::", 1)[1], assigns[v]))
    # first flag cleared after every emitted fragment
    clears = [bb for bb in range(b.n) if not b.is_cleanup(bb) for st in b.blocks[bb]["stmts"]
              if st["k"] == "assign" and not st["pl"]["p"] and st["pl"]["l"] == F and st["rv"]["k"] == "use"
              and st["rv"]["ops"][0]["k"] == "const" and st["rv"]["ops"][0].get("val") == "0"]
    starts = [e[1] for t in result_tests(b, emit.dest["l"]) for e in t.ok_edges()]
    ok = bool(clears) and bool(starts) and all(b.must_pass(emit.bb, through_nodes=clears, start=s) for s in starts)
    R.check(rule, fn + "|first-flag-cleared-after-emit", ok, emit.where(), "after a fragment was written the next one is never typed First/Full", "clear sites %s" % clears)
    # last <=> remaining == chunk length; chunk = min(remaining, room); consumed amount == chunk length
    split0 = [c for c in b.calls() if not b.is_cleanup(c.bb) and (c.name or "").endswith("::split_at")]
    if not direct:
        d = [x for x in b.defs().get(Lf, []) if x[0] == "stmt"][0][3]
        lo, ro = origins(b, d["rv"]["ops"][0]), origins(b, d["rv"]["ops"][1])
        chunk_op = d["rv"]["ops"][1] if is_len(lo) else d["rv"]["ops"][0]
    else:
        if not split0:
            return R.check(rule, fn + "|anchors", False, where(b), "the written chunk is removed with split_at(chunk)", "no split_at")
        chunk_op = split0[0].args[1]
        lo = ro = [o for o in origins(b, split0[0].args[0])] and []
        lo = origins(b, {"k": "copy", "pl": {"l": 0, "p": []}})[:0]
    def named(op, depth=0):
        if op["k"] not in ("copy", "move") or op["pl"]["p"] or depth > 6:
            return None
        l = op["pl"]["l"]
        if b.local_name(l) is not None:
            return l
        ds = [x for x in b.defs().get(l, []) if x[0] == "stmt" and x[3]["rv"]["k"] == "use"]
        return named(ds[0][3]["rv"]["ops"][0], depth + 1) if len(ds) == 1 else None
    chunk_roots = roots(b, chunk_op)
    chunk_named = named(chunk_op)
    split = [c for c in b.calls() if not b.is_cleanup(c.bb) and (c.name or "").endswith("::split_at")]
    consumed_ok = bool(split) and chunk_named is not None and all(named(c.args[1]) == chunk_named for c in split)
    # the slice handed to emit_block is [0 .. chunk]
    rng_ok = False
    for o in origins(b, emit.args[2]):
        if o.kind == "call" and o.site is not None and len(o.site.args) >= 2:
            for bb2 in range(b.n):
                for st in b.blocks[bb2]["stmts"]:
                    if st["k"] == "assign" and st["rv"]["k"] == "aggregate" and "Range" in (st["rv"].get("adt") or "") and \
                            st["pl"]["l"] in roots(b, o.site.args[1]):
                        if chunk_named is not None and named(st["rv"]["ops"][1]) == chunk_named and st["rv"]["ops"][0]["k"] == "const" and st["rv"]["ops"][0].get("val") == "0":
                            rng_ok = True
    R.check(rule, fn + "|last-means-remaining-equals-chunk", (direct or is_len(lo) or is_len(ro)) and consumed_ok and rng_ok, where(b),
            "`last` compares the remaining length with the length of the chunk that is written now ([0..chunk]) and removed afterwards (split_at(chunk))",
            "len side %s, split_at uses chunk %s, emitted range is 0..chunk %s" % (is_len(lo) or is_len(ro), consumed_ok, rng_ok))
    # chunk = min(remaining, room)
    cl = [x for x in [named(chunk_op)] if x is not None]
    det = []
    ok = bool(cl)
    for l in cl:
        for dd in b.defs().get(l, []):
            bb0 = dd[1]
            if dd[0] == "call" and strip_generics(dd[3].get("resolved") or dd[3].get("callee") or "") in ("std::cmp::min", "std::cmp::Ord::min"):
                a_ = [origins(b, x) for x in dd[3]["args"]]
                if len(a_) == 2 and (is_len(a_[0]) != is_len(a_[1])):
                    continue          # min(remaining, room)
                ok = False
                det.append("bb%d: min() of something other than (remaining, room)" % bb0)
                continue
            if dd[0] == "call":
                src_is_len = strip_generics(dd[3].get("resolved") or dd[3].get("callee") or "").endswith("::len")
                bb0 = dd[3]["target"] if dd[3].get("target") is not None else bb0
            elif dd[0] == "stmt":
                src_is_len = is_len(origins(b, dd[3]["rv"]["ops"][0])) if dd[3]["rv"].get("ops") else False
            else:
                continue
            edges = []
            for c in comparisons(b):
                a_len = lambda os_: is_len(os_)
                a_oth = lambda os_: bool(os_) and not is_len(os_)
                if src_is_len:
                    edges += c.edges_where("le", a_len, a_oth)
                else:
                    edges += c.edges_where("le", a_oth, a_len)
            if not edges or not b.must_pass(bb0, through_edges=edges):
                ok = False
                det.append("bb%d: chunk := %s without the guard that it is the smaller one" % (bb0, "remaining" if src_is_len else "room"))
    R.check(rule, fn + "|chunk-is-min-of-remaining-and-room", ok, where(b),
            "the chunk length is the remaining length only where remaining <= room, and the room only where room <= remaining", "; ".join(det))


# ------------------------------------------------------------------------------------------- KEY-1 internal key order
def key1_internal_key_order(P, R, L, rule="KEY-1"):
    """Everything that finds 'the newest entry at or below a sequence' relies on the order of InternalKey: user key
    ascending (self vs other), then sequence number DESCENDING (other vs self), decided by the user key whenever the
    user keys differ; partial_cmp delegates to cmp; eq looks at user key and sequence number."""
    fn = "<key::InternalKey as std::cmp::Ord>::cmp"
    b = P.body(fn)
    if b is None:
        return R.missing_anchor(rule, fn)
    R.analysed(b)

    def side(op, fld, body=None):
        body = body or b
        os_ = origins(body, op)
        ps = set()
        for o in os_:
            if o.kind == "param" and fld in o.path and body is b:
                ps.add(o.name)
            elif o.kind == "upvar" and fld in o.path:
                for po in upvar_parent_origins(P, body, o.name):
                    if po.kind == "param":
                        ps.add(po.name)
            else:
                return None
        return ps.pop() if len(ps) == 1 else None
    is_cmp = lambda c: (c.declared_name or "") in ("std::cmp::Ord::cmp", "std::cmp::PartialOrd::partial_cmp") and len(c.args) == 2
    cmps = [c for c in b.calls() if not b.is_cleanup(c.bb) and is_cmp(c)]
    uk = [c for c in cmps if side(c.args[0], "user_key") and side(c.args[1], "user_key")]
    sq = [c for c in cmps if side(c.args[0], "sequence_number") and side(c.args[1], "sequence_number")]
    # `.then_with(|| other.seq.cmp(&self.seq))`: the tie-break lives in a closure handed to Ordering::then_with
    chained_sq = []
    for c in b.calls():
        if not b.is_cleanup(c.bb) and (c.name or "").endswith("Ordering::then_with") and len(c.args) == 2:
            for cp in b.closure_of_operand(c.args[1]):
                cb = P.bodies.get(cp)
                if cb is not None:
                    R.analysed(cb)
                    for cc in cb.calls():
                        if not cb.is_cleanup(cc.bb) and is_cmp(cc):
                            sides = (side(cc.args[0], "sequence_number", cb), side(cc.args[1], "sequence_number", cb))
                            if all(sides):
                                chained_sq.append(sides)
    ok_u = bool(uk) and all((side(c.args[0], "user_key"), side(c.args[1], "user_key")) == (1, 2) for c in uk)
    ok_s = (bool(sq) or bool(chained_sq)) and all((side(c.args[0], "sequence_number"), side(c.args[1], "sequence_number")) == (2, 1) for c in sq) \
        and all(x == (2, 1) for x in chained_sq)
    R.check(rule, fn + "|user-key-ascending", ok_u, where(b), "user keys are compared as (self, other)", "sites %d" % len(uk))
    R.check(rule, fn + "|sequence-descending", ok_s, where(b), "sequence numbers are compared as (other, self): newer entries of a user key sort first", "sites %d" % len(sq))
    # the sequence decides only where the user keys are equal
    ne_eq = []
    is_self_uk = lambda os_: any(o.kind == "param" and o.name == 1 and "user_key" in o.path for o in os_)
    is_oth_uk = lambda os_: any(o.kind == "param" and o.name == 2 and "user_key" in o.path for o in os_)
    for c in comparisons(b):
        ne_eq += c.edges_where("eq", is_self_uk, is_oth_uk, exact=True)
    # alternatively: the result of the user-key cmp is tested for Equal (match / then_with): accept `then`/`then_with` chains
    chained = [c for c in b.calls() if not b.is_cleanup(c.bb) and (c.name or "").endswith(("Ordering::then", "Ordering::then_with"))]
    if ne_eq:
        ok_g = bool(sq) and all(b.must_pass(c.bb, through_edges=ne_eq) for c in sq)
    elif chained_sq:
        ok_g = not sq       # then_with evaluates the closure only for Ordering::Equal
    else:
        # `match self.user_key.cmp(..) { Equal => seq cmp, ord => ord }`: the sequence cmp lies behind the Equal edge of a
        # switch on the discriminant of the user-key ordering
        ok_g = False
        eq_edges = []
        for u in uk:
            for bb in range(b.n):
                for st in b.blocks[bb]["stmts"]:
                    if st["k"] == "assign" and st["rv"]["k"] == "discr" and u.dest["l"] in roots(b, {"k": "copy", "pl": st["rv"]["pl"]}):
                        from ..rules import _switches_on_local, switch_target
                        for sb in _switches_on_local(b, st["pl"]["l"]):
                            eq_edges.append((sb, switch_target(b.term(sb), 0)))      # Ordering::Equal = 0
        if eq_edges:
            ok_g = bool(sq) and all(b.must_pass(c.bb, through_edges=eq_edges) for c in sq)
    R.check(rule, fn + "|sequence-only-breaks-ties", ok_g, where(b), "the sequence comparison decides only on the edge where the user keys are equal", "equal-user-key edges %d, chained %d" % (len(ne_eq), len(chained)))
    pc = P.body("<key::InternalKey as std::cmp::PartialOrd>::partial_cmp")
    if pc is None:
        R.missing_anchor(rule, "<key::InternalKey as std::cmp::PartialOrd>::partial_cmp")
    else:
        R.analysed(pc)
        d = [c for c in pc.calls() if not pc.is_cleanup(c.bb) and c.name == fn]
        okp = bool(d) and all(any(o.kind == "param" and o.name == 1 for o in origins(pc, c.args[0])) and any(o.kind == "param" and o.name == 2 for o in origins(pc, c.args[1])) for c in d)
        R.check(rule, pc.path + "|delegates-to-cmp", okp, where(pc), "partial_cmp is Some(self.cmp(other))", "delegating sites %d" % len(d))
    # the seek key for (user key, sequence) is built from exactly these two values
    nf = P.body("key::InternalKey::new_for_seeking")
    if nf is not None:
        R.analysed(nf)
        okn = False
        for bb in range(nf.n):
            for st in nf.blocks[bb]["stmts"]:
                if st["k"] == "assign" and st["rv"]["k"] == "aggregate" and (st["rv"].get("adt") or "").endswith("key::InternalKey"):
                    fs = st["rv"]["fields"]
                    okn = any(o.kind == "param" and o.name == 1 for o in origins(nf, st["rv"]["ops"][fs.index("user_key")])) and \
                        any(o.kind == "param" and o.name == 2 for o in origins(nf, st["rv"]["ops"][fs.index("sequence_number")]))
        R.check(rule, nf.path + "|fields", okn, where(nf), "a seek key carries the given user key and sequence number", "")


# ------------------------------------------------------------------------------------------- ROLE-5 version builder merge
VB = "versioning::version_builder::VersionBuilder"
FM_CMP = "<versioning::file_metadata::FileMetadataBySmallestKey as utils::comparator::Comparator<&versioning::file_metadata::FileMetadata>>::compare"


def role5_version_builder(P, R, L, rule="ROLE-5"):
    """The file list of every level of a new version is produced by VersionBuilder: files are ordered by smallest key
    (ties by file number), the merge of base and added files emits the smaller one first, a file is kept unless its
    number is in the deleted set of the same level, and the edit's deletions / additions are accumulated per level."""
    cmpb = P.body(FM_CMP)
    if cmpb is None:
        R.missing_anchor(rule, FM_CMP)
    else:
        R.analysed(cmpb)
        ks = [c for c in cmpb.calls() if not cmpb.is_cleanup(c.bb) and (c.declared_name or "") == "std::cmp::Ord::cmp" and len(c.args) == 2]

        def via(op, getter):
            for o in origins(cmpb, op):
                if o.kind == "call" and (o.name or "").endswith(getter) and o.site is not None:
                    ps = {x.name for x in origins(cmpb, o.site.args[0]) if x.kind == "param"}
                    if len(ps) == 1:
                        return ps.pop()
            return None
        sk = [c for c in ks if via(c.args[0], "::smallest_key") and via(c.args[1], "::smallest_key")]
        fnum = [c for c in ks if via(c.args[0], "::file_number") and via(c.args[1], "::file_number")]
        ok = bool(sk) and all((via(c.args[0], "::smallest_key"), via(c.args[1], "::smallest_key")) == (1, 2) for c in sk) and \
            all((via(c.args[0], "::file_number"), via(c.args[1], "::file_number")) == (1, 2) for c in fnum) and \
            not [c for c in ks if via(c.args[0], "::largest_key") or via(c.args[1], "::largest_key")]
        R.check(rule, FM_CMP + "|orders-by-smallest-key", ok, where(cmpb), "files are ordered by (smallest key, file number) ascending, (a, b) order",
                "smallest-key comparisons %d, file-number comparisons %d" % (len(sk), len(fnum)))
    ac = P.body(VB + "::apply_changes")
    if ac is None:
        R.missing_anchor(rule, VB + "::apply_changes")
    else:
        R.analysed(ac)
        adds = [c for c in ac.calls() if not ac.is_cleanup(c.bb) and c.name == VB + "::maybe_add_file"]
        R.floor(rule, "maybe_add_file sites in apply_changes", len(adds), 1)

        def named_roots(body, op):
            return {body.local_name(l) for l in roots(body, op) if body.local_name(l)}
        # the merge step: on the edge `compare(X, Y) == Less` X is emitted, otherwise Y
        det = []
        n_merge = 0
        for c in comparisons(ac):
            lo, ro = c.lhs_origins(), c.rhs_origins()
            cs_ = [o for o in lo if o.kind == "call" and o.name == FM_CMP and o.site is not None]
            less = any(o.kind == "agg" and (o.name or "").endswith("Ordering::Less") for o in ro)
            greater = any(o.kind == "agg" and (o.name or "").endswith("Ordering::Greater") for o in ro)
            if not cs_ or not (less or greater) or c.op not in ("eq", "ne"):
                continue
            n_merge += 1
            site = cs_[0].site
            x, y = named_roots(ac, site.args[0]), named_roots(ac, site.args[1])
            first_edges = [(c.bb, t) for t in (c.true_t if c.op == "eq" else c.false_t)]
            other_edges = [(c.bb, t) for t in (c.false_t if c.op == "eq" else c.true_t)]
            want_first, want_other = (x, y) if less else (y, x)
            for a in adds:
                if a.bb not in ac.reachable(c.bb):
                    continue
                fr = named_roots(ac, a.args[3])
                # the first maybe_add_file reached over each edge, before the next comparison
                for edges, want, lab in ((first_edges, want_first, "smaller"), (other_edges, want_other, "other")):
                    for e in edges:
                        r = ac.reachable(e[1], removed_nodes=[c.bb])
                        if a.bb in r and ac.must_pass(a.bb, through_edges=[e], start=c.bb) and not (fr & want):
                            det.append("on the `%s` edge of the merge comparison the emitted file is %s, expected one of %s" % (lab, sorted(fr), sorted(want)))
        R.check(rule, VB + "::apply_changes|merge-emits-smaller-first", n_merge >= 1 and not det, where(ac),
                "the merge of base files and added files emits the file that compares smaller first", "; ".join(sorted(set(det))) or "merge comparisons %d" % n_merge)
        # the lists that are merged were sorted with the smallest-key comparator in (a, b) order
        sorts = [c for c in ac.calls() if not ac.is_cleanup(c.bb) and (c.name or "").endswith("::sort_by")]
        oks = bool(sorts)
        for c in sorts:
            for cp in ac.closure_of_operand(c.args[1]):
                cb = P.bodies.get(cp)
                if cb is None:
                    continue
                R.analysed(cb)
                inner = [x for x in cb.calls() if not cb.is_cleanup(x.bb) and x.name == FM_CMP]
                if not inner:
                    oks = False
                for x in inner:
                    a0 = {o.name for o in origins(cb, x.args[0]) if o.kind == "param"}
                    a1 = {o.name for o in origins(cb, x.args[1]) if o.kind == "param"}
                    if not (a0 and a1 and max(a0) < min(a1)):
                        oks = False
        R.check(rule, VB + "::apply_changes|lists-sorted-ascending", oks, where(ac), "both input lists are sorted ascending with the smallest-key comparator", "sort sites %d" % len(sorts))
    ma = P.body(VB + "::maybe_add_file")
    if ma is None:
        R.missing_anchor(rule, VB + "::maybe_add_file")
    else:
        R.analysed(ma)
        pushes = [c for c in ma.calls() if not ma.is_cleanup(c.bb) and c.name == "std::vec::Vec::push" and any(o.kind == "param" and o.name == 4 for o in origins(ma, c.args[1]))]
        cont = [c for c in ma.calls() if not ma.is_cleanup(c.bb) and (c.name or "").endswith("HashSet::contains") and any("deleted_files" in o.path for o in origins(ma, c.args[0]))]
        keep = []
        for c in cont:
            for t in _bt(ma, c.dest["l"]):
                keep += [(t.bb, x) for x in t.err]
        fn_ok = all(any(o.kind == "call" and (o.name or "").endswith("::file_number") for o in origins(ma, c.args[1])) for c in cont)
        ok = bool(pushes) and bool(cont) and fn_ok and all(ma.must_pass(p_.bb, through_edges=keep) for p_ in pushes)
        R.check(rule, VB + "::maybe_add_file|deleted-files-are-dropped", ok, where(ma),
                "a file is appended to the new version only on the edge `deleted_files[level]` does not contain its number", "push sites %d, contains tests %d" % (len(pushes), len(cont)))
    acc = P.body(VB + "::accumulate_changes")
    if acc is None:
        R.missing_anchor(rule, VB + "::accumulate_changes")
    else:
        R.analysed(acc)
        ins_del = [c for c in acc.calls() if not acc.is_cleanup(c.bb) and (c.name or "").endswith("HashSet::insert") and any("deleted_files" in o.path for o in origins(acc, c.args[0]))]
        ins_add = [c for c in acc.calls() if not acc.is_cleanup(c.bb) and (c.name or "").endswith("::insert") and any("added_files" in o.path for o in origins(acc, c.args[0]))]
        rm_del = [c for c in acc.calls() if not acc.is_cleanup(c.bb) and (c.name or "").endswith("HashSet::remove") and any("deleted_files" in o.path for o in origins(acc, c.args[0]))]
        ok = bool(ins_del) and bool(ins_add) and bool(rm_del) and all(in_cycle(acc, c.bb) for c in ins_del + ins_add + rm_del)
        R.check(rule, VB + "::accumulate_changes|records-deletions-and-additions", ok, where(acc),
                "every deleted file of the edit is recorded per level; every new file is recorded and un-deleted",
                "deleted.insert %d, added.insert %d, deleted.remove %d" % (len(ins_del), len(ins_add), len(rm_del)))


# ------------------------------------------------------------------------------------------- PAIR-12 (file, level) pairs are written together
PAIRED_FIELDS = [
    ("versioning::version::SeekChargeMetadata", "seek_file", "seek_file_level"),
    ("versioning::version::SeekCompactionMetadata", "file_to_compact", "level_of_file_to_compact"),
    ("tables::table::TwoLevelIterator", "maybe_data_block_iter", "data_block_handle"),
]


def pair12_file_level_pairs(P, R, L, rule="PAIR-12", only=None):
    """A table file is identified to the compaction picker by (file, level): remove_file(level, number) and
    add_file(level + 1, ..) of a seek-triggered trivial move use the stored level. The two fields of each pair are
    therefore always written together: every store of one is control-equivalent to a store of the other."""
    n = 0
    for adt, fa, fb in PAIRED_FIELDS:
        if (only is not None and adt not in only) or (only is None and adt == "tables::table::TwoLevelIterator"):
            continue
        for p, b in sorted(P.bodies.items()):
            sa = [s for s in field_stores(b, fa, adt=adt)]
            sb = [s for s in field_stores(b, fb, adt=adt)]
            if not sa and not sb:
                continue
            R.analysed(b)
            n += 1
            det = []

            def equivalent(x, y):
                """store blocks x, y: one dominates the other and the later one is unavoidable after the earlier one"""
                first, second = (x, y) if b.dominates(x, y) else ((y, x) if b.dominates(y, x) else (None, None))
                if first is None:
                    return False
                if first == second:
                    return True
                succ = [t for _, t in b.edges(first) if not b.is_cleanup(t)]
                for s0 in succ:
                    r = b.reachable(s0, removed_nodes=[second])
                    if first in r or any(x_ in r for x_ in b.return_blocks()):
                        return False
                return True
            for s in sb:
                if not any(equivalent(a[0], s[0]) for a in sa):
                    det.append("the store of %s at line %s has no accompanying store of %s" % (fb, s[2].get("line"), fa))
            for a in sa:
                if not any(equivalent(a[0], s[0]) for s in sb):
                    det.append("the store of %s at line %s has no accompanying store of %s" % (fa, a[2].get("line"), fb))
            R.check(rule, "%s|%s+%s" % (p, fa, fb), not det, where(b), "%s and %s are always written together" % (fa, fb), "; ".join(det) or "%d + %d stores" % (len(sa), len(sb)))
    R.floor(rule, "bodies that write a paired field", n, 3)


# ------------------------------------------------------------------------------------------- SRC-1 the client iterator merges every source
def src1_iterator_sources(P, R, L, rule="SRC-1"):
    """DB::new_iterator merges the mutable memtable, the immutable memtable (whenever there is one) and every iterator
    of the current version; Version::get_representative_iterators yields one iterator per level-0 file and one
    concatenating iterator per non-empty deeper level, for every level."""
    b = P.body(NEW_ITER)
    if b is None:
        R.missing_anchor(rule, NEW_ITER)
    else:
        R.analysed(b)
        sink = [c for c in b.calls() if not b.is_cleanup(c.bb) and c.name == "versioning::file_iterators::MergingIterator::new"]
        if not sink:
            R.check(rule, NEW_ITER + "|anchors", False, where(b), "new_iterator builds a MergingIterator", "not found")
        else:
            s0 = sink[0]
            vec = {l for l in roots(b, s0.args[0]) if b.local_name(l)}
            adds = [c for c in b.calls() if not b.is_cleanup(c.bb) and c.name in ("std::vec::Vec::push", "std::vec::Vec::append", "std::vec::Vec::extend", "<std::vec::Vec<T, A> as std::iter::Extend<T>>::extend")
                    and roots(b, c.args[0]) & vec]

            def fed_by(c, pred):
                for o in origins(b, c.args[1]):
                    if o.kind == "call" and pred(o):
                        return True
                return False

            def recv(o):
                return origins(b, o.site.args[0]) if o.site is not None and o.site.args else []
            mem = [c for c in adds if fed_by(c, lambda o: o.name == "memtable::MemTable::iter" and any(x.kind == "call" and x.name == MEMTABLE for x in recv(o)))]
            imm = [c for c in adds if fed_by(c, lambda o: o.name == "memtable::MemTable::iter" and any("maybe_immutable_memtable" in x.path for x in recv(o)))]
            def imm_map(o):
                """`maybe_immutable_memtable.as_ref().map(|m| m.iter())`: Option::map keeps None-ness, the payload is the closure's result"""
                if not ((o.name or "").startswith("std::option::Option") and (o.name or "").endswith("::map")) or o.site is None or len(o.site.args) != 2:
                    return False
                if not any("maybe_immutable_memtable" in x.path for x in recv(o)):
                    return False
                for ao in origins(b, o.site.args[1]):
                    cb_ = P.bodies.get(ao.name) if ao.kind == "agg" else None
                    if cb_ is not None and cb_.kind == "closure":
                        return any(r.kind == "call" and r.name == "memtable::MemTable::iter" and r.site is not None and
                                   any(x.kind == "param" and x.name == 2 for x in origins(cb_, r.site.args[0]))
                                   for r in origins(cb_, {"l": 0, "p": []}))
                return False
            imm += [c for c in adds if c not in imm and fed_by(c, imm_map)]
            ver = [c for c in adds if fed_by(c, lambda o: o.name == "versioning::version::Version::get_representative_iterators")]
            ok_m = bool(mem) and b.must_pass(s0.bb, through_nodes=[c.bb for c in mem])
            ok_v = bool(ver) and b.must_pass(s0.bb, through_nodes=[c.bb for c in ver])
            none_edges = []
            for c in b.calls():
                if not b.is_cleanup(c.bb) and c.name in ("std::option::Option::is_some", "std::option::Option::is_none") and c.args and \
                        any("maybe_immutable_memtable" in o.path for o in origins(b, c.args[0])):
                    for t in _bt(b, c.dest["l"]):
                        none_edges += [(t.bb, x) for x in (t.err if c.name.endswith("is_some") else t.ok)]
            from ..rules import _switches_on_local, switch_target
            for bb in range(b.n):
                for st in b.blocks[bb]["stmts"]:
                    if st["k"] == "assign" and st["rv"]["k"] == "discr" and not st["pl"]["p"] and "Option<" in b.local_ty(st["rv"]["pl"]["l"]) and \
                            any("maybe_immutable_memtable" in o.path or (o.kind == "call" and imm_map(o)) for o in origins(b, {"k": "copy", "pl": st["rv"]["pl"]})):
                        for sb in _switches_on_local(b, st["pl"]["l"]):
                            none_edges.append((sb, switch_target(b.term(sb), 0)))
            ok_i = bool(imm) and bool(none_edges) and b.must_pass(s0.bb, through_nodes=[c.bb for c in imm], through_edges=none_edges)
            R.check(rule, NEW_ITER + "|memtable-iterator-merged", ok_m, s0.where(), "the mutable memtable's iterator is always among the merged children", "push sites %d" % len(mem))
            R.check(rule, NEW_ITER + "|immutable-memtable-iterator-merged", ok_i, s0.where(),
                    "the immutable memtable's iterator is merged on every path except the one where there is none", "push sites %d, none-edges %d" % (len(imm), len(none_edges)))
            R.check(rule, NEW_ITER + "|version-iterators-merged", ok_v, s0.where(), "the current version's iterators are always among the merged children", "sites %d" % len(ver))
    g = P.body("versioning::version::Version::get_representative_iterators")
    if g is None:
        return R.missing_anchor(rule, "versioning::version::Version::get_representative_iterators")
    R.analysed(g)
    pushes = [c for c in g.calls() if not g.is_cleanup(c.bb) and c.name == "std::vec::Vec::push"]
    l0 = [c for c in pushes if any(o.kind == "call" and o.name == "tables::table::Table::iter_with" for o in origins(g, c.args[1]))]
    ln = [c for c in pushes if any(o.kind == "call" and o.name == "versioning::file_iterators::FilesEntryIterator::new" for o in origins(g, c.args[1]))]
    ok0 = bool(l0) and all(in_cycle(g, c.bb) for c in l0)
    # level-0 loop iterates files[0]; the table opened is the file's own number
    tbl = [c for c in g.calls() if not g.is_cleanup(c.bb) and c.name == "table_cache::TableCache::find_table"]
    ok0 = ok0 and bool(tbl) and all(any(o.kind == "call" and (o.name or "").endswith("::file_number") for o in origins(g, c.args[1])) for c in tbl)
    R.check(rule, g.path + "|one-iterator-per-level0-file", ok0, where(g), "every level-0 file gets its own table iterator (opened by the file's number), inside the loop over files[0]", "push sites %d" % len(l0))
    # deeper levels: Range { 1, MAX } and the only skip is the is_empty edge
    rng = None
    for bb in range(g.n):
        for st in g.blocks[bb]["stmts"]:
            if st["k"] == "assign" and st["rv"]["k"] == "aggregate" and "Range" in (st["rv"].get("adt") or ""):
                if len(st["rv"]["ops"]) != 2:
                    continue
                a, e = st["rv"]["ops"]
                if a["k"] == "const" and e["k"] == "const":
                    rng = (a.get("val"), e.get("val"))
    # number of levels: the bound of the version builder's `for level in 0..MAX_NUM_LEVELS` (sibling agreement, no literal)
    nlev = None
    vb = P.body(VB + "::apply_changes")
    if vb is not None:
        for bb in range(vb.n):
            for st in vb.blocks[bb]["stmts"]:
                if st["k"] == "assign" and st["rv"]["k"] == "aggregate" and "Range" in (st["rv"].get("adt") or ""):
                    if len(st["rv"]["ops"]) != 2:
                        continue
                    a, e = st["rv"]["ops"]
                    if a["k"] == "const" and e["k"] == "const" and a.get("val") == "0":
                        nlev = e.get("val")
    okr = rng is not None and rng[0] == "1" and nlev is not None and rng[1] == nlev
    nxt_calls = ["std::iter::range::next"]
    if rng is None:
        # `for level_files in self.files.iter().skip(1)`: every level but the first
        sk = [c for c in g.calls() if not g.is_cleanup(c.bb) and (c.name or "").endswith("::skip") and len(c.args) == 2 and c.args[1]["k"] == "const"
              and c.args[1].get("val") == "1" and any("files" in o.path for o in deep_origins(P, g, c.args[0]) + origins(g, c.args[0])) ]
        if not sk:
            sk = [c for c in g.calls() if not g.is_cleanup(c.bb) and (c.name or "").endswith("::skip") and len(c.args) == 2 and c.args[1]["k"] == "const"
                  and c.args[1].get("val") == "1" and any(o.kind == "call" and o.site is not None and any("files" in x.path for x in origins(g, o.site.args[0]))
                                                          for o in origins(g, c.args[0]))]
        okr = len(sk) == 1
        rng = ("skip(1)", "all") if okr else None
        nxt_calls = None
    empty_edges = []
    fe_new = [c for c in g.calls() if not g.is_cleanup(c.bb) and c.name == "versioning::file_iterators::FilesEntryIterator::new"]
    level_list_sig = set()
    for c in fe_new:
        level_list_sig |= {(o.kind, o.name, o.site.bb if o.site is not None else None) for o in origins(g, c.args[0])}
    for c in g.calls():
        if g.is_cleanup(c.bb) or not (c.name or "").endswith("::is_empty"):
            continue
        os_ = origins(g, c.args[0])
        same_list = bool({(o.kind, o.name, o.site.bb if o.site is not None else None) for o in os_} & level_list_sig)
        if any("files" in o.path for o in os_) or same_list:
            for t in _bt(g, c.dest["l"]):
                empty_edges += [(t.bb, x) for x in t.ok]
    okn = bool(ln) and all(in_cycle(g, c.bb) for c in ln)
    if okn:
        # from the loop's `Some(level)` edge every path back to the loop head passes the push or the is_empty edge
        nxt = [c for c in g.calls() if not g.is_cleanup(c.bb) and ((nxt_calls and c.name in nxt_calls) or
               (not nxt_calls and (c.declared_name or "") == "std::iter::Iterator::next" and "Skip" in (c.name or "") + str(c.t.get("self_ty") or "")))]
        for n_ in nxt:
            for t in option_tests(g, n_.dest["l"]):
                for e in t.ok:
                    r = g.reachable(e, removed_nodes=[c.bb for c in ln], removed_edges=empty_edges)
                    if n_.bb in r:
                        okn = False
    R.check(rule, g.path + "|one-iterator-per-deeper-level", okr and okn, where(g),
            "levels 1..MAX_NUM_LEVELS each contribute a concatenating iterator unless the level is empty", "range %s, push sites %d, empty-level edges %d" % (rng, len(ln), len(empty_edges)))


# ------------------------------------------------------------------------------------------- SRC-2 the point-lookup candidate list
def src2_lookup_candidates(P, R, L, rule="SRC-2"):
    """Version::get_overlapping_files: level-0 candidates are ordered newest file first (descending file number), every
    deeper level is consulted (1..MAX_NUM_LEVELS) and its candidate is filed under its own level; Version::get walks
    the levels in ascending order."""
    fn = "versioning::version::Version::get_overlapping_files"
    b = P.body(fn)
    if b is None:
        return R.missing_anchor(rule, fn)
    R.analysed(b)
    sorts = [c for c in b.calls() if not b.is_cleanup(c.bb) and ("sort_by_key" in (c.name or "") or "sort_by" in (c.name or "") or "sort_unstable_by" in (c.name or ""))]
    newest_first = False
    for c in sorts:
        for cp in b.closure_of_operand(c.args[1]):
            cb = P.bodies.get(cp)
            if cb is None:
                continue
            R.analysed(cb)
            for bb in range(cb.n):
                for st in cb.blocks[bb]["stmts"]:
                    if st["k"] == "assign" and st["rv"]["k"] == "aggregate" and (st["rv"].get("adt") or "").endswith("cmp::Reverse") and \
                            any(o.kind == "call" and (o.name or "").endswith("::file_number") for o in origins(cb, st["rv"]["ops"][0])):
                        newest_first = True
            # sort_by(|a, b| b.file_number().cmp(&a.file_number()))
            for cc in cb.calls():
                if (cc.declared_name or "") == "std::cmp::Ord::cmp" and len(cc.args) == 2:
                    def p_of(op):
                        for o in origins(cb, op):
                            if o.kind == "call" and (o.name or "").endswith("::file_number") and o.site is not None:
                                ps = {x.name for x in origins(cb, o.site.args[0]) if x.kind == "param"}
                                if len(ps) == 1:
                                    return ps.pop()
                        return None
                    a0, a1 = p_of(cc.args[0]), p_of(cc.args[1])
                    if a0 and a1 and a0 > a1:
                        newest_first = True
    # the sort comes after the level-0 collection loop and before the return
    ok_sort = newest_first and bool(sorts) and all(b.must_pass(r, through_nodes=[c.bb for c in sorts]) for r in b.return_blocks())
    R.check(rule, fn + "|level0-newest-first", ok_sort, where(b), "level-0 candidates are sorted by descending file number on every path", "sort sites %d" % len(sorts))
    rng = None
    for bb in range(b.n):
        for st in b.blocks[bb]["stmts"]:
            if st["k"] == "assign" and st["rv"]["k"] == "aggregate" and "Range" in (st["rv"].get("adt") or ""):
                if len(st["rv"]["ops"]) != 2:
                    continue
                a, e = st["rv"]["ops"]
                if a["k"] == "const" and e["k"] == "const":
                    rng = (a.get("val"), e.get("val"))
    nlev = None
    vb = P.body(VB + "::apply_changes")
    if vb is not None:
        for bb in range(vb.n):
            for st in vb.blocks[bb]["stmts"]:
                if st["k"] == "assign" and st["rv"]["k"] == "aggregate" and "Range" in (st["rv"].get("adt") or ""):
                    if len(st["rv"]["ops"]) != 2:
                        continue
                    a, e = st["rv"]["ops"]
                    if a["k"] == "const" and e["k"] == "const" and a.get("val") == "0":
                        nlev = e.get("val")
    R.check(rule, fn + "|all-deeper-levels", rng is not None and rng[0] == "1" and nlev is not None and rng[1] == nlev, where(b),
            "levels 1..MAX_NUM_LEVELS are all consulted", "range %s, number of levels %s" % (rng, nlev))
    # candidate filed under its own level: the push target files[i] and the source self.files[j] use the same index local
    ff = [c for c in b.calls() if not b.is_cleanup(c.bb) and c.name == "versioning::utils::find_file_with_upper_bound_range"]
    pushes = [c for c in b.calls() if not b.is_cleanup(c.bb) and c.name == "std::vec::Vec::push" and in_cycle(b, c.bb)]
    ok_lvl = bool(ff)

    def named_src(l, depth=0):
        if b.local_name(l) is not None or depth > 6:
            return l
        ds = [x for x in b.defs().get(l, []) if x[0] == "stmt" and x[3]["rv"]["k"] == "use" and x[3]["rv"]["ops"][0]["k"] in ("copy", "move")
              and not x[3]["rv"]["ops"][0]["pl"]["p"]]
        return named_src(ds[0][3]["rv"]["ops"][0]["pl"]["l"], depth + 1) if len(ds) == 1 else l
    _il = _index_locals
    _index_locals_n = lambda body, op: [named_src(x) for x in _il(body, op)]
    for f_ in ff:
        src_idx = set(_index_locals_n(b, f_.args[0]))
        after = [p_ for p_ in pushes if p_.bb in b.reachable(f_.bb)]
        tgt_idx = set()
        for p_ in after:
            tgt_idx |= set(_index_locals_n(b, p_.args[0]))
        if not src_idx or not tgt_idx or tgt_idx != src_idx:
            ok_lvl = False
    R.check(rule, fn + "|candidate-filed-under-its-level", ok_lvl, where(b), "the file found in self.files[level] is pushed to files[level]", "")
    g = P.body(VERSION_GET)
    if g is not None:
        R.analysed(g)
        rev = [c for c in g.calls() if not g.is_cleanup(c.bb) and ((c.name or "").endswith("::rev") or "iter::Rev" in (c.name or ""))]
        R.check(rule, VERSION_GET + "|levels-ascending", not rev, where(g), "Version::get walks the candidate lists from level 0 downwards (no reversed iteration)", "rev sites %d" % len(rev))


# ------------------------------------------------------------------------------------------- GRD-16 trivial move only without parent-level inputs
def grd16_trivial_move(P, R, L, rule="GRD-16"):
    """A compaction may be done by re-labelling the input file's level only when it is the single input and NO file of
    the parent level overlaps it: otherwise the moved file overlaps a parent-level file (the version builder's
    non-overlap assertion then kills the compaction thread, or reads binary-search a non-disjoint level)."""
    fn = "compaction::manifest::CompactionManifest::is_trivial_move"
    b = P.body(fn)
    if b is None:
        return R.missing_anchor(rule, fn)
    R.analysed(b)

    def which_input(op):
        """0 / 1 / None: which element of input_files the operand refers to"""
        for o in origins(b, op):
            if o.kind == "call" and (o.name or "").endswith("::get_compaction_level_files"):
                return 0
        for il in _index_locals(b, op):
            for d in b.defs().get(il, []):
                if d[0] == "stmt" and d[3]["rv"]["k"] == "use" and d[3]["rv"]["ops"][0]["k"] == "const":
                    if any("input_files" in o.path for o in origins(b, op)):
                        return int(d[3]["rv"]["ops"][0].get("val"))
        return None

    def len_of(os_):
        for o in os_:
            if o.kind == "call" and (o.name or "").endswith("::len") and o.site is not None:
                return which_input(o.site.args[0])
        return None
    single, empty = [], []
    for c in comparisons(b):
        lo, ro = c.lhs_origins(), c.rhs_origins()
        for (x, y) in ((lo, ro), (ro, lo)):
            w = len_of(x)
            cv = [o.name for o in y if o.kind == "const"]
            eq_edges = [(c.bb, t) for t in (c.true_t if c.op == "eq" else c.false_t if c.op == "ne" else [])]
            if w == 0 and cv == ["1"]:
                single += eq_edges
            if w == 1 and cv == ["0"]:
                empty += eq_edges
    for c in b.calls():
        if not b.is_cleanup(c.bb) and (c.name or "").endswith("::is_empty") and which_input(c.args[0]) == 1:
            for t in _bt(b, c.dest["l"]):
                empty += [(t.bb, x) for x in t.ok]
    maybe_true = []
    for bb in range(b.n):
        if b.is_cleanup(bb):
            continue
        for st in b.blocks[bb]["stmts"]:
            if st["k"] == "assign" and st["pl"]["l"] == 0 and not st["pl"]["p"]:
                rv = st["rv"]
                if not (rv["k"] == "use" and rv["ops"][0]["k"] == "const" and rv["ops"][0].get("val") == "0"):
                    maybe_true.append(bb)
    ok = bool(maybe_true) and bool(single) and bool(empty) and all(b.must_pass(x, through_edges=single) and b.must_pass(x, through_edges=empty) for x in maybe_true)
    R.check(rule, fn + "|single-input-and-no-parent-files", ok, where(b),
            "`true` is returned only over the edges `compaction-level inputs == 1` and `parent-level inputs == 0`",
            "single-input edges %d, empty-parent edges %d, possibly-true returns %s" % (len(single), len(empty), maybe_true))
    g = P.body("compaction::manifest::CompactionManifest::get_compaction_level_files")
    if g is not None:
        R.analysed(g)
        ok0 = False
        for bb in range(g.n):
            for st in g.blocks[bb]["stmts"]:
                if st["k"] == "assign" and st["rv"]["k"] in ("ref",):
                    for e in st["rv"]["pl"]["p"]:
                        if isinstance(e, dict) and "idx" in e:
                            for d in g.defs().get(e["idx"], []):
                                if d[0] == "stmt" and d[3]["rv"]["k"] == "use" and d[3]["rv"]["ops"][0]["k"] == "const" and d[3]["rv"]["ops"][0].get("val") == "0":
                                    ok0 = True
                        if isinstance(e, dict) and e.get("ci") == 0:
                            ok0 = True
        R.check(rule, g.path + "|is-input-0", ok0, where(g), "get_compaction_level_files is input_files[0]", "")


# ------------------------------------------------------------------------------------------- GRD-17 flush output level
def grd17_memtable_output_level(P, R, L, rule="GRD-17"):
    """Version::pick_level_for_memtable_output pushes a flushed table below level 0 only while nothing in level 0 and
    nothing in the next level overlaps its user-key range (otherwise the newest data would sit below older data)."""
    fn = "versioning::version::Version::pick_level_for_memtable_output"
    b = P.body(fn)
    if b is None:
        return R.missing_anchor(rule, fn)
    R.analysed(b)
    HAS = "versioning::version::Version::has_overlap_in_level"
    tests = [c for c in b.calls() if not b.is_cleanup(c.bb) and c.name == HAS]
    # the level variable: the named usize local(s) the return value is copied from
    lvl = []
    for bb in range(b.n):
        for st in b.blocks[bb]["stmts"]:
            if st["k"] == "assign" and st["pl"]["l"] == 0 and not st["pl"]["p"] and st["rv"]["k"] == "use" and st["rv"]["ops"][0]["k"] in ("copy", "move"):
                l0 = st["rv"]["ops"][0]["pl"]["l"]
                if b.local_name(l0) is not None and b.local_ty(l0) == "usize" and l0 not in lvl:
                    lvl.append(l0)
    incs = []
    for bb in range(b.n):
        if b.is_cleanup(bb):
            continue
        for st in b.blocks[bb]["stmts"]:
            if st["k"] == "assign" and not st["pl"]["p"] and st["pl"]["l"] in lvl and any(
                    o.kind == "binop" and o.name.startswith("Add") for o in origins(b, {"k": "copy", "pl": st["pl"]}) ) and st["rv"]["k"] != "use" or \
                    (st["k"] == "assign" and not st["pl"]["p"] and st["pl"]["l"] in lvl and st["rv"]["k"] == "use" and st["rv"]["ops"][0]["k"] in ("copy", "move")
                     and any(o.kind == "binop" and o.name.startswith("Add") for o in origins(b, st["rv"]["ops"][0]))):
                incs.append(bb)
    f0, f1 = [], []
    arg_ok = True
    for c in tests:
        a1 = origins(b, c.args[1])
        is0 = any(o.kind == "const" and o.name == "0" for o in a1)
        is_next = any(o.kind == "binop" and o.name.startswith("Add") and o.extra and any(
            x["k"] == "const" and x.get("val") == "1" for x in o.extra[1]["rv"]["ops"]) for o in a1)
        edges = [(t.bb, x) for t in _bt(b, c.dest["l"]) for x in t.err]
        if is0:
            f0 += edges
        elif is_next:
            f1 += edges
        # the range handed over is (smallest, largest) = (param 2, param 3)
        p2 = any(o.kind == "param" and o.name == 2 for o in origins(b, c.args[2]))
        p3 = any(o.kind == "param" and o.name == 3 for o in origins(b, c.args[3]))
        if not (p2 and p3):
            arg_ok = False
    ok = bool(incs) and bool(f0) and bool(f1) and arg_ok and all(b.must_pass(i, through_edges=f0) for i in incs)
    if ok:
        for (sb, tgt) in f0:
            for i in incs:
                if not b.must_pass(i, through_edges=f1, start=tgt):
                    ok = False
    R.check(rule, fn + "|deeper-only-without-overlap", ok, where(b),
            "the output level is raised only behind `no overlap in level 0` and, per step, `no overlap in level + 1`, tested with (smallest, largest)",
            "level increments %s, level-0 gates %d, next-level gates %d, range args ok %s" % (incs, len(f0), len(f1), arg_ok))


# ------------------------------------------------------------------------------------------- PAIR-13 every written data block is indexed
def pair13_block_indexed(P, R, L, rule="PAIR-13"):
    """TableBuilder: whenever flush_data_block wrote a block (Ok(Some(handle))), an index entry carrying that handle is
    added before the method returns Ok — a block without an index entry cannot be reached by seek / get / iteration.
    The footer receives (metaindex handle, index handle) in that order."""
    FLUSHB = "tables::table_builder::TableBuilder::flush_data_block"
    BADD = "tables::block_builder::BlockBuilder::add_entry"
    n = 0
    for fn in ("tables::table_builder::TableBuilder::add_entry", "tables::table_builder::TableBuilder::finalize"):
        b = P.body(fn)
        if b is None:
            R.missing_anchor(rule, fn)
            continue
        R.analysed(b)
        fl = [c for c in b.calls() if not b.is_cleanup(c.bb) and c.name == FLUSHB]

        def helper_handle_param(path):
            """k if the local helper `path` unconditionally adds an index entry whose handle is its k-th parameter"""
            h = P.bodies.get(path)
            if h is None:
                return None
            for c in h.calls():
                if not h.is_cleanup(c.bb) and c.name == BADD and any("index_block_builder" in o.path for o in origins(h, c.args[0])) \
                        and all(h.must_pass(r, through_nodes=[c.bb]) for r in h.return_blocks()):
                    ps = {o.name for o in origins(h, c.args[2]) if o.kind == "param"}
                    if len(ps) == 1:
                        R.analysed(h)
                        return ps.pop()
            return None
        for f_ in fl:
            n += 1
            from_flush = lambda op: any(o.kind == "call" and o.site is not None and o.site.bb == f_.bb for o in origins(b, op))
            idx = [c for c in b.calls() if not b.is_cleanup(c.bb) and c.name == BADD and any("index_block_builder" in o.path for o in origins(b, c.args[0]))
                   and from_flush(c.args[2])]
            for c in b.calls():
                if not b.is_cleanup(c.bb) and c.t.get("local") and not c.t.get("dyn") and c.t.get("resolved") in P.bodies and c.name != BADD:
                    k = helper_handle_param(c.t["resolved"])
                    if k is not None and k - 1 < len(c.args) and from_flush(c.args[k - 1]):
                        idx.append(c)
            # Some-edges of the unwrapped flush result
            some = []
            for l in range(len(b.locals)):
                ty = b.local_ty(l)
                if "Option<tables::block_handle::BlockHandle>" in ty and not ty.startswith("std::result") and not ty.startswith("std::ops::ControlFlow"):
                    if any(o.kind == "call" and o.site is not None and o.site.bb == f_.bb for o in origins(b, {"k": "copy", "pl": {"l": l, "p": []}})):
                        for t in option_tests(b, l):
                            some += [(t.bb, x) for x in t.ok]
            # the handle may be matched as a component of a tuple: `if let (Some(h), ..) = (maybe_handle, ..)`
            from ..rules import _switches_on_local
            for bb in range(b.n):
                for st in b.blocks[bb]["stmts"]:
                    if st["k"] == "assign" and st["rv"]["k"] == "discr" and not st["pl"]["p"]:
                        pl = st["rv"]["pl"]
                        if any(isinstance(e, dict) and "f" in e for e in pl["p"]) and b.local_ty(pl["l"]).startswith("(") and \
                                any(o.kind == "call" and o.site is not None and o.site.bb == f_.bb for o in origins(b, pl)):
                            for sb in _switches_on_local(b, st["pl"]["l"]):
                                some.append((sb, switch_target(b.term(sb), 1)))
            ok = bool(idx) and bool(some)
            for (sb, tg) in some:
                for r in _ok_blocks(b):
                    if not b.must_pass(r, through_nodes=[c.bb for c in idx], start=tg):
                        ok = False
            # the separator comes from the last key of the block that was flushed
            key_ok = all(any("maybe_last_key_added" in o.path for o2 in origins(b, c.args[1]) if o2.kind == "call" and o2.site is not None
                             for a_ in o2.site.args for o in deep_origins(P, b, a_)) or
                         any("maybe_last_key_added" in o.path for o in deep_origins(P, b, c.args[1])) for c in idx)
            R.check(rule, "%s|flushed-block-gets-index-entry" % fn, ok, f_.where(),
                    "on the edge where flush_data_block returned a handle, an index entry with that handle is added before Ok is returned",
                    "index add sites fed by this flush %d, some-edges %d, separator from last key %s" % (len(idx), len(some), key_ok))
    R.floor(rule, "flush_data_block sites in add_entry / finalize", n, 2)
    fz = P.body("tables::table_builder::TableBuilder::finalize")
    if fz is not None:
        ft = [c for c in fz.calls() if not fz.is_cleanup(c.bb) and c.name == "tables::footer::Footer::new"]
        wb = [c for c in fz.calls() if not fz.is_cleanup(c.bb) and c.name == "tables::table_builder::TableBuilder::write_block"]
        ok = bool(ft) and len(wb) >= 2

        def fed(c):
            """which finalize() output feeds this write_block: 'index' (index_block_builder) or 'meta'"""
            os_ = deep_origins(P, fz, c.args[1])
            if any("index_block_builder" in o.path for o in os_) or any(
                    o.kind == "call" and o.site is not None and any("index_block_builder" in x.path for a_ in o.site.args for x in origins(fz, a_)) for o in os_):
                return "index"
            return "meta"
        pairs = [(c.args[0], c.args[1]) for c in ft]
        if not ft:
            # the footer may be written by a private helper that receives the two handles
            for c in fz.calls():
                h = P.bodies.get(c.t.get("resolved") or "")
                if fz.is_cleanup(c.bb) or h is None or c.t.get("dyn") or not c.t.get("local"):
                    continue
                for x in h.calls():
                    if not h.is_cleanup(x.bb) and x.name == "tables::footer::Footer::new":
                        p0 = {o.name for o in origins(h, x.args[0]) if o.kind == "param"}
                        p1 = {o.name for o in origins(h, x.args[1]) if o.kind == "param"}
                        if len(p0) == 1 and len(p1) == 1:
                            i0, i1 = p0.pop() - 1, p1.pop() - 1
                            if max(i0, i1) < len(c.args):
                                R.analysed(h)
                                pairs.append((c.args[i0], c.args[i1]))
            ok = bool(pairs) and len(wb) >= 2
        for (m_op, i_op) in pairs:
            a0 = [o.site for o in origins(fz, m_op) if o.kind == "call" and o.site is not None and o.name.endswith("write_block")]
            a1 = [o.site for o in origins(fz, i_op) if o.kind == "call" and o.site is not None and o.name.endswith("write_block")]
            if not a0 or not a1 or fed(a0[0]) != "meta" or fed(a1[0]) != "index":
                ok = False
        R.check(rule, fz.path + "|footer-handles", ok, where(fz), "Footer::new(handle of the metaindex block, handle of the index block)", "footer sites %d" % len(ft))


# ------------------------------------------------------------------------------------------- GRD-18 short reads are noticed
def grd18_short_reads(P, R, L, rule="GRD-18"):
    """`Read::read` may return fewer bytes than asked for (always at the end of the data). Outside the file-system
    implementations every call to it either is `read_exact` or has its byte count compared with the expected length:
    a parser that accepts a short buffer silently invents the missing bytes (zeros)."""
    n, exact = 0, 0
    for p, b in sorted(P.bodies.items()):
        if p.startswith("<fs::") or p.startswith("fs::"):
            continue
        for c in b.calls():
            if b.is_cleanup(c.bb):
                continue
            dn = c.declared_name or ""
            if dn == "std::io::Read::read_exact":
                exact += 1
            if dn != "std::io::Read::read":
                continue
            n += 1
            R.analysed(b)
            is_n = lambda os_, c=c: any(o.kind == "call" and o.site is not None and o.site.bb == c.bb for o in os_)
            used = False
            for cmp_ in comparisons(b):
                if is_n(cmp_.lhs_origins()) or is_n(cmp_.rhs_origins()):
                    used = True
            R.check(rule, "%s|read-count-checked" % p, used, c.where(), "the number of bytes returned by read() is compared with the expected length (or read_exact is used)", "")
    R.floor(rule, "read_exact / checked read sites outside fs::", n + exact, 4)
    # the same for writes: `Write::write` may accept fewer bytes than offered; the table / log writers account offsets by the
    # length they meant to write, so they must use write_all (or loop on the count)
    nw, wall = 0, 0
    for p, b in sorted(P.bodies.items()):
        if p.startswith("<fs::") or p.startswith("fs::"):
            continue
        for c in b.calls():
            if b.is_cleanup(c.bb):
                continue
            dn = c.declared_name or ""
            if dn == "std::io::Write::write_all":
                wall += 1
            if dn != "std::io::Write::write":
                continue
            nw += 1
            R.analysed(b)
            is_n = lambda os_, c=c: any(o.kind == "call" and o.site is not None and o.site.bb == c.bb for o in os_)
            used = any(is_n(cmp_.lhs_origins()) or is_n(cmp_.rhs_origins()) for cmp_ in comparisons(b))
            R.check(rule, "%s|write-count-checked" % p, used, c.where(), "write_all is used, or the number of bytes accepted by write() is compared with the buffer length", "")
    R.floor(rule, "write_all / checked write sites outside fs::", nw + wall, 4)


# ------------------------------------------------------------------------------------------- OWN-10 block cache partitions
def own10_cache_partitions(P, R, L, rule="OWN-10"):
    """Every open table gets its own block-cache partition id (read-modify-write of the id counter inside ONE write-lock
    region) and caches its blocks under (that id, the block's offset): two tables sharing an id serve each other's blocks."""
    nid = [b for p, b in P.bodies.items() if p.endswith("::new_id") and "LRUCache" in p]
    if not nid:
        R.missing_anchor(rule, "LRUCache::new_id")
    for b in nid:
        R.analysed(b)
        locks = [c for c in b.calls() if not b.is_cleanup(c.bb) and c.name in (RW_READ, RW_WRITE)]
        st = field_stores(b, "last_id_given")
        ok = len(locks) == 1 and locks[0].name == RW_WRITE and bool(st) and all(s[0] != locks[0].bb and b.must_pass(s[0], through_nodes=[locks[0].bb]) for s in st)
        R.check(rule, b.path + "|id-allocated-in-one-write-region", ok, where(b), "the id counter is incremented and read under a single write lock",
                "lock acquisitions: %s" % [c.name.rsplit("::", 1)[1] for c in locks])
    keys = 0
    for p, b in sorted(P.bodies.items()):
        for c in b.calls():
            if b.is_cleanup(c.bb) or c.name != "tables::table::BlockCacheKey::new":
                continue
            keys += 1
            R.analysed(b)
            ok = any("cache_partition_id" in o.path for o in origins(b, c.args[0])) and \
                any(o.kind == "call" and (o.name or "").endswith("BlockHandle::get_offset") for o in origins(b, c.args[1]))
            R.check(rule, p + "|block-cache-key", ok, c.where(), "blocks are cached under (this table's partition id, the block handle's offset)", "")
    R.floor(rule, "BlockCacheKey::new sites", keys, 2)
    op = P.body("tables::table::Table::open")
    if op is not None:
        R.analysed(op)
        ids = [c for c in op.calls() if not op.is_cleanup(c.bb) and (c.declared_name or c.name or "").endswith("::new_id")]
        R.check(rule, op.path + "|fresh-partition-per-table", bool(ids), where(op), "Table::open allocates a fresh partition id", "new_id sites %d" % len(ids))


# ------------------------------------------------------------------------------------------- OWN-11 table cache keyed by the file number
def own11_table_cache_key(P, R, L, rule="OWN-11"):
    """TableCache::find_table looks up, opens and caches the table under one and the same file number (its parameter);
    the table handed back on a miss is the one that was just opened from that file."""
    fn = "table_cache::TableCache::find_table"
    b = P.body(fn)
    if b is None:
        return R.missing_anchor(rule, fn)
    R.analysed(b)
    is_p = lambda op: any(o.kind == "param" and o.name == 2 for o in origins(b, op))
    gets = [c for c in b.calls() if not b.is_cleanup(c.bb) and (c.declared_name or "").endswith("Cache::get")]
    ins = [c for c in b.calls() if not b.is_cleanup(c.bb) and (c.declared_name or "").endswith("Cache::insert")]
    paths = [c for c in b.calls() if not b.is_cleanup(c.bb) and c.name == "file_names::FileNameHandler::get_table_file_path"]
    opens = [c for c in b.calls() if not b.is_cleanup(c.bb) and c.name == "tables::table::Table::open"]
    if not opens:
        # the open may live in a private helper `(file number) -> Table`
        for c in b.calls():
            h = P.bodies.get(c.t.get("resolved") or "")
            if b.is_cleanup(c.bb) or h is None or c.t.get("dyn") or not c.t.get("local"):
                continue
            hp = [x for x in h.calls() if not h.is_cleanup(x.bb) and x.name == "file_names::FileNameHandler::get_table_file_path"]
            ho = [x for x in h.calls() if not h.is_cleanup(x.bb) and x.name == "tables::table::Table::open"]
            if hp and ho:
                ks = {o.name for x in hp for o in origins(h, x.args[1]) if o.kind == "param"}
                fine = len(ks) == 1 and all(any(o.kind == "call" and (o.name or "").endswith("::open_file") for o in origins(h, x.args[1])) for x in ho) and \
                    any(o.kind == "call" and o.name == "tables::table::Table::open" for bb_ in _ok_blocks(h) or h.return_blocks() for st_ in h.blocks[bb_]["stmts"]
                        if st_["k"] == "assign" and st_["pl"]["l"] == 0 for op_ in st_["rv"].get("ops", []) if op_["k"] in ("copy", "move") for o in origins(h, op_)) or \
                    any(x.dest["l"] == 0 for x in ho)
                k = ks.pop() if len(ks) == 1 else None
                if fine and k is not None and k - 1 < len(c.args) and is_p(c.args[k - 1]):
                    R.analysed(h)
                    helper_open = c
                    paths, opens = [c], [c]
                    helper_mode = True
    helper_mode = bool(opens) and opens[0].name != "tables::table::Table::open"
    ok = bool(gets) and bool(ins) and bool(paths) and bool(opens) and all(is_p(c.args[1]) for c in gets + ins) and \
        (helper_mode or all(is_p(c.args[1]) for c in paths))
    # the inserted value is the table opened from that path
    val_ok = all(any(o.kind == "call" and (o.name == "tables::table::Table::open" or (helper_mode and o.site is not None and o.site.bb == opens[0].bb))
                     for o in origins(b, c.args[2])) for c in ins)
    file_ok = helper_mode or all(any(o.kind == "call" and (o.declared_name if hasattr(o, "declared_name") else o.name or "").endswith("open_file") or
                      (o.kind == "call" and (o.name or "").endswith("::open_file")) for o in origins(b, c.args[1])) for c in opens)
    R.check(rule, fn + "|one-key", ok and val_ok and file_ok, where(b),
            "cache lookup, file path and cache insertion all use the requested file number; the cached value is the table opened from that file",
            "get %d insert %d path %d open %d; key ok %s, value ok %s, file ok %s" % (len(gets), len(ins), len(paths), len(opens), ok, val_ok, file_ok))


# ------------------------------------------------------------------------------------------- GRD-19 level-0 compaction inputs are closed under overlap
def grd19_level0_inputs_closed(P, R, L, rule="GRD-19"):
    """VersionSet::pick_compaction: whenever the picked level is 0 — for a size-triggered AND for a seek-triggered
    compaction — the inputs are replaced by every level-0 file that overlaps them. Level-0 files overlap each other:
    moving one of them down alone leaves an older overlapping file above it, which then shadows newer data."""
    fn = "versioning::version_set::VersionSet::pick_compaction"
    b = P.body(fn)
    if b is None:
        return R.missing_anchor(rule, fn)
    R.analysed(b)
    fin = [c for c in b.calls() if not b.is_cleanup(c.bb) and c.name == "compaction::manifest::CompactionManifest::finalize_compaction_inputs"]
    exp = [c for c in b.calls() if not b.is_cleanup(c.bb) and "get_overlapping_compaction_inputs" in (c.name or "")]
    if not exp:
        # the expansion may have been extracted into a private helper (which must both query the overlaps and replace the inputs)
        for c in b.calls():
            h = P.bodies.get(c.t.get("resolved") or "")
            if b.is_cleanup(c.bb) or h is None or c in fin or c.t.get("dyn") or not c.t.get("local"):
                continue
            hq = [x for x in h.calls() if not h.is_cleanup(x.bb) and "get_overlapping_compaction_inputs" in (x.name or "")]
            hput = [x for x in h.calls() if not h.is_cleanup(x.bb) and x.name in ("std::vec::Vec::append", "std::vec::Vec::extend", "std::vec::Vec::push",
                                                                                   "<std::vec::Vec<T, A> as std::iter::Extend<T>>::extend")]
            if hq and hput and all(h.must_pass(r, through_nodes=[x.bb for x in hq]) for r in h.return_blocks()):
                R.analysed(h)
                exp.append(c)
    # `level != 0` edges
    nonzero = []
    for c in comparisons(b):
        lo, ro = c.lhs_origins(), c.rhs_origins()
        for x, y in ((lo, ro), (ro, lo)):
            if any(o.kind == "const" and o.name == "0" for o in y) and x and not any(o.kind == "const" for o in x) and \
                    any(o.kind in ("call", "field", "param", "local") for o in x):
                if c.op == "eq":
                    nonzero += [(c.bb, t) for t in c.false_t]
                elif c.op == "ne":
                    nonzero += [(c.bb, t) for t in c.true_t]
                elif c.op == "gt" and x is lo:
                    nonzero += [(c.bb, t) for t in c.true_t]
    targets = [c.bb for c in fin] or [r for r in b.return_blocks()]
    # paths that return None before any inputs were picked do not count: start from the blocks that push an input file
    pushes = [c for c in b.calls() if not b.is_cleanup(c.bb) and c.name == "std::vec::Vec::push"]
    ok = bool(exp) and bool(nonzero) and bool(pushes) and bool(targets)
    bad = []
    for p_ in pushes:
        if any(p_.bb in b.reachable(e.bb) for e in exp):
            continue      # a push after the expansion (re-filling the list)
        for t in targets:
            if t in b.reachable(p_.bb) and not b.must_pass(t, through_nodes=[e.bb for e in exp], through_edges=nonzero, start=p_.target if p_.target is not None else p_.bb):
                bad.append("from the input pushed at line %s the inputs are finalized without the level-0 expansion or a `level != 0` edge" % p_.line)
    R.check(rule, fn + "|level0-inputs-expanded-for-every-trigger", ok and not bad, where(b),
            "every path from picking an input file to finalize_compaction_inputs passes the level-0 overlap expansion or a `level != 0` edge",
            "; ".join(sorted(set(bad))) or "expansion sites %d, non-zero-level edges %d, input pushes %d" % (len(exp), len(nonzero), len(pushes)))



# ------------------------------------------------------------------------------------------- rule bundles
# A rule is evaluated for every property it is a necessary condition of. The bundles below name the groups that travel
# together; `R.once` keeps a rule that a property's module already ran from being evaluated (and reported) twice.
def bundle_retention(P, R, L):
    """what compaction and flushing keep, drop and where they put it (a resurrected or lost entry is wrong for every reader)"""
    R.clause("RETAIN", "retention bundle: GRD-2 / ORD-7 (drop guards, oldest snapshot), GRD-10 (closed intervals), GRD-14 / GRD-19 (level-0 inputs "
             "closed under overlap), GRD-17 (flush level), PAIR-9 (boundary inputs), ACC-1 (range accumulators), ORD-3 / ORD-3c (install before drop, never after an error or a shutdown-shortened merge), "
             "PAIR-12 / PAIR-15 (seek-compaction file, level and version belong together)")
    R.once(grd2_retention, P, R, L)
    R.once(ord7_smallest_snapshot, P, R, L)
    R.once(grd10_closed_intervals, P, R, L)
    R.once(grd14_manual_inputs, P, R, L)
    R.once(grd19_level0_inputs_closed, P, R, L)
    R.once(grd17_memtable_output_level, P, R, L)
    R.once(pair9_boundary_inputs, P, R, L)
    R.once(pair9_levels, P, R, L)
    R.once(acc1, P, R, L)
    R.once(ord3_flush, P, R, L)
    R.once(ord3_tables, P, R, L)
    R.once(ord3c_shutdown_not_installed, P, R, L)
    R.once(pair15_charge_same_version, P, R, L)
    R.once(pair12_file_level_pairs, P, R, L)
    R.once(grd30_base_level_cursor, P, R, L)
    from . import round12
    R.clause("PAIR-9 (chain)", "add_boundary_inputs keys its boundary search by the largest key of the input set and continues from the largest key of the file it just added")
    R.once(round12.pair9c_boundary_search_continues_from_the_largest_key, P, R, L)
    R.clause("LVL-2", "is_base_level_for_key scans the levels from <compaction level> + 2 (the first level below the output level), however the expression is spelled")
    R.once(round12.lvl2_base_level_scan_start, P, R, L)
    R.clause("EXP-1", "the level-0 input expansion compares files with the WIDENED range, restarts when a file widens the start, stores a wider end, and goes on to the next file only after both widening tests came out false")
    R.once(round12.exp1_level0_expansion_fixpoint, P, R, L)
    from . import blind
    R.clause("SNAP-1", "every snapshot owns a list node of its own and its release removes that node unconditionally (the oldest live snapshot bounds what a compaction may drop)")
    R.once(blind.snap1_one_node_per_snapshot, P, R, L)


def bundle_liveness(P, R, L):
    """files a reader may still open are not deleted"""
    R.clause("LIVE", "liveness bundle: GRD-5 (deletion guards incl. files of every linked version), PAIR-1 (version pins), OWN-12 (release unlinks that version), LIST-1 (a walk over the version list visits every version), ORD-13 (pending outputs stay registered until installed), cache eviction before delete")
    from . import c11
    R.once(c11.grd5, P, R, L)
    R.once(c11.pair1, P, R, L)
    R.once(cache_eviction, P, R, L)
    R.once(own12_release_unlinks_that_version, P, R, L)
    R.once(c11.ord13, P, R, L)
    R.once(list1_iteration_covers_the_list, P, R, L)
    from . import blind
    R.clause("LST-1", "the intrusive list behind the version list and the snapshot list: remove_node unlinks exactly the given node on both sides, push_node appends behind the old tail")
    R.once(blind.lst1_link_repairs, P, R, L)


def bundle_readpath(P, R, L):
    """how a lookup / scan finds the newest visible entry"""
    R.clause("READ", "read-path bundle: KEY-1 (key order), VERD-1 (verdicts, tombstones stop the search), GRD-3 (sequence filter), GRD-13 (file search), "
             "SRC-1 / SRC-2 (all sources, newest first), SRC-3 (which file a level iterator opens), WRAP-1 (wrapper iterators reposition their child), "
             "PAIR-5 (filter registration), OWN-10 / OWN-11 (cache keys)")
    from . import c14
    R.once(key1_internal_key_order, P, R, L)
    R.once(verd1, P, R, L)
    R.once(grd3_sequence_filter, P, R, L)
    R.once(grd13_find_file_compares_internal_keys, P, R, L)
    R.once(src1_iterator_sources, P, R, L)
    R.once(src2_lookup_candidates, P, R, L)
    bundle_filter(P, R, L)
    R.once(own10_cache_partitions, P, R, L)
    R.once(own11_table_cache_key, P, R, L)
    R.once(ord21_file_loader_commits_after_open, P, R, L)
    R.once(lvl1_level_loops_cover_all_levels, P, R, L)
    R.once(verd2_not_found_only_for_a_miss, P, R, L)
    R.once(atom1_positional_read_is_one_operation, P, R, L)
    agr2_codec_pairs(P, R, L, groups=("table",))
    R.once(grd27_separator_strictly_below_next_key, P, R, L)
    R.once(src3_level_iterator_file_selection, P, R, L)
    R.once(wrap1_delegation, P, R, L)
    R.once(pair13_index_key_provenance, P, R, L)
    from . import blind
    R.clause("BSRCH-1", "the binary searches over block entries and level files are lower-bound searches (lo = mid + 1 only behind `element < target`)")
    R.once(blind.bsrch1_lower_bound_searches, P, R, L)
    R.clause("BLK-1", "the block iterator's cursor: one step behind is_valid(), parked at len when a step is refused, first = 0, last = len - 1")
    R.once(blind.blk1_block_cursor, P, R, L)
    R.clause("MRG-1", "the merging iterator makes the child with the strictly smallest (forward) / largest (backward) key current, looking at every child")
    R.once(blind.mrg1_merge_selection, P, R, L)
    R.clause("ENUM-1", "the hand-written tag decoders (Operation, BlockType, compression type, manifest field tags) invert the enums' discriminants")
    R.once(blind.enum1_tag_decoders, P, R, L)
    R.clause("PAIR-8 (turn-around)", "when the merge turns round a child is stepped back behind is_valid() and put on its last entry behind !is_valid() (current() of a caching child is stale once it ran off its end)")
    R.once(blind.pair8c_turnaround_decided_by_is_valid, P, R, L)
    R.clause("OWN-15", "KeyNotFound (`go on to the next older source`) is built only where a source was searched: Table::get, the memtable's get, DB::get")
    R.once(blind.own15_who_may_say_not_found, P, R, L)
    R.clause("BLKW-1", "the entry header lengths of a block reach the buffer only as varint-encoder output (no hand-written bytes)")
    R.once(blind.blkw1_entry_header_through_the_codec, P, R, L)
    R.clause("ITR-3", "the collapse loops of the client iterator move the inner iterator one record at a time (no re-seek shortcut)")
    R.once(blind.itr3_collapse_loops_only_step, P, R, L)
    R.clause("BLKR-1", "the block reader parses entries while the cursor is below the end of the entry area (no minimum-size cut-off: entries can be 4 bytes short)")
    R.once(blind.blkr1_reader_consumes_every_entry, P, R, L)
    from . import round11
    R.clause("MEM-1", "the memtable iterator positions with the skip-list primitive of its direction (>= target, first, last, successor of the current key, last node < the current key); insert stores the key / value it was given")
    R.once(round11.mem1_memtable_iterator_primitives, P, R, L)
    R.clause("CACHE-1", "CachingIterator refreshes is_valid / cached_entry from its child after every repositioning and answers from that cache")
    R.once(round11.cache1_caching_iterator_refresh, P, R, L)
    from . import round12
    R.clause("CACHE-2", "the LRU cache behind the table cache and the block cache is asked, filled and pruned with the caller's key (an eviction unmaps the evicted key); partition ids are fresh; a block-cache miss reads and caches the requested handle")
    R.once(round12.cache2_cache_identity, P, R, L)
    R.clause("BSRCH-2", "BlockIter::seek keeps the cursor (no store to current_index) only on the true edge of `current key == target`")
    R.once(round12.bsrch2_block_seek_shortcut, P, R, L)
    R.clause("SEP-1", "the InternalKey-level separator / successor use the shortened user key only when it is shorter AND larger than the user key (otherwise the key itself): an index key never sorts below the last key of its block")
    R.once(round12.sep1_shortened_key_is_guarded, P, R, L)
    R.clause("PAIR-8 (skip key)", "a backward-to-forward turn of the client iterator keeps the key that is being shown as the key to skip (it is not replaced by a key read from the inner iterator)")
    R.once(round12.pair8d_reversal_keeps_shown_key, P, R, L)
    R.clause("PAIR-8 (skip flag)", "find_next_client_entry is started in skipping mode by next() only; the positioning moves (seek, seek_to_first) start it with skipping off (or after clearing the saved key): a leftover saved key never hides visible entries")
    R.once(round12.pair8e_skip_flag_matches_the_move, P, R, L)
    R.clause("PAIR-18", "a reader that makes its capture of the immutable memtable depend on the has_immutable_memtable flag needs a flag that is lowered only after the slot was emptied (conjunction of two sites; either alone is accepted)")
    R.once(round12.pair18_flush_flag_mirrors_slot, P, R, L)
    R.clause("OWN-16", "the client iterator becomes valid only inside its two collapse loops (which apply the sequence filter and skip tombstones / shadowed versions)")
    R.once(round12.own16_client_iterator_validity, P, R, L)


def bundle_recovery(P, R, L):
    """what a reopen restores"""
    R.clause("RECOVER", "recovery bundle: GRD-33 / AGR-3 (the batch decoder advances by what it consumed; length guards stay below the encoder's minimum), GRD-1 / ORD-6 (which WALs are replayed, in sorted order), ORD-8c (recovered sequence), ROLE-4 (persisted counters), "
             "GRD-11 (block offset of a re-used log), GRD-12 (only completely consumed logs are re-used), TS-1 / GRD-6 (log reader), FS-1 (create_file modes)")
    R.once(ord8c_recovered_sequence, P, R, L)
    R.once(role4_counters, P, R, L)
    from . import round12 as _r12
    R.once(_r12.role4_last_record_wins, P, R, L)
    R.once(_r12.role3_snapshot_levels, P, R, L)
    R.once(grd11_reopen_offset, P, R, L)
    R.once(grd12_reuse_only_complete_logs, P, R, L)
    R.once(grd12_cursor_counts_complete_reads, P, R, L)
    R.once(grd12_fully_consumed_is_exact, P, R, L)
    R.once(ts1, P, R, L)
    R.once(grd6, P, R, L)
    R.once(fs1_create_file_modes, P, R, L)
    R.once(grd22_flush_during_compaction, P, R, L)
    from . import c02
    R.once(c02.grd1_replay, P, R, L)
    agr2_codec_pairs(P, R, L, groups=("batch", "log", "manifest"))
    R.once(grd33_decoder_reports_consumed_bytes, P, R, L)
    R.once(grd34_batch_loop_bounded_by_count, P, R, L)
    R.once(grd36_new_manifest_number_is_fresh, P, R, L)
    R.once(fs2_disk_operations_are_their_namesakes, P, R, L)
    R.once(agr3_minimum_length_guards, P, R, L)
    R.once(grd26_reused_flag_truthful, P, R, L)
    R.once(grd28_last_wal_flag, P, R, L)
    R.once(pair17_recovery_flush_forces_manifest, P, R, L)
    R.once(grd31_open_honours_manifest_reuse_result, P, R, L)
    # an error met while the database is opened is an error of the open call (a listing, a log, a manifest that cannot be
    # read must not be answered with "nothing there"): ERR-1 restricted to the recovery functions
    from . import c08
    R.clause("ERR-1", "error discipline of the open / recovery path (subset of C08's ERR-1)")
    c08.err1_subset(P, R, L, ["db::DB::open", "db::DB::recover", "db::DB::get_all_db_files", "db::DB::set_current_file",
                              "versioning::version_set::VersionSet::recover", "versioning::version_set::VersionSet::maybe_reuse_manifest",
                              "logs::LogReader::", "<batch::Batch as std::convert::TryFrom"])
    R.once(grd24_reuse_adopts_number_with_file, P, R, L)
    from . import blind
    R.clause("ORD-23", "a completely read log fragment is counted in the reader's cursor and block offset before it is parsed")
    R.once(blind.ord23_reader_position_follows_the_file, P, R, L)
    R.clause("GRD-6 (source)", "ErrorKind::UnexpectedEof - which read_record turns into a clean end of the log - is constructed only behind a short read")
    R.once(blind.grd6b_eof_only_from_a_short_read, P, R, L)
    R.clause("FS-3", "the in-memory file system's rename moves the file (replacing the destination) and remove_file removes it; Ok only when that happened")
    R.once(blind.fs3_memory_rename_and_remove, P, R, L)
    R.clause("ENUM-1", "the hand-written tag decoders (Operation, BlockType, compression type, manifest field tags) invert the enums' discriminants")
    R.once(blind.enum1_tag_decoders, P, R, L)
    R.clause("ERR-5", "every From<io::Error> files the error under the IO variant, whatever its kind (the WAL reader skips what is classified as damage)")
    R.once(blind.err5_io_errors_keep_their_class, P, R, L)
    from . import round11
    R.clause("FS-4", "the crate's own std::io::Read implementations tell the end of a file by a short count / ErrorKind::UnexpectedEof only")
    R.once(round11.fs4_end_of_file_contract, P, R, L)


def bundle_filter(P, R, L):
    """a filter that wrongly answers 'no' turns a stored key into 'not in this file' for every point lookup"""
    R.clause("FILTER", "filter bundle: PAIR-5 / PAIR-5b (population), AGR-1 (Bloom writer/reader agreement), GRD-8 (fail open), GRD-15 (policy match), GRD-7 (probe)")
    from . import c14
    R.once(c14.pair5, P, R, L)
    R.once(c14.pair5b, P, R, L)
    R.once(c14.agr1, P, R, L)
    R.once(c14.grd8, P, R, L)
    R.once(c14.grd15, P, R, L)
    R.once(grd7, P, R, L)
    from . import blind
    R.once(blind.agr5_filter_index_from_the_plain_offset, P, R, L)
    from . import round12 as _r12f
    R.once(_r12f.grd15b_filter_block_name_carries_the_policy, P, R, L)
    # the filter a lookup trusts is made of verified bytes (the filter block is stored raw: a checksum that is only compared on the
    # compressed path lets zeroed Bloom bits answer `not in this file`)
    R.once(ord14, P, R, L)
    R.once(own5, P, R, L)


def bundle_no_assertion_trips(P, R, L):
    """conditions whose violation trips an always-on assertion on the compaction thread (which then never clears the
    scheduled flag: every waiter hangs)"""
    R.clause("NOPANIC", "compaction-thread assertion bundle: PAIR-9 (parent inputs cover the boundary-expanded range), GRD-16 (trivial move), ROLE-5 "
             "(version builder order), GRD-14 (non-empty manual inputs), PAIR-10 (closed builder removed), ORD-17 (manual slot), GRD-22 (flush inside a compaction), PAIR-14 (input expansion), GRD-23 (read sampling threshold), GRD-25 (finish only with an open builder)")
    R.once(pair9_boundary_inputs, P, R, L)
    R.once(pair9_levels, P, R, L)
    R.once(grd16_trivial_move, P, R, L)
    R.once(role5_version_builder, P, R, L)
    R.once(own13_edit_lists, P, R, L)
    R.once(grd35_picked_compaction_has_an_input, P, R, L)
    R.once(grd14_manual_inputs, P, R, L, parts=("nonempty",))
    R.once(pair10_builder_slot, P, R, L)
    R.once(ord17_manual_slot, P, R, L)
    R.once(grd22_flush_during_compaction, P, R, L)
    R.once(pair14_input_expansion, P, R, L)
    R.once(grd23_read_sample_threshold, P, R, L)
    R.once(grd25_finish_only_with_builder, P, R, L)
    R.once(ord20_empty_block_tested_before_finalize, P, R, L)
    R.once(grd32_flush_time_is_a_sub_interval, P, R, L)
    from . import blind
    R.once(blind.ts3_no_abandon_after_finalize, P, R, L)


# ------------------------------------------------------------------------------------------- GRD-20 a database is created only when none exists
def grd20_create_only_when_missing(P, R, L, rule="GRD-20"):
    """DB::recover initialises a fresh database (new manifest, CURRENT) only on the edge where opening CURRENT failed with
    the specific error kind NotFound — any other failure to open CURRENT of an existing database must be reported, not
    answered by starting over (the garbage collection that follows would delete every table file)."""
    fn = "db::DB::recover"
    b = P.body(fn)
    if b is None:
        return R.missing_anchor(rule, fn)
    R.analysed(b)
    init = [c for c in b.calls() if not b.is_cleanup(c.bb) and c.name == "db::DB::initialize_as_new_db"]
    kind_src = lambda os_: any(o.kind == "call" and o.name in ("errors::DBIOError::kind", "std::io::Error::kind") for o in os_)
    edges = []
    for bb in range(b.n):
        for st in b.blocks[bb]["stmts"]:
            if st["k"] == "assign" and st["rv"]["k"] == "discr" and kind_src(origins(b, {"k": "copy", "pl": st["rv"]["pl"]})):
                d = st["pl"]["l"]
                for sb in range(b.n):
                    t = b.term(sb)
                    if t["k"] == "switch" and t["discr"]["k"] in ("copy", "move") and t["discr"]["pl"]["l"] == d:
                        for v, tg in t["targets"]:
                            if int(v) == 0 and tg != t.get("otherwise"):      # std::io::ErrorKind::NotFound is the first variant
                                edges.append((sb, tg))
    for c in comparisons(b):
        is_nf = lambda os_: any((o.kind == "const" and isinstance(o.name, str) and "NotFound" in o.name) or
                                (o.kind == "agg" and (o.name or "").endswith("NotFound")) for o in os_)
        edges += c.edges_where("eq", kind_src, is_nf)
    ok = bool(init) and bool(edges) and all(b.must_pass(c.bb, through_edges=edges) for c in init)
    # ... and only when the caller asked for it
    cim = []
    for c in b.calls():
        if not b.is_cleanup(c.bb) and (c.name or "").endswith("::create_if_missing"):
            for t in _bt(b, c.dest["l"]):
                cim += [(t.bb, x) for x in t.ok]
    ok2 = bool(cim) and all(b.must_pass(c.bb, through_edges=cim) for c in init)
    R.check(rule, fn + "|new-database-only-when-current-is-missing", ok and ok2, where(b),
            "initialize_as_new_db is reached only over `open(CURRENT)` failing with ErrorKind::NotFound and `create_if_missing`",
            "init sites %d, NotFound edges %d, create_if_missing edges %d" % (len(init), len(edges), len(cim)))


# ------------------------------------------------------------------------------------------- GRD-21 a failed install removes only the manifest it created
def grd21_manifest_cleanup(P, R, L, rule="GRD-21"):
    """VersionSet::log_and_apply: on a failed manifest write the manifest file is removed only when THIS call created
    it (the flag returned by get_new_version_from_current, evaluated before the file is created). Removing the live
    manifest CURRENT points at makes the database unopenable."""
    b = P.body(LOG_AND_APPLY)
    if b is None:
        return R.missing_anchor(rule, LOG_AND_APPLY)
    R.analysed(b)
    GNV = "versioning::version_set::VersionSet::get_new_version_from_current"
    rms = [c for c in b.calls() if not b.is_cleanup(c.bb) and (c.declared_name or "").endswith("FileSystem::remove_file")
           and any(o.kind == "call" and (o.name or "").endswith("::get_manifest_file_path") for o in origins(b, c.args[1]))]
    if not rms:
        # the clean-up may have been extracted into a private helper
        for c in b.calls():
            h = P.bodies.get(c.t.get("resolved") or "")
            if b.is_cleanup(c.bb) or h is None or c.t.get("dyn") or not c.t.get("local") or c.name == GNV:
                continue
            if any(not h.is_cleanup(x.bb) and (x.declared_name or "").endswith("FileSystem::remove_file")
                   and any(o.kind == "call" and (o.name or "").endswith("::get_manifest_file_path") for o in origins(h, x.args[1])) for x in h.calls()):
                R.analysed(h)
                rms.append(c)
    flag_edges = []
    for l in range(len(b.locals)):
        if b.local_ty(l) != "bool":
            continue
        os_ = origins(b, {"k": "copy", "pl": {"l": l, "p": []}})
        if os_ and all(o.kind == "call" and o.name == GNV for o in os_):
            for t in _bt(b, l):
                flag_edges += [(t.bb, x) for x in t.ok]
    ok = bool(rms) and bool(flag_edges) and all(b.must_pass(c.bb, through_edges=flag_edges) for c in rms)
    R.check(rule, LOG_AND_APPLY + "|removes-only-the-manifest-it-created", ok, where(b),
            "remove_file(manifest path) lies behind the true edge of the created-a-new-manifest flag returned by get_new_version_from_current",
            "manifest removal sites %d, flag edges %d" % (len(rms), len(flag_edges)))
    g = P.body(GNV)
    if g is None:
        return R.missing_anchor(rule, GNV)
    R.analysed(g)
    # the flag is `maybe_manifest_file.is_none()` evaluated before the manifest is created / stored
    okf, det = False, "no Ok((version, flag)) tuple"
    stores = [s[0] for s in field_stores(g, "maybe_manifest_file")]
    for bb in _ok_blocks(g):
        for st in g.blocks[bb]["stmts"]:
            if st["k"] == "assign" and st["pl"]["l"] == 0 and st["rv"]["k"] == "aggregate" and st["rv"].get("variant") == "Ok":
                tup = st["rv"]["ops"][0]
                if tup["k"] not in ("copy", "move"):
                    continue
                for d in g.defs().get(tup["pl"]["l"], []):
                    if d[0] == "stmt" and d[3]["rv"]["k"] == "aggregate" and d[3]["rv"]["ak"] == "tuple" and len(d[3]["rv"]["ops"]) == 2:
                        os_ = origins(g, d[3]["rv"]["ops"][1])
                        sites = [o.site for o in os_ if o.kind == "call" and o.name == "std::option::Option::is_none" and o.site is not None
                                 and any("maybe_manifest_file" in x.path for x in origins(g, o.site.args[0]))]
                        if sites and len(sites) == len(os_):
                            early = all(not any(s.bb in g.reachable(x) for x in stores) for s in sites)
                            okf = early
                            det = "flag = maybe_manifest_file.is_none() at line %s, %s the store of the new manifest writer" % (
                                sites[0].line, "before" if early else "AFTER")
                        else:
                            det = "flag origins %s" % [(o.kind, o.name) for o in os_]
    R.check(rule, GNV + "|flag-means-created-here", okf, where(g), "the flag is `maybe_manifest_file.is_none()` sampled before this call creates the manifest", det)


# ------------------------------------------------------------------------------------------- FS-1 create_file honours its append flag
def fs1_create_file_modes(P, R, L, rule="FS-1"):
    """Every FileSystem::create_file implementation honours `append`: with append = true an existing file is continued at
    its END (a re-used WAL / manifest is appended to, never overwritten from the start); with append = false the file
    starts empty. The log writers and the re-use logic (OWN-7, OWN-9, GRD-11, GRD-12) assume exactly this."""
    impls = [im for im in P.trait_impls.get("fs::traits::FileSystem::create_file", []) if im in P.bodies]
    R.floor(rule, "FileSystem::create_file implementations", len(impls), 3)
    for im in impls:
        b = P.bodies[im]
        R.analysed(b)
        flag_param = 3             # param 3: append
        if "fs_disk" in b.file and not [c for c in b.calls() if not b.is_cleanup(c.bb) and c.name == "std::fs::OpenOptions::append"]:
            # the OpenOptions may be built by a private helper that receives the flag
            for c in b.calls():
                h = P.bodies.get(c.t.get("resolved") or "")
                if b.is_cleanup(c.bb) or h is None or c.t.get("dyn") or not c.t.get("local"):
                    continue
                ks = [i_ + 1 for i_, a in enumerate(c.args) if a["k"] in ("copy", "move") and any(o.kind == "param" and o.name == 3 and not o.path for o in origins(b, a))]
                if len(ks) == 1 and any(x.name == "std::fs::OpenOptions::append" for x in h.calls()):
                    R.analysed(h)
                    b, flag_param = h, ks[0]
                    break
        tests = _bt(b, flag_param)
        t_edges = [(t.bb, x) for t in tests for x in t.ok]
        f_edges = [(t.bb, x) for t in tests for x in t.err]
        oks = _ok_blocks(b) or b.return_blocks()
        if "fs_disk" in b.file:
            ap = [c for c in b.calls() if not b.is_cleanup(c.bb) and c.name == "std::fs::OpenOptions::append"]
            tr = [c for c in b.calls() if not b.is_cleanup(c.bb) and c.name == "std::fs::OpenOptions::truncate"]
            def flag_arg(c, negated):
                if len(c.args) < 2:
                    return False
                a = c.args[1]
                if a["k"] == "const":
                    return a.get("val") == "1"
                os_ = origins(b, a)
                if not negated:
                    return bool(os_) and all(o.kind == "param" and o.name == flag_param and not o.path for o in os_)
                # truncate(!append)
                return bool(os_) and all(o.kind == "unop" and str(o.name) == "Not" and o.extra and all(
                    x.kind == "param" and x.name == flag_param for x in origins(b, o.extra[1]["rv"]["ops"][0])) for o in os_)
            ok = bool(ap) and bool(tr) and all(flag_arg(c, False) for c in ap) and all(flag_arg(c, True) for c in tr)
            # append(true) only on the append edge (or append(append)); truncate(true) only on the other edge
            for c in ap:
                if c.args[1]["k"] == "const" and not (t_edges and b.must_pass(c.bb, through_edges=t_edges)):
                    ok = False
            for c in tr:
                if c.args[1]["k"] == "const" and not (f_edges and b.must_pass(c.bb, through_edges=f_edges)):
                    ok = False
            # every Ok return has passed one of the two
            if ok and not all(b.must_pass(r, through_nodes=[c.bb for c in ap + tr]) for r in oks):
                ok = False
            R.check(rule, im + "|open-mode-follows-append-flag", ok, where(b), "OpenOptions::append(true) on the append edge, truncate(true) on the other, one of them on every path",
                    "append sites %d, truncate sites %d" % (len(ap), len(tr)))
        else:
            cur = [s_ for s_ in field_stores(b, "cursor")]
            at_end = [s_ for s_ in cur if any(o.kind == "call" and (o.name or "").endswith("::len") for op in s_[2]["rv"].get("ops", []) for o in origins(b, op))]
            fresh = [c for c in b.calls() if not b.is_cleanup(c.bb) and (c.name or "").endswith("LockableInMemoryFile::new")]
            ok = bool(tests) and bool(at_end) and bool(fresh)
            # an Ok return reached over the append edge without creating a fresh file has moved the cursor to the end
            for (sb, tg) in t_edges:
                for r in oks:
                    if r in b.reachable(tg) and not b.must_pass(r, through_nodes=[s_[0] for s_ in at_end] + [c.bb for c in fresh], start=tg):
                        ok = False
            # without append the returned file is a fresh one
            for (sb, tg) in f_edges:
                for r in oks:
                    if r in b.reachable(tg) and not b.must_pass(r, through_nodes=[c.bb for c in fresh], start=tg):
                        ok = False
            R.check(rule, im + "|open-mode-follows-append-flag", ok, where(b),
                    "append: the existing file's cursor is moved to its end; otherwise a fresh empty file replaces it",
                    "cursor-to-end stores %d, fresh-file sites %d, append tests %d" % (len(at_end), len(fresh), len(tests)))


# ------------------------------------------------------------------------------------------- GRD-22 a flush inside a running table compaction stays at level 0
def grd22_flush_during_compaction(P, R, L, rule="GRD-22"):
    """The outputs of a running table compaction are in no version, so pick_level_for_memtable_output cannot see them:
    a memtable flushed in the middle of compact_tables' merge loop must not be placed below level 0 (it could land inside
    the key range the compaction is writing; installing the compaction then trips the version builder's overlap assertion
    on the compaction thread). Checked shape: every flush reachable from compact_tables hands convert_memtable_to_file no
    base version — directly, or through compact_memtable's flag parameter."""
    cm = P.body(COMPACT_MEMTABLE)
    if cm is None:
        return R.missing_anchor(rule, COMPACT_MEMTABLE)
    R.analysed(cm)
    flag = [l for l in range(1, cm.nargs + 1) if cm.local_ty(l) == "bool"]
    only_none = lambda body, op: bool(origins(body, op)) and all(o.kind == "agg" and (o.name or "").endswith("Option::None") for o in origins(body, op))
    n = 0
    for p, b in sorted(P.bodies.items()):
        if not p.startswith(COMPACT_TABLES):
            continue
        for c in b.calls():
            if b.is_cleanup(c.bb):
                continue
            if c.name == CONVERT:
                n += 1
                R.analysed(b)
                R.check(rule, p + "|flush-without-base-version", only_none(b, c.args[3]), c.where(),
                        "a flush inside a table compaction passes no base version (level 0)", "")
            elif c.name == COMPACT_MEMTABLE:
                n += 1
                R.analysed(b)
                ok = len(flag) == 1 and flag[0] - 1 < len(c.args) and c.args[flag[0] - 1]["k"] == "const" and c.args[flag[0] - 1].get("val") == "0"
                R.check(rule, p + "|flush-stays-at-level-0", ok, c.where(),
                        "compact_memtable is told (flag = false) not to place the file below level 0 when called from inside compact_tables",
                        "compact_memtable has %d bool parameter(s)" % len(flag))
    R.floor(rule, "flush sites inside compact_tables", n, 1)
    # the same holds for the tables written while WALs are replayed: the tables of WALs replayed earlier in the same
    # recovery are still pending in the edit, not in any version
    nr = 0
    for p, b in sorted(P.bodies.items()):
        if not (p.startswith("db::DB::recover_wal_records") or p.startswith("db::DB::recover_unrecorded_logs")):
            continue
        for c in b.calls():
            if not b.is_cleanup(c.bb) and c.name == CONVERT:
                nr += 1
                R.analysed(b)
                R.check(rule, p + "|recovery-flush-without-base-version", only_none(b, c.args[3]), c.where(),
                        "a table written during WAL replay passes no base version (level 0)", "")
    R.floor(rule, "flush sites in WAL replay", nr, 1)
    # inside compact_memtable the base version reaches convert_memtable_to_file only on the flag's true edge
    conv = [c for c in cm.calls() if not cm.is_cleanup(c.bb) and c.name == CONVERT]
    if len(flag) == 1 and conv:
        t_edges = [(t.bb, x) for t in _bt(cm, flag[0]) for x in t.ok]
        somes = []
        for bb in range(cm.n):
            if cm.is_cleanup(bb):
                continue
            for st in cm.blocks[bb]["stmts"]:
                if st["k"] == "assign" and st["rv"]["k"] == "aggregate" and (st["rv"].get("adt") or "").endswith("Option") and st["rv"].get("variant") == "Some" \
                        and any(st["pl"]["l"] in roots(cm, c.args[3]) for c in conv):
                    somes.append(bb)
        ok = bool(t_edges) and all(cm.must_pass(bb, through_edges=t_edges) for bb in somes) and \
            not any(any(o.kind == "call" for o in origins(cm, c.args[3])) and not somes for c in conv)
        R.check(rule, COMPACT_MEMTABLE + "|base-version-only-when-allowed", ok, where(cm),
                "the version used to pick a level below 0 reaches convert_memtable_to_file only on the flag's true edge", "Some sites %s" % somes)


# ------------------------------------------------------------------------------------------- PAIR-14 input expansion of a compaction
def pair14_input_expansion(P, R, L, rule="PAIR-14"):
    """CompactionManifest::finalize_compaction_inputs: the parent-level (level+1) inputs are always selected with the key
    range of the level-L input set they belong to (a one-level range: get_key_range_for_files), never with the hull of
    both levels; and when a grown level-L set is adopted the matching parent-level set is adopted with it. Otherwise the
    output overlaps a parent-level file that is not an input (the version builder's assertion kills the compaction thread)."""
    fn = "compaction::manifest::CompactionManifest::finalize_compaction_inputs"
    b = P.body(fn)
    if b is None:
        return R.missing_anchor(rule, fn)
    R.analysed(b)

    def range_sources(op, depth=0):
        out = set()
        for o in origins(b, op):
            if o.kind == "call" and "get_key_range_for" in (o.name or ""):
                out.add(o.name.rsplit("::", 1)[1])
            elif o.kind == "agg" and o.extra and depth < 4:
                for x in o.extra[1]["rv"]["ops"]:
                    out |= range_sources(x, depth + 1)
            elif o.kind in ("param", "local", "field") and depth < 4:
                pass
        if not out and op["k"] in ("copy", "move") and depth < 4:
            for l in roots(b, op):
                for d in b.defs().get(l, []):
                    if d[0] == "call":
                        nm = strip_generics(d[3].get("resolved") or d[3].get("callee") or "")
                        if "get_key_range_for" in nm:
                            out.add(nm.rsplit("::", 1)[1])
        return out
    qs = [c for c in b.calls() if not b.is_cleanup(c.bb) and "get_overlapping_compaction_inputs" in (c.name or "")]
    R.floor(rule, "overlap queries in finalize_compaction_inputs", len(qs), 4)
    n_parent = 0
    for c in qs:
        lv = origins(b, c.args[1])
        plus = [int(x.get("val")) for o in lv if o.kind == "binop" and o.name.startswith("Add") and o.extra for x in o.extra[1]["rv"]["ops"] if x["k"] == "const" and (x.get("val") or "").isdigit()]
        src = range_sources(c.args[2])
        # the level argument as `<compaction level> + k`, however it is spelled (`self.level + 1`, `self.output_level()`,
        # `self.output_level() + 1` for the grandparents): only k == 1 is a parent-level query
        from .round12 import _level_plus
        lp = _level_plus(P, b, c.args[1])
        if lp is not None:
            plus = [lp[0]]
        if plus == [1]:
            n_parent += 1
            ok = src == {"get_key_range_for_files"}
            R.check(rule, fn + "|parent-inputs-from-the-level-range", ok, c.where(),
                    "the level+1 inputs are selected with the key range of one level's input set (get_key_range_for_files)", "range computed by %s" % sorted(src))
    R.floor(rule, "parent-level overlap queries", n_parent, 2)
    # paired adoption: a whole-vector store to input_files[0] has a control-equivalent store to input_files[1]
    stores = {0: [], 1: []}
    for bb in range(b.n):
        if b.is_cleanup(bb):
            continue
        for st in b.blocks[bb]["stmts"]:
            if st["k"] == "assign" and st["rv"]["k"] == "use" and len(st["pl"]["p"]) >= 2 and isinstance(st["pl"]["p"][-2], dict) and \
                    st["pl"]["p"][-2].get("n") == "input_files" and isinstance(st["pl"]["p"][-1], dict) and "idx" in st["pl"]["p"][-1]:
                iv = [d[3]["rv"]["ops"][0].get("val") for d in b.defs().get(st["pl"]["p"][-1]["idx"], [])
                      if d[0] == "stmt" and d[3]["rv"]["k"] == "use" and d[3]["rv"]["ops"][0]["k"] == "const"]
                if iv and iv[0] in ("0", "1"):
                    stores[int(iv[0])].append(bb)

    def equivalent(x, y):
        first, second = (x, y) if b.dominates(x, y) else ((y, x) if b.dominates(y, x) else (None, None))
        if first is None:
            return False
        if first == second:
            return True
        for _, s0 in b.edges(first):
            if b.is_cleanup(s0):
                continue
            r = b.reachable(s0, removed_nodes=[second])
            if first in r or any(x_ in r for x_ in b.return_blocks()):
                return False
        return True
    det = []
    for i, j in ((0, 1), (1, 0)):
        for s_ in stores[i]:
            if not any(equivalent(s_, t_) for t_ in stores[j]):
                det.append("input_files[%d] is replaced in bb%d without replacing input_files[%d]" % (i, s_, j))
    R.check(rule, fn + "|both-input-sets-adopted-together", bool(stores[0]) and bool(stores[1]) and not det, where(b),
            "a grown level-L input set is adopted together with its parent-level input set", "; ".join(sorted(set(det))) or "stores %s" % stores)


# ------------------------------------------------------------------------------------------- ORD-3c a merge cut short by shutdown is never installed
def ord3c_shutdown_not_installed(P, R, L, rule="ORD-3c"):
    """compact_tables' merge loop also stops when the database is shutting down — then only a prefix of the inputs was
    merged. Every path from the end of the merge to install_compaction_results (which deletes ALL inputs) passes the
    `not shutting down` edge of a fresh load of the shutdown flag."""
    ct = P.body(COMPACT_TABLES)
    if ct is None:
        return R.missing_anchor(rule, COMPACT_TABLES)
    R.analysed(ct)
    inst = sites_reaching(P, ct, INSTALL)
    merges = [u for (u, cb) in unlocked_closures(P, L, ct) if normal_sites(cb, "tables::table_builder::TableBuilder::add_entry")]
    loads = [c for c in ct.calls() if not ct.is_cleanup(c.bb) and (c.name or "").endswith("::load") and "atomic" in (c.name or "")
             and any("is_shutting_down" in o.path for o in origins(ct, c.args[0]))]
    not_down = []
    for c in loads:
        for t in _bt(ct, c.dest["l"]):
            not_down += [(t.bb, x) for x in t.err]
    starts = []
    for m in merges:
        for t in result_tests(ct, m.dest["l"]):
            starts += t.ok
    ok = bool(inst) and bool(merges) and bool(not_down) and bool(starts)
    for i in inst:
        for st_ in starts:
            if not ct.must_pass_fs(i.bb, through_edges=not_down, start=st_):
                ok = False
    R.check(rule, COMPACT_TABLES + "|shutdown-checked-before-install", ok, where(ct),
            "from the end of the merge, install_compaction_results is reachable only over the false edge of is_shutting_down.load()",
            "install sites %d, shutdown loads after the merge %d" % (len(inst), len(loads)))
    # the merge loop itself re-reads the flag (so that it can stop): a load inside the merge closure's cycle
    for (u, cb) in unlocked_closures(P, L, ct):
        if normal_sites(cb, "tables::table_builder::TableBuilder::add_entry"):
            R.analysed(cb)
            inl = [c for c in cb.calls() if not cb.is_cleanup(c.bb) and (c.name or "").endswith("::load") and "atomic" in (c.name or "") and in_cycle(cb, c.bb)
                   and any("is_shutting_down" in o.path for o in origins(cb, c.args[0]))]
            R.check(rule, cb.path + "|merge-loop-polls-shutdown", bool(inl), where(cb), "the merge loop polls the shutdown flag", "loads in the loop %d" % len(inl))


# ------------------------------------------------------------------------------------------- PAIR-15 the seek charge goes to the version that was read
def pair15_charge_same_version(P, R, L, rule="PAIR-15"):
    """DB::get charges the seek statistics (file + level) it collected to the version it read from: the receiver of
    update_stats is the version handle captured for the lookup, not a freshly loaded current version (whose files at
    that level may be different ones — the picked seek compaction would then move / delete the wrong file)."""
    b = P.body(GET)
    if b is None:
        return R.missing_anchor(rule, GET)
    R.analysed(b)
    us = [c for c in b.calls() if not b.is_cleanup(c.bb) and c.name == "versioning::version::Version::update_stats"]
    via_helper = []
    if not us:
        # the charge may be applied by a private helper that receives the version handle
        for c in b.calls():
            h = P.bodies.get(c.t.get("resolved") or "")
            if b.is_cleanup(c.bb) or h is None or c.t.get("dyn") or not c.t.get("local"):
                continue
            hu = [x for x in h.calls() if not h.is_cleanup(x.bb) and x.name == "versioning::version::Version::update_stats"]
            for x in hu:
                ks = {o.name for o in origins(h, x.args[0]) if o.kind == "param"}
                if len(ks) == 1 and len(origins(h, x.args[0])) == len([o for o in origins(h, x.args[0]) if o.kind == "param"]):
                    k = ks.pop()
                    if k - 1 < len(c.args):
                        R.analysed(h)
                        via_helper.append((c, c.args[k - 1]))
    if not us and not via_helper:
        return R.check(rule, GET + "|anchors", False, where(b), "DB::get applies the seek charge (update_stats)", "no update_stats call")
    # the version handle handed to the lookup closure (sites are (body, block): the load may sit in a private helper
    # that captures the read state, deep_origins follows it there)
    key = lambda o: (o.site.body.path, o.site.bb)
    handed = set()
    for (u, cb) in unlocked_closures(P, L, b):
        vg = [c for c in cb.calls() if not cb.is_cleanup(c.bb) and c.name == VERSION_GET]
        for c in vg:
            for o in origins(cb, c.args[0]):
                if o.kind == "upvar":
                    for po in upvar_parent_origins(P, cb, o.name):
                        if po.kind == "call" and po.site is not None and po.name == CUR_VERSION:
                            handed.add(key(po))
    ok = bool(handed)
    det = []
    for c, recv in [(c, c.args[0]) for c in us] + via_helper:
        sites = {key(o) for o in deep_origins(P, b, recv) if o.kind == "call" and o.site is not None and o.name == CUR_VERSION}
        if not sites or not sites <= handed:
            ok = False
            det.append("line %s: update_stats is applied to a version loaded at %s, the lookup used the one loaded at %s" % (c.line, sorted(sites), sorted(handed)))
    R.check(rule, GET + "|charge-applied-to-the-version-that-was-read", ok, where(b),
            "update_stats is called on the version handle the lookup ran against", "; ".join(det) or "version loaded at %s" % sorted(handed))


# ------------------------------------------------------------------------------------------- GRD-23 read sampling charges only keys held by >= 2 files
def grd23_read_sample_threshold(P, R, L, rule="GRD-23"):
    """Version::record_read_sample charges a file only when at least TWO files hold the sampled key. Charging the only
    home of a key makes seek compactions (trivial moves) walk that file down to the last level, where picking the next
    one trips `assert!(level + 1 < MAX_NUM_LEVELS)` on the compaction thread."""
    fn = "versioning::version::Version::record_read_sample"
    b = P.body(fn)
    if b is None:
        return R.missing_anchor(rule, fn)
    R.analysed(b)
    us = [c for c in b.calls() if not b.is_cleanup(c.bb) and c.name == "versioning::version::Version::update_stats"]
    edges = []
    for c in comparisons(b):
        lo, ro = c.lhs_origins(), c.rhs_origins()
        pure = lambda os_: [o.name for o in os_] if os_ and all(o.kind == "const" for o in os_) else None
        lc, rc = pure(lo) or [], pure(ro) or []
        # count >= 2, count > 1, 2 <= count, 1 < count (and the negated forms on their false edges)
        if rc in (["2"],) and not lc:
            edges += [(c.bb, t) for t in (c.true_t if c.op == "ge" else c.false_t if c.op == "lt" else [])]
        if rc in (["1"],) and not lc:
            edges += [(c.bb, t) for t in (c.true_t if c.op == "gt" else c.false_t if c.op == "le" else [])]
        if lc in (["2"],) and not rc:
            edges += [(c.bb, t) for t in (c.true_t if c.op == "le" else c.false_t if c.op == "gt" else [])]
        if lc in (["1"],) and not rc:
            edges += [(c.bb, t) for t in (c.true_t if c.op == "lt" else c.false_t if c.op == "ge" else [])]
    ok = bool(us) and bool(edges) and all(b.must_pass(c.bb, through_edges=edges) for c in us)
    R.check(rule, fn + "|charge-only-with-two-or-more-files", ok, where(b),
            "update_stats is reached only over the edge `files holding the key >= 2`", "update_stats sites %d, threshold edges %d" % (len(us), len(edges)))


# ------------------------------------------------------------------------------------------- ITR-1 backward collapse of the client iterator
def itr1_backward_collapse(P, R, L, rule="ITR-1"):
    """DatabaseIterator::find_prev_client_entry walks the versions of a user key oldest-first. Per record: nothing about
    a record that is newer than the snapshot may change the iterator's state (cached key / value, the last-operation
    state); and every VISIBLE Put overwrites the cached key and value (the last one seen is the newest visible one),
    every visible Delete clears them."""
    fn = "iterator::DatabaseIterator::find_prev_client_entry"
    b = P.body(fn)
    if b is None:
        return R.missing_anchor(rule, fn)
    R.analysed(b)
    seqk = lambda os_: any(o.kind == "call" and o.name == SEQ_OF_KEY for o in os_)
    snap = lambda os_: any("sequence_snapshot" in o.path for o in os_)
    visible = []
    for c in comparisons(b):
        visible += c.edges_where("le", seqk, snap)
    prevs = [c for c in b.calls() if not b.is_cleanup(c.bb) and (c.declared_name or "") == ITER_TRAIT + "::prev" and in_cycle(b, c.bb)]
    if not visible or not prevs:
        return R.check(rule, fn + "|anchors", False, where(b), "the loop filters by sequence and steps the inner iterator backwards", "visible edges %d, prev sites %d" % (len(visible), len(prevs)))
    cyc = {x for x in b.reachable(prevs[0].bb) if prevs[0].bb in b.reachable(x)}
    head = _loop_head(b, prevs[0].bb)
    # state written inside the loop: the cached key / value and the last-operation local(s)
    state_stores = []
    for fld in ("cached_user_key", "cached_value"):
        state_stores += [(s_[0], fld) for s_ in field_stores(b, fld) if s_[0] in cyc]
    op_locals = [l for l in range(len(b.locals)) if b.local_ty(l).endswith("key::Operation") and b.local_name(l) is not None]
    for l in op_locals:
        defs_in = [d for d in b.defs().get(l, []) if d[1] in cyc and d[0] == "stmt"]
        defs_out = [d for d in b.defs().get(l, []) if d[1] not in cyc]
        if defs_in and defs_out:            # initialised before the loop and updated inside it: loop state
            state_stores += [(d[1], b.local_name(l)) for d in defs_in]
    bad = [(bb, what) for (bb, what) in state_stores if not b.must_pass(bb, through_edges=visible, start=head)]
    R.check(rule, fn + "|invisible-records-change-nothing", bool(state_stores) and not bad, where(b),
            "every update of the cached key / value and of the last-operation state inside the loop lies behind the `sequence <= snapshot` edge",
            "; ".join("%s updated in bb%d without the visibility test" % (w, bb) for bb, w in bad) or "%d state updates" % len(state_stores))
    # visible Put => both cache fields are rewritten before the iterator steps; visible Delete => both cleared
    put_e = variant_edges(P, b, "key::Operation", "Put", origin_pred_call(GET_OP))
    del_e = variant_edges(P, b, "key::Operation", "Delete", origin_pred_call(GET_OP))
    put_e = [e for e in put_e if e[0] in cyc]
    del_e = [e for e in del_e if e[0] in cyc]
    ok = bool(put_e) and bool(del_e)
    det = []
    for edges, lab in ((put_e, "Put"), (del_e, "Delete")):
        for (sb, tg) in edges:
            for fld in ("cached_user_key", "cached_value"):
                st = [s_[0] for s_ in field_stores(b, fld) if s_[0] in cyc]
                for p_ in prevs:
                    if not b.must_pass(p_.bb, through_nodes=st, start=tg):
                        ok = False
                        det.append("after a visible %s the iterator can step without rewriting %s" % (lab, fld))
    # leaving the loop because "the records of the previous user key begin" needs a strictly smaller user key: the newer
    # versions of the cached key (equal user key) must still be processed
    uk = lambda os_: any(o.kind == "call" and o.name == GET_USER_KEY for o in os_)
    ck = lambda os_: any("cached_user_key" in o.path for o in os_)
    early = []
    n_cmp = 0
    for c in comparisons(b):
        if c.bb in cyc and (c.edges_where("le", uk, ck) or c.edges_where("ge", uk, ck)):
            n_cmp += 1
            strictly_less = set(c.edges_where("lt", uk, ck, exact=True))
            for t in list(c.true_t) + list(c.false_t):
                if (c.bb, t) in strictly_less:
                    continue
                r = b.reachable(t, stop_nodes=[p_.bb for p_ in prevs])
                rets = set(b.return_blocks())
                if any(x not in cyc and not b.is_cleanup(x) and (x in rets or rets & set(b.reachable(x))) for x in r):
                    early.append("bb%d->bb%d" % (c.bb, t))
    R.check(rule, fn + "|leaves-the-key-only-on-a-strictly-smaller-key", n_cmp >= 1 and not early, where(b),
            "the loop is left at a user-key boundary only over the exact edge `user key < cached key`", "; ".join(early) or "boundary comparisons %d" % n_cmp)
    R.check(rule, fn + "|every-visible-record-rewrites-the-cache", ok, where(b),
            "on the Put edge key and value are overwritten, on the Delete edge both are cleared, on every path to the next prev()",
            "; ".join(sorted(set(det))) or "put edges %d, delete edges %d" % (len(put_e), len(del_e)))


# ------------------------------------------------------------------------------------------- ITR-2 forward collapse of the client iterator
def itr2_forward_collapse(P, R, L, rule="ITR-2"):
    """DatabaseIterator::find_next_client_entry: records newer than the snapshot change no state; a visible Delete turns
    skipping on AND remembers the deleted user key (so that the older entries of that key, which follow it, stay hidden);
    a Put is yielded only where it is not (skipping and at or below the remembered key)."""
    fn = "iterator::DatabaseIterator::find_next_client_entry"
    b = P.body(fn)
    if b is None:
        return R.missing_anchor(rule, fn)
    R.analysed(b)
    seqk = lambda os_: any(o.kind == "call" and o.name == SEQ_OF_KEY for o in os_)
    snap = lambda os_: any("sequence_snapshot" in o.path for o in os_)
    visible = []
    for c in comparisons(b):
        visible += c.edges_where("le", seqk, snap)
    nexts = [c for c in b.calls() if not b.is_cleanup(c.bb) and (c.declared_name or "") == ITER_TRAIT + "::next" and in_cycle(b, c.bb)]
    if not visible or not nexts:
        return R.check(rule, fn + "|anchors", False, where(b), "the loop filters by sequence and steps the inner iterator forwards", "visible edges %d, next sites %d" % (len(visible), len(nexts)))
    cyc = {x for x in b.reachable(nexts[0].bb) if nexts[0].bb in b.reachable(x)}
    head = _loop_head(b, nexts[0].bb)
    # loop state: the skipping flag (a bool local initialised before the loop, assigned inside) and cached_user_key
    flags = []
    for l in range(len(b.locals)):
        if b.local_ty(l) == "bool" and b.local_name(l) is not None:
            din = [d for d in b.defs().get(l, []) if d[1] in cyc and d[0] == "stmt"]
            dout = [d for d in b.defs().get(l, []) if d[1] not in cyc]
            if din and dout:
                flags.append(l)
    state = [(s_[0], "cached_user_key") for s_ in field_stores(b, "cached_user_key") if s_[0] in cyc] + \
            [(s_[0], "is_valid") for s_ in field_stores(b, "is_valid") if s_[0] in cyc]
    for l in flags:
        state += [(d[1], b.local_name(l)) for d in b.defs().get(l, []) if d[1] in cyc and d[0] == "stmt"]
    bad = [(bb, w) for (bb, w) in state if not b.must_pass(bb, through_edges=visible, start=head)]
    R.check(rule, fn + "|invisible-records-change-nothing", bool(state) and bool(flags) and not bad, where(b),
            "every update of the skipping flag, the remembered key and is_valid inside the loop lies behind the `sequence <= snapshot` edge",
            "; ".join("%s updated in bb%d without the visibility test" % (w, bb) for bb, w in bad) or "%d state updates, flag locals %s" % (len(state), [b.local_name(l) for l in flags]))
    del_e = [e for e in variant_edges(P, b, "key::Operation", "Delete", origin_pred_call(GET_OP)) if e[0] in cyc]
    ok = bool(del_e) and len(flags) >= 1
    det = []
    for (sb, tg) in del_e:
        set_true = [d[1] for l in flags for d in b.defs().get(l, []) if d[1] in cyc and d[0] == "stmt" and d[3]["rv"]["k"] == "use"
                    and d[3]["rv"]["ops"][0]["k"] == "const" and d[3]["rv"]["ops"][0].get("val") == "1"]
        remember = [s_[0] for s_ in field_stores(b, "cached_user_key") if s_[0] in cyc and
                    any(o.kind == "call" and o.name == GET_USER_KEY for o in deep_origins(P, b, s_[2]["rv"]["ops"][0]) ) ] if True else []
        if not remember:
            remember = [s_[0] for s_ in field_stores(b, "cached_user_key") if s_[0] in cyc and b.must_pass(s_[0], through_edges=[(sb, tg)], start=head)
                        and "Some" in str(stored_variants(b, s_[2]))]
        for n_ in nexts:
            if not b.must_pass(n_.bb, through_nodes=set_true, start=tg):
                ok = False
                det.append("after a visible Delete the iterator can step without turning skipping on")
            if not b.must_pass(n_.bb, through_nodes=remember, start=tg):
                ok = False
                det.append("after a visible Delete the iterator can step without remembering the deleted user key")
    R.check(rule, fn + "|delete-hides-the-older-entries-of-its-key", ok, where(b),
            "a visible Delete sets the skipping flag and stores its user key before the iterator steps", "; ".join(sorted(set(det))) or "delete edges %d" % len(del_e))
    # a Put becomes current only where the skip test failed: is_valid = true is not reachable over the edge `key <= remembered key`
    valid_true = [s_[0] for s_ in field_stores(b, "is_valid", const=1)]
    hidden = []
    uk = lambda os_: any(o.kind == "call" and o.name == GET_USER_KEY for o in os_)
    ck = lambda os_: any("cached_user_key" in o.path for o in os_)
    for c in comparisons(b):
        if c.bb in cyc and (c.edges_where("le", uk, ck) or c.edges_where("ge", uk, ck) or c.edges_where("ne", uk, ck) or c.edges_where("eq", uk, ck)):
            # every edge of this comparison on which `key <= remembered key` is still possible, i.e. all but the exact `>` edges
            strictly_greater = set(c.edges_where("gt", uk, ck, exact=True))
            hidden += [(c.bb, t) for t in list(c.true_t) + list(c.false_t) if (c.bb, t) not in strictly_greater]
    ok2 = bool(valid_true) and bool(hidden) and not any(v in b.reachable(tg, stop_nodes=[n_.bb for n_ in nexts]) for (sb, tg) in hidden for v in valid_true)
    R.check(rule, fn + "|shadowed-puts-are-skipped", ok2, where(b),
            "over the edge `user key <= remembered (deleted / already yielded) key` no entry is made current before the iterator steps",
            "yield sites %s, hidden edges %d" % (valid_true, len(hidden)))



# ------------------------------------------------------------------------------------------- OWN-12 a released version is the one that is unlinked
def own12_release_unlinks_that_version(P, R, L, rule="OWN-12"):
    """VersionSet::release_version unlinks exactly the node it was handed (remove_node(version_node)), never "the oldest"
    or "the newest": versions are released out of order (a compaction holds its input version until it installs), and
    get_live_files / remove_obsolete_files walk the list — unlinking a version another reader still pins deletes its files."""
    fn = "versioning::version_set::VersionSet::release_version"
    b = P.body(fn)
    if b is None:
        return R.missing_anchor(rule, fn)
    R.analysed(b)
    ll = [c for c in b.calls() if not b.is_cleanup(c.bb) and "linked_list::LinkedList" in (c.name or "")]
    rm = [c for c in ll if c.name.endswith("::remove_node")]
    other = [c for c in ll if any(c.name.endswith(x) for x in ("::pop", "::pop_front", "::push", "::push_front", "::push_node", "::push_node_front"))]
    ok = bool(rm) and not other and all(any(o.kind == "param" and o.name == 2 for o in origins(b, c.args[1])) for c in rm)
    R.check(rule, fn + "|unlinks-the-node-it-was-given", ok, where(b), "the only list mutation is remove_node(the version node passed in)",
            "remove_node sites %d, other list mutations %s" % (len(rm), [c.name.rsplit("::", 1)[1] for c in other]))


def grd24_reuse_adopts_number_with_file(P, R, L, rule="GRD-24"):
    """VersionSet::maybe_reuse_manifest may decline (option off, not a manifest name, too large, cannot be opened for
    appending); log_and_apply then allocates a fresh manifest. `manifest_file_number` is what remove_obsolete_files keeps
    and what CURRENT is pointed at, so it is overwritten with the old manifest's number only together with adopting the
    old file: every store to manifest_file_number / maybe_manifest_file lies behind the Ok edge of LogWriter::new."""
    fn = "versioning::version_set::VersionSet::maybe_reuse_manifest"
    b = P.body(fn)
    if b is None:
        return R.missing_anchor(rule, fn)
    R.analysed(b)
    opens = [c for c in b.calls() if not b.is_cleanup(c.bb) and c.name == "logs::LogWriter::new"]
    ok_edges = []
    for c in opens:
        for t in result_tests(b, c.dest["l"]):
            ok_edges += t.ok_edges()
    bad, n = [], 0
    for f in ("manifest_file_number", "maybe_manifest_file"):
        st = field_stores(b, f)
        sites = [(s[0], "store to %s at line %s" % (f, s[2].get("line"))) for s in st]
        if not st:
            # the stores may sit in a private helper: its call site is what has to lie behind the edge
            for c in b.calls():
                h = P.bodies.get(c.t.get("resolved") or "")
                if b.is_cleanup(c.bb) or h is None or c.t.get("dyn") or not c.t.get("local"):
                    continue
                if field_stores(h, f):
                    R.analysed(h)
                    sites.append((c.bb, "call of %s (stores %s) at line %s" % (c.name, f, c.line)))
        if not sites:
            bad.append("no store to %s" % f)
        n += len(sites)
        for (bb, what) in sites:
            if not (ok_edges and b.must_pass(bb, through_edges=ok_edges)):
                bad.append(what + " is reachable without the manifest having been opened for appending")
    R.check(rule, fn + "|number-adopted-only-with-the-file", bool(opens) and not bad, where(b),
            "manifest_file_number and maybe_manifest_file are assigned only behind the Ok edge of LogWriter::new(.., append = true): a declined "
            "re-use leaves the number of the manifest that will actually be written", "; ".join(bad) or "%d stores behind %d ok edge(s)" % (n, len(ok_edges)))


def ord18_gc_after_release(P, R, L, rule="ORD-18"):
    """A finished table compaction makes its input files garbage, but remove_obsolete_files keeps every file some listed
    version references: the compaction's own pin on its input version (CompactionManifest::release_inputs) has to be
    dropped *before* the garbage collection that ends coordinate_compaction, or the inputs outlive the compaction until
    some later compaction happens to collect them (never, on a database that then goes quiet)."""
    fn = "compaction::worker::CompactionWorker::coordinate_compaction"
    b = P.body(fn)
    if b is None:
        return R.missing_anchor(rule, fn)
    R.analysed(b)
    ct = [c for c in b.calls() if not b.is_cleanup(c.bb) and c.name == "compaction::worker::CompactionWorker::compact_tables"]
    gc = [c for c in b.calls() if not b.is_cleanup(c.bb) and c.name == "db::DB::remove_obsolete_files"]
    rel = [c for c in b.calls() if not b.is_cleanup(c.bb) and c.name == "compaction::manifest::CompactionManifest::release_inputs"]
    after_ct = set()
    for c in ct:
        after_ct |= b.reachable(c.target) if c.target is not None else set()
    rel_ct = [r for r in rel if r.bb in after_ct]
    bad = []
    for r in rel_ct:
        for ret in b.return_blocks():
            if not b.must_pass(ret, through_nodes=[g.bb for g in gc], start=r.target):
                bad.append("release_inputs at line %s can be followed by the return without a remove_obsolete_files" % r.line)
                break
    R.check(rule, fn + "|collect-garbage-after-releasing-the-inputs", bool(ct) and bool(gc) and bool(rel_ct) and not bad, where(b),
            "after compact_tables succeeded, every release of the compaction's input version is followed by remove_obsolete_files on every path "
            "to the return (the collection sees the inputs unpinned)", "; ".join(bad) or "release sites %d, gc sites %d" % (len(rel_ct), len(gc)))


_VEC = "std::vec::Vec<u8>"
CODEC_PAIRS = {
    # group: [(what, [encoder bodies], [decoder bodies], mode)]; mode "multiset": the static codec call sites agree one for
    # one; mode "set": only the (codec, width) kinds agree (tagged / looped encodings whose site counts legitimately differ)
    "batch": [
        ("write batch header", ["batch::<impl std::convert::From<&batch::Batch> for %s>::from" % _VEC],
         ["<batch::Batch as std::convert::TryFrom<&[u8]>>::try_from"], "multiset"),
        ("write batch element", ["batch::<impl std::convert::From<&batch::BatchElement> for %s>::from" % _VEC],
         ["batch::BatchElement::read_element"], "multiset"),
    ],
    "log": [
        ("log block record header", ["logs::<impl std::convert::From<&logs::BlockRecord> for %s>::from" % _VEC],
         ["<logs::BlockRecord as std::convert::TryFrom<&%s>>::try_from" % _VEC], "multiset"),
    ],
    "manifest": [
        ("file metadata in a version edit", ["versioning::file_metadata::<impl std::convert::From<&versioning::file_metadata::FileMetadata> for %s>::from" % _VEC],
         ["versioning::file_metadata::FileMetadata::deserialize"], "multiset"),
        ("version edit", ["versioning::version_manifest::<impl std::convert::From<&versioning::version_manifest::VersionChangeManifest> for %s>::from" % _VEC],
         ["<versioning::version_manifest::VersionChangeManifest as std::convert::TryFrom<&[u8]>>::try_from"], "set"),
    ],
    "table": [
        ("internal key trailer", ["<key::InternalKey as key::RainDbKeyType>::as_bytes"],
         ["<key::InternalKey as std::convert::TryFrom<%s>>::try_from" % _VEC], "multiset"),
        ("table footer", ["tables::footer::<impl std::convert::TryFrom<&tables::footer::Footer> for %s>::try_from" % _VEC],
         ["<tables::footer::Footer as std::convert::TryFrom<&%s>>::try_from" % _VEC], "multiset"),
        ("block handle", ["tables::block_handle::<impl std::convert::From<&tables::block_handle::BlockHandle> for %s>::from" % _VEC],
         ["tables::block_handle::BlockHandle::deserialize"], "multiset"),
        ("block entry header", ["tables::block_builder::BlockBuilder::<K>::add_entry"], ["tables::block::BlockReader::<K>::deserialize_entries"], "multiset"),
        ("block restart array", ["tables::block_builder::BlockBuilder::<K>::finalize"],
         ["tables::block::BlockReader::<K>::new", "tables::block::BlockReader::<K>::deserialize_restart_offsets"], "set"),
        ("filter block offsets", ["tables::filter_block_builder::FilterBlockBuilder::finalize"], ["tables::filter_block::FilterBlockReader::new"], "set"),
        ("block checksum", ["tables::table_builder::TableBuilder::emit_block_to_disk"], ["tables::table::Table::read_block_from_disk"], "set"),
    ],
}


def _codec_sites(P, R, names, depth=1):
    out, missing = [], []
    for n in names:
        b = P.body(n)
        if b is None:
            missing.append(n)
            continue
        R.analysed(b)
        for c in b.calls():
            if b.is_cleanup(c.bb):
                continue
            dn = c.declared_name or c.name or ""
            if dn.startswith("integer_encoding::"):
                kind = "fixed" if "Fixed" in dn else "var"
                out.append((kind, (c.t.get("substs") or ["?"])[-1]))
            elif depth and "utils::io::" in dn:
                o2, m2 = _codec_sites(P, R, [c.t.get("resolved") or dn], depth - 1)
                out += o2
    return out, missing


def agr2_codec_pairs(P, R, L, groups=("batch", "log", "manifest", "table"), rule="AGR-2"):
    """Every persisted structure is written by one function and read back by a sibling; the two must use the same integer
    codec (fixed / varint) at the same width, field for field: `read_varint::<u8>` silently truncates what
    `encode_var::<u32>` wrote, a fixed-width mismatch shifts every following field."""
    from collections import Counter
    R.clause(rule, "writer / reader siblings of every persisted structure use the same integer codec and width (groups: %s)" % ", ".join(groups))
    n = 0
    for g in groups:
        for (what, enc, dec, mode) in CODEC_PAIRS[g]:
            e, m1 = _codec_sites(P, R, enc)
            d, m2 = _codec_sites(P, R, dec)
            for m in m1 + m2:
                R.missing_anchor(rule, m)
            if m1 or m2:
                continue
            if mode == "multiset":
                ok = Counter(e) == Counter(d)
            else:
                ok = set(e) == set(d)
            ok = ok and bool(e)
            n += 1
            fmt = lambda xs: ", ".join("%s %s x%d" % (k, t, c) for (k, t), c in sorted(Counter(xs).items()))
            b = P.body(dec[0])
            R.check(rule, dec[0] + "|same-integer-codecs-as-the-writer", ok, where(b),
                    "%s: the reader decodes the integer codecs and widths the writer (%s) encodes" % (what, enc[0].rsplit("::", 2)[-2] if "::" in enc[0] else enc[0]),
                    "writer [%s] reader [%s]" % (fmt(e), fmt(d)))
    R.floor(rule, "writer/reader codec pairs compared (%s)" % "+".join(groups), n, sum(len(CODEC_PAIRS[g]) for g in groups))


MERGE_SEEKS = ["<versioning::file_iterators::MergingIterator as iterator::RainDbIterator>::seek",
               "<versioning::file_iterators::MergingIterator as iterator::RainDbIterator>::seek_to_first",
               "<versioning::file_iterators::MergingIterator as iterator::RainDbIterator>::seek_to_last"]


def err3_merge_seek_reports(P, R, L, rule="ERR-3"):
    """A child iterator whose seek failed (table cannot be opened, block cannot be read) has dropped out of the merge: what
    it shadows would be served as current. The three positioning methods of MergingIterator have an error channel, so they
    return the child's error (besides parking it for get_error): some `Err(..)` assigned to the return place derives from
    the result of a child seek. The stepping methods have no channel; that remainder is the D12 family."""
    for fn in MERGE_SEEKS:
        b = P.body(fn)
        if b is None:
            R.missing_anchor(rule, fn)
            continue
        R.analysed(b)
        child = [c for c in b.calls() if not b.is_cleanup(c.bb) and (c.declared_name or "").startswith("iterator::RainDbIterator::seek")]
        derived = 0
        for bb in range(b.n):
            if b.is_cleanup(bb):
                continue
            for st in b.blocks[bb]["stmts"]:
                if st["k"] == "assign" and st["pl"]["l"] == 0 and not st["pl"]["p"]:
                    rv = st["rv"]
                    if rv["k"] == "aggregate" and rv.get("variant") == "Err":
                        os_ = [o for op in rv.get("ops", []) for o in origins(b, op)]
                        if any(o.kind == "call" and o.site is not None and any(o.site.bb == c.bb for c in child) for o in os_):
                            derived += 1
        # `iter.seek(..)?` writes _0 through from_residual
        for c in b.calls():
            if not b.is_cleanup(c.bb) and c.dest and c.dest["l"] == 0 and (c.declared_name or "").endswith("FromResidual::from_residual"):
                if any(o.kind == "call" and o.site is not None and any(o.site.bb == x.bb for x in child) for o in origins(b, c.args[0])):
                    derived += 1
        R.check(rule, fn + "|child-seek-failure-is-returned", bool(child) and derived > 0, where(b),
                "the positioning method returns Err(the error of a child seek) — a source that could not be positioned is reported, "
                "not silently dropped from the merge", "child seek sites %d, Err returns derived from them %d" % (len(child), derived))


def grd25_finish_only_with_builder(P, R, L, rule="GRD-25"):
    """CompactionState::finish_compaction_output_file asserts that an output builder is open, and the assertion runs on the
    compaction thread (a trip leaves the scheduled flag set: compact_range, stalled writers and Drop hang). In
    compact_tables a builder is open only after open_compaction_output_file and until the next finish: every call of
    finish_compaction_output_file is therefore reached — from the entry and from behind every earlier finish — only over
    the true edge of has_table_builder() or through open_compaction_output_file."""
    FIN = "compaction::state::CompactionState::finish_compaction_output_file"
    OPEN_ = "compaction::state::CompactionState::open_compaction_output_file"
    HAS = "compaction::state::CompactionState::has_table_builder"
    n = 0
    for name, b in sorted(P.bodies.items()):
        if not name.startswith("compaction::worker::CompactionWorker::compact_tables"):
            continue
        fin = [c for c in b.calls() if not b.is_cleanup(c.bb) and c.name == FIN]
        if not fin:
            continue
        R.analysed(b)
        opens = [c.bb for c in b.calls() if not b.is_cleanup(c.bb) and c.name == OPEN_]
        true_edges = []
        for h in b.calls():
            if h.name == HAS and not b.is_cleanup(h.bb):
                for t in _bt(b, h.dest["l"]):
                    true_edges += t.ok_edges()
        for f in fin:
            n += 1
            bad = []
            for start, what in [(0, "the entry")] + [(g.target, "the finish at line %s" % g.line) for g in fin if g.target is not None]:
                if not b.must_pass(f.bb, through_edges=true_edges, through_nodes=opens, start=start):
                    bad.append("reachable from %s with no builder test / open in between" % what)
            R.check(rule, "%s|finish@%d|only-with-an-open-builder" % (name, fin.index(f)), not bad, f.where(),
                    "finish_compaction_output_file is reached only over has_table_builder() == true or through open_compaction_output_file "
                    "(from the entry and from behind every earlier finish)", "; ".join(bad) or "guards: %d true edges, %d open sites" % (len(true_edges), len(opens)))
    R.floor(rule, "finish_compaction_output_file sites in compact_tables", n, 3)


def grd26_reused_flag_truthful(P, R, L, rule="GRD-26"):
    """VersionSet::recover returns whether the existing manifest was adopted for appending. DB::open writes a fresh manifest
    (snapshot + CURRENT switch) exactly when that flag is false, and the garbage collection that follows keeps only
    `manifest_file_number` — which recover has already advanced. `Ok(true)` without an adopted manifest therefore leaves the
    database without any manifest after the first collection. Rule: `Ok(true)` is returned only over the true edge of
    maybe_reuse_manifest (or the call's value is returned as it is)."""
    fn = "versioning::version_set::VersionSet::recover"
    REUSE = "versioning::version_set::VersionSet::maybe_reuse_manifest"
    b = P.body(fn)
    if b is None:
        return R.missing_anchor(rule, fn)
    R.analysed(b)
    calls = [c for c in b.calls() if not b.is_cleanup(c.bb) and c.name == REUSE]
    true_edges = []
    for c in calls:
        for t in _bt(b, c.dest["l"]):
            true_edges += t.ok_edges()
    bad, n = [], 0
    for bb in range(b.n):
        if b.is_cleanup(bb):
            continue
        for st in b.blocks[bb]["stmts"]:
            if st["k"] == "assign" and st["pl"]["l"] == 0 and not st["pl"]["p"] and st["rv"]["k"] == "aggregate" and st["rv"].get("variant") == "Ok":
                n += 1
                os_ = [o for op in st["rv"].get("ops", []) for o in origins(b, op)]
                for o in os_:
                    if o.kind == "const" and str(o.name) in ("false", "0"):
                        continue
                    if o.kind == "call" and o.name == REUSE:
                        continue
                    if o.kind == "const" and str(o.name) in ("true", "1"):
                        if not (true_edges and b.must_pass(bb, through_edges=true_edges)):
                            bad.append("line %s returns Ok(true) on a path that does not pass maybe_reuse_manifest() == true" % st.get("line"))
                        continue
                    bad.append("line %s returns Ok(%s %s)" % (st.get("line"), o.kind, o.name))
    R.check(rule, fn + "|reused-only-when-adopted", bool(calls) and n > 0 and not bad, where(b),
            "Ok(true) ('the manifest was adopted, write no new one') is returned only over the true edge of maybe_reuse_manifest",
            "; ".join(bad) or "%d Ok returns, %d true edges" % (n, len(true_edges)))


def ord19_manual_request_withdrawn_after_work(P, R, L, rule="ORD-19"):
    """DB::force_level_compaction leaves its wait loop as soon as a background error (or shutdown) shows up — possibly while
    the compaction thread is in the unlocked part of the very compaction it requested. CompactionWorker::
    coordinate_compaction ends that compaction with `maybe_manual_compaction.take().unwrap()`: if the requester has
    emptied the slot in the meantime the thread panics with background_compaction_scheduled still set, and Drop, stalled
    writers and the next compact_range wait for ever. The withdrawal (`take()` / `= None` on maybe_manual_compaction in
    force_level_compaction) is therefore reached only over the `background_compaction_scheduled == false` edge of a
    waiting loop (LevelDB: "finish current background compaction in the case where the signal was due to an error")."""
    fn = "db::DB::force_level_compaction"
    b = P.body(fn)
    if b is None:
        return R.missing_anchor(rule, fn)
    R.analysed(b)
    from ..rules import switch_target
    takes = [c for c in b.calls() if c.name == "std::option::Option::take" and not b.is_cleanup(c.bb)
             and any("maybe_manual_compaction" in o.path for o in origins(b, c.args[0]))]
    nones = [s for s in field_stores(b, "maybe_manual_compaction")
             if s[2]["rv"]["k"] == "aggregate" and s[2]["rv"].get("variant") == "None"]
    sites = [(c.bb, c.line) for c in takes] + [(s[0], s[2].get("line")) for s in nones]
    waits = [c for c in b.calls() if not b.is_cleanup(c.bb) and is_wait(c)]
    edges = []
    for fb in field_reads(b, "background_compaction_scheduled"):
        t = b.term(fb)
        if t["k"] == "switch" and in_cycle(b, fb) and any(in_cycle(b, w.bb) and w.bb in b.reachable(fb) for w in waits):
            edges.append((fb, switch_target(t, 0)))
    bad = ["line %s" % ln for (bb, ln) in sites if not (edges and b.must_pass(bb, through_edges=edges))]
    R.check(rule, fn + "|request-withdrawn-only-after-background-work-finished", bool(sites) and not bad, where(b),
            "the manual request is taken out of the slot by the requester only after a waiting loop observed "
            "background_compaction_scheduled == false", "; ".join(bad) or "withdrawal sites %d, loop exits %d" % (len(sites), len(edges)))


def grd27_separator_strictly_below_next_key(P, R, L, rule="GRD-27"):
    """The index entry of a data block is a separator S with last key of the block <= S < first key of the next block.
    Table::get positions on the first index entry >= the lookup key, so an S that EQUALS the next block's first user key
    sends a lookup for that key (with the largest sequence bound) into the earlier block, where it finds nothing. The
    byte-level shortener may therefore bump a byte only on the exact edge `smaller[i] + 1 < greater[i]`."""
    fn = "<&[u8] as utils::bytes::BinarySeparable>::find_shortest_separator"
    b = P.body(fn)
    if b is None:
        return R.missing_anchor(rule, fn)
    R.analysed(b)
    is_inc = lambda os_: any(o.kind == "binop" and str(o.name).startswith("Add") for o in os_)
    is_next = lambda os_: any(o.kind == "param" and o.name == 2 for o in os_) and not any(o.kind == "param" and o.name == 1 for o in os_)
    edges = []
    for c in comparisons(b):
        edges += c.edges_where("lt", is_inc, is_next, exact=True)
    builds = [c for c in b.calls() if not b.is_cleanup(c.bb) and (c.name or "").endswith("to_vec")]
    # the shortened separator is the one built from a PREFIX of `smaller` (an index / range expression), not the full copy
    short = [c for c in builds if any(o.kind == "call" and "index" in (o.name or "") for o in origins(b, c.args[0], transparent=frozenset()))]
    ok = bool(edges) and bool(short) and all(b.must_pass(c.bb, through_edges=edges) for c in short)
    R.check(rule, fn + "|bumped-byte-stays-below-the-next-key", ok, where(b),
            "the shortened separator (prefix of `smaller` with its last byte incremented) is built only on the exact edge `smaller[i] + 1 < greater[i]`",
            "strict edges %d, separator construction sites %d" % (len(edges), len(short)))


def ord20_empty_block_tested_before_finalize(P, R, L, rule="ORD-20"):
    """TableBuilder::flush_data_block decides 'nothing to flush' on the builder's buffer. BlockBuilder::finalize appends
    the restart array to that buffer, so the emptiness test is only meaningful before it: finalize is reached only over
    the false edge of is_empty() (an empty block flushed as data makes add_entry unwrap a missing last key)."""
    fn = "tables::table_builder::TableBuilder::flush_data_block"
    b = P.body(fn)
    if b is None:
        return R.missing_anchor(rule, fn)
    R.analysed(b)
    fin = [c for c in b.calls() if not b.is_cleanup(c.bb) and strip_generics(c.name or "").endswith("block_builder::BlockBuilder::finalize")]
    emp = [c for c in b.calls() if not b.is_cleanup(c.bb) and strip_generics(c.name or "").endswith("block_builder::BlockBuilder::is_empty")]
    non_empty = []
    for e in emp:
        for t in _bt(b, e.dest["l"]):
            non_empty += t.err_edges()
    ok = bool(fin) and bool(non_empty) and all(b.must_pass(f.bb, through_edges=non_empty) for f in fin)
    R.check(rule, fn + "|finalize-only-a-non-empty-block", ok, where(b),
            "BlockBuilder::finalize is reached only over the `is_empty() == false` edge", "finalize sites %d, non-empty edges %d" % (len(fin), len(non_empty)))


def pair16_followers_always_completed(P, R, L, rule="PAIR-16"):
    """A follower popped by the leader leaves its wait loop only when `is_operation_complete()` is true (it is no longer
    at the head of the queue). The leader therefore marks every follower complete unconditionally — also when the
    group's write failed: `set_operation_completed(true)` with a constant, never a value derived from the write result."""
    b = P.body(APPLY)
    if b is None:
        return R.missing_anchor(rule, APPLY)
    R.analysed(b)
    sets = [c for c in b.calls() if not b.is_cleanup(c.bb) and c.name == "writers::Writer::set_operation_completed"]
    bad = []
    for c in sets:
        os_ = origins(b, c.args[1])
        if not (os_ and all(o.kind == "const" and str(o.name) in ("1", "true") for o in os_)):
            bad.append("line %s: completed := %s" % (c.line, sorted({(o.kind, str(o.name)) for o in os_})[:3]))
    notif = [c for c in b.calls() if not b.is_cleanup(c.bb) and c.name == NOTIFY_WRITER]
    # every notification of a follower is preceded by marking that follower complete
    unmarked = [n.line for n in notif if in_cycle(b, n.bb) and not b.must_pass(n.bb, through_nodes=[c.bb for c in sets])]
    R.check(rule, APPLY + "|followers-marked-complete-whatever-the-result", bool(sets) and not bad and not unmarked, where(b),
            "every follower is marked complete with the constant `true` before it is notified (a failed group must release its followers too)",
            "; ".join(bad + ["notify at line %s without a preceding set_operation_completed" % l for l in unmarked]) or "%d sites" % len(sets))


def grd28_last_wal_flag(P, R, L, rule="GRD-28"):
    """DB::recover_wal_records may re-open the WAL it replayed for appending and adopt its memtable as the active one — but
    only for the LAST replayed WAL (the memtable of an earlier one would be replaced by the next WAL's without ever being
    flushed). The caller computes that flag as `index == count - 1`: an equality, nothing weaker."""
    b = P.body(RECOVER_LOGS_FN)
    if b is None:
        return R.missing_anchor(rule, RECOVER_LOGS_FN)
    R.analysed(b)
    rw = [c for c in b.calls() if not b.is_cleanup(c.bb) and c.name == "db::DB::recover_wal_records"]
    bad = []
    for c in rw:
        if len(c.args) < 4:
            bad.append("unexpected arity")
            continue
        os_ = origins(b, c.args[3])
        eqs = [o for o in os_ if o.kind == "binop" and str(o.name) == "Eq"]
        oth = [o for o in os_ if not (o.kind == "binop" and str(o.name) == "Eq")]
        if not eqs or oth:
            bad.append("line %s: is_last_wal derives from %s" % (c.line, sorted({(o.kind, str(o.name)) for o in os_})[:4]))
            continue
        for o in eqs:
            ops = o.extra[1]["rv"]["ops"]
            sides = [origins(b, x) for x in ops]
            has_last = any(any(y.kind == "binop" and str(y.name).startswith("Sub") for y in s_) for s_ in sides)
            if not has_last:
                bad.append("line %s: the equality does not compare with `count - 1`" % c.line)
    R.check(rule, RECOVER_LOGS_FN + "|only-the-last-wal-is-flagged-last", bool(rw) and not bad, where(b),
            "the is_last_wal argument of recover_wal_records is `index == count - 1` (Eq)", "; ".join(bad) or "%d replay sites" % len(rw))


def pair17_recovery_flush_forces_manifest(P, R, L, rule="PAIR-17"):
    """DB::recover_wal_records reports whether the version edit it filled has to be saved (a table was written during
    replay). DB::open saves the edit only then — a flush that is not reported produces a table no version lists: the
    garbage collection at the end of open deletes it and the replayed writes are gone with the WAL. Every path through a
    convert_memtable_to_file site to an Ok return passes an assignment `flag = true` of the flag that is returned."""
    fn = "db::DB::recover_wal_records"
    b = P.body(fn)
    if b is None:
        return R.missing_anchor(rule, fn)
    R.analysed(b)
    conv = [c for c in sites_reaching(P, b, CONVERT) if not b.is_cleanup(c.bb)]
    # the flag: first component of the tuple wrapped into the Ok return
    flags = set()
    okb = []
    for bb in range(b.n):
        if b.is_cleanup(bb):
            continue
        for st in b.blocks[bb]["stmts"]:
            if st["k"] == "assign" and st["pl"]["l"] == 0 and not st["pl"]["p"] and st["rv"]["k"] == "aggregate" and st["rv"].get("variant") == "Ok":
                okb.append(bb)
                op = st["rv"]["ops"][0]
                if op["k"] in ("copy", "move"):
                    for d in b.defs().get(op["pl"]["l"], []):
                        if d[0] == "stmt" and d[3]["rv"]["k"] == "aggregate" and d[3]["rv"]["ak"] == "tuple" and d[3]["rv"]["ops"]:
                            f0 = d[3]["rv"]["ops"][0]
                            seen = set()
                            while f0["k"] in ("copy", "move") and f0["pl"]["l"] not in seen:
                                seen.add(f0["pl"]["l"])
                                flags.add(f0["pl"]["l"])
                                ds = [x for x in b.defs().get(f0["pl"]["l"], []) if x[0] == "stmt" and x[3]["rv"]["k"] == "use"]
                                if len(ds) == 1 and ds[0][3]["rv"]["ops"][0]["k"] in ("copy", "move"):
                                    f0 = ds[0][3]["rv"]["ops"][0]
                                else:
                                    break
    sets_true = [bb for bb in range(b.n) if not b.is_cleanup(bb) for st in b.blocks[bb]["stmts"]
                 if st["k"] == "assign" and not st["pl"]["p"] and st["pl"]["l"] in flags and st["rv"]["k"] == "use"
                 and st["rv"]["ops"][0]["k"] == "const" and str(st["rv"]["ops"][0].get("val")) == "1"]
    bad = []
    for c in conv:
        if b.must_pass(c.bb, through_nodes=sets_true):
            continue
        for r in okb:
            if c.target is not None and r in b.reachable(c.target) and not b.must_pass(r, through_nodes=sets_true, start=c.target):
                bad.append("the flush at line %s can be followed by an Ok return without `save the edit` having been set" % c.line)
                break
    R.check(rule, fn + "|a-flush-during-replay-is-reported", bool(conv) and bool(flags) and bool(sets_true) and not bad, where(b),
            "every path through convert_memtable_to_file to an Ok return passes `flag = true` for the flag returned as the first tuple component",
            "; ".join(bad) or "flush sites %d, flag stores %d" % (len(conv), len(sets_true)))


def ord21_file_loader_commits_after_open(P, R, L, rule="ORD-21"):
    """FilesEntryIterator::set_table_iter has a shortcut: "the requested file is the current one and an iterator exists —
    nothing to do". The pair (current_file_index, current_table_iter) must therefore change together, after the fallible
    TableCache::find_table: an index recorded before a failed open makes the retry take the shortcut with the PREVIOUS
    file's iterator, and the scan silently skips one whole table file."""
    fn = "versioning::file_iterators::FilesEntryIterator::set_table_iter"
    b = P.body(fn)
    if b is None:
        return R.missing_anchor(rule, fn)
    R.analysed(b)
    opens = [c for c in b.calls() if not b.is_cleanup(c.bb) and c.name == "table_cache::TableCache::find_table"]
    bad = []
    n = 0
    for f in ("current_file_index", "current_table_iter"):
        for s in field_stores(b, f):
            n += 1
            after = b.reachable(s[0])
            late = [o for o in opens if o.bb in after and o.bb != s[0]]
            if late:
                bad.append("%s is assigned at line %s before the table is opened at line %s" % (f, s[2].get("line"), late[0].line))
    R.check(rule, fn + "|state-committed-after-the-fallible-open", bool(opens) and n >= 2 and not bad, where(b),
            "no store to current_file_index / current_table_iter can be followed by the fallible find_table (a failed open leaves the pair untouched)",
            "; ".join(bad) or "%d stores, %d open sites" % (n, len(opens)))


STATUS = ITER_TRAIT + "::status"
STATUS_WRAPPERS = [
    # (impl of RainDbIterator::status, the child field it has to hand on)
    ("<iterator::CachingIterator as iterator::RainDbIterator>::status", "iterator"),
    ("<versioning::file_iterators::FilesEntryIterator as iterator::RainDbIterator>::status", "current_table_iter"),
    ("<versioning::file_iterators::MergingIterator as iterator::RainDbIterator>::status", "iterators"),
    ("<iterator::DatabaseIterator as iterator::RainDbIterator>::status", "inner_iter"),
]


def err4_status_chain(P, R, L, rule="ERR-4"):
    """`next` / `prev` have no error channel: the table iterator and the file-level iterator park the error that cut a step
    short in `maybe_error` (ERR-1 checks the stores) and every iterator reports it through RainDbIterator::status. The
    error reaches a consumer only if every wrapper hands its children's status on: CachingIterator, FilesEntryIterator,
    MergingIterator (status and get_error — the one the compaction consults before installing its output) and
    DatabaseIterator; and FilesEntryIterator keeps the status of a table iterator before it replaces it."""
    def reaches_child_status(b, field):
        for c in b.calls():
            if b.is_cleanup(c.bb) or (c.declared_name or "") != STATUS:
                continue
            if any(field in o.path or (o.kind == "upvar") for o in origins(b, c.args[0])):
                return True
        # through a closure (`iter().find_map(|it| it.status())`, `as_ref().and_then(|it| it.status())`)
        for c in b.calls():
            if b.is_cleanup(c.bb):
                continue
            for cl in c.closure_args():
                cb = P.bodies.get(cl)
                if cb is not None and any((x.declared_name or "") == STATUS for x in cb.calls() if not cb.is_cleanup(x.bb)) and \
                        field_reads(b, field):
                    R.analysed(cb)
                    return True
        return False
    n = 0
    for fn, field in STATUS_WRAPPERS:
        b = P.body(fn)
        if b is None:
            R.missing_anchor(rule, fn)
            continue
        R.analysed(b)
        n += 1
        R.check(rule, fn + "|hands-on-the-status-of-its-children", reaches_child_status(b, field), where(b),
                "status() consults RainDbIterator::status of `%s`" % field, "")
    for fn, field in (("<tables::table::TwoLevelIterator as iterator::RainDbIterator>::status", "maybe_error"),
                      ("<versioning::file_iterators::FilesEntryIterator as iterator::RainDbIterator>::status", "maybe_error")):
        b = P.body(fn)
        if b is None:
            R.missing_anchor(rule, fn)
            continue
        R.analysed(b)
        n += 1
        ret = [o for bb in range(b.n) if not b.is_cleanup(bb) for st in b.blocks[bb]["stmts"]
               if st["k"] == "assign" and st["pl"]["l"] == 0 and not st["pl"]["p"] for op in st["rv"].get("ops", []) for o in origins(b, op)]
        ret += [o for c in b.calls() if not b.is_cleanup(c.bb) and c.dest and c.dest["l"] == 0 and c.args for o in origins(b, c.args[0])]
        R.check(rule, fn + "|reports-the-parked-error", any(field in o.path for o in ret), where(b),
                "status() returns the error parked in `%s`" % field, "")
    ge = P.body("versioning::file_iterators::MergingIterator::get_error")
    if ge is None:
        R.missing_anchor(rule, "MergingIterator::get_error")
    else:
        R.analysed(ge)
        n += 1
        R.check(rule, ge.path + "|includes-the-status-of-the-children", reaches_child_status(ge, "iterators"), where(ge),
                "get_error (consulted by the compaction before it installs its output) also returns an error a child met while stepping", "")
    # wherever the file-level iterator drops or replaces its table iterator, the status of that iterator is kept first
    # (set_table_iter, and the two skip helpers that drop it at either end of the file list)
    n_st = 0
    for p_, st_ in sorted(P.bodies.items()):
        if "versioning::file_iterators::FilesEntryIterator" not in p_ or st_.kind == "closure":
            continue
        stores = field_stores(st_, "current_table_iter")
        if not stores:
            continue
        R.analysed(st_)
        n += 1
        n_st += 1
        saves = [c.bb for c in st_.calls() if not st_.is_cleanup(c.bb) and
                 ((c.declared_name or "") == STATUS or (P.bodies.get(c.t.get("resolved") or "") is not None and c.t.get("local") and
                  any((x.declared_name or "") == STATUS for x in P.bodies[c.t["resolved"]].calls())))]
        # a call terminates its block: a status read in the block of the store itself runs AFTER the store
        bad = [s[2].get("line") for s in stores if not st_.must_pass(s[0], through_nodes=[x for x in saves if x != s[0]])]
        R.check(rule, p_ + "|status-kept-before-the-table-iterator-is-replaced", bool(saves) and not bad, where(st_),
                "every assignment to current_table_iter is preceded by reading the status of the iterator it replaces",
                "stores at line(s) %s without a preceding status read" % bad if bad else "%d stores, %d status reads" % (len(stores), len(saves)))
    R.floor(rule, "FilesEntryIterator methods that assign current_table_iter", n_st, 3)
    R.floor(rule, "links of the status chain", n, 10)


def ord22_writer_offset_after_the_write(P, R, L, rule="ORD-22"):
    """LogWriter::current_block_offset is the writer's only knowledge of where it is inside the 32 KiB block: padding and
    fragmentation are computed from it. A failed write is reported to the caller, but the writer object lives on (the
    manifest writer is kept after a failed log_and_apply) — so the offset may advance only after the bytes are in the
    file: in emit_block every store to current_block_offset lies behind the Ok edge of every write to the log file that
    precedes it, and no write follows the store."""
    fn = "logs::LogWriter::emit_block"
    b = P.body(fn)
    if b is None:
        return R.missing_anchor(rule, fn)
    R.analysed(b)
    writes = [c for c in b.calls() if not b.is_cleanup(c.bb) and (c.declared_name or c.name or "") in
              ("std::io::Write::write_all", "std::io::Write::write", "std::io::Write::flush", "fs::traits::RandomAccessFile::append")
              and any("log_file" in o.path for o in origins(b, c.args[0]))]
    data_writes = [c for c in writes if not (c.declared_name or c.name or "").endswith("flush")]
    stores = field_stores(b, "current_block_offset")
    bad = []
    for s in stores:
        for w in data_writes:
            ok_e = [e for t in result_tests(b, w.dest["l"]) for e in t.ok_edges()]
            if not (ok_e and b.must_pass(s[0], through_edges=ok_e)):
                bad.append("the offset is advanced at line %s without the write at line %s having succeeded" % (s[2].get("line"), w.line))
    R.check(rule, fn + "|offset-advanced-only-after-the-bytes-were-written", bool(stores) and bool(data_writes) and not bad, where(b),
            "every store to current_block_offset lies behind the Ok edge of every write_all to the log file", "; ".join(bad) or "%d stores, %d writes" % (len(stores), len(data_writes)))


LEVEL_LOOPS = {
    # function -> number of `a..MAX_NUM_LEVELS` loops confirmed by reading (every one of them has to visit the last level)
    "compaction::manifest::CompactionManifest::is_base_level_for_key": 1,      # older levels that may still hold the key
    "db::DB::compact_range": 1,                                                # deepest level with overlap
    "versioning::version::Version::finalize": 1,                               # compaction scores
    "versioning::version::Version::get_overlapping_files": 1,                  # lookup candidates
    "versioning::version::Version::get_representative_iterators": 1,           # scan sources
    "versioning::version_builder::VersionBuilder::apply_changes": 1,           # files of the new version
    "versioning::version_set::VersionSet::get_live_files": 1,                  # files the collector must keep
    "versioning::version_set::VersionSet::write_snapshot": 2,                  # compaction pointers, files
}


def lvl1_level_loops_cover_all_levels(P, R, L, rule="LVL-1"):
    """The LSM has MAX_NUM_LEVELS (7) levels and several loops must visit every one of them: a loop that stops one level
    early loses the deepest level silently (its files are not searched, not scanned, not carried into the next version,
    not written to the manifest snapshot, or not protected from the garbage collector) — and nothing notices before data
    reaches that level. In the functions below every `a..b` range whose end is a level-count-like constant ends at
    exactly MAX_NUM_LEVELS."""
    total = 0
    for fn, expected in sorted(LEVEL_LOOPS.items()):
        b = P.body(fn)
        if b is None:
            R.missing_anchor(rule, fn)
            continue
        R.analysed(b)
        ends = []
        for bb in range(b.n):
            if b.is_cleanup(bb):
                continue
            for st in b.blocks[bb]["stmts"]:
                rv = st["rv"]
                if st["k"] == "assign" and rv["k"] == "aggregate" and (rv.get("adt") or "").endswith("ops::Range") and len(rv["ops"]) == 2:
                    eo = origins(b, rv["ops"][1])
                    ec = {str(o.name) for o in eo if o.kind == "const"}
                    # `MAX_NUM_LEVELS - 1` is an unfolded binop at mir-opt-level 0
                    for o in eo:
                        if o.kind == "binop" and o.extra:
                            inner = {str(x.name) for op_ in o.extra[1]["rv"]["ops"] for x in origins(b, op_) if x.kind == "const"}
                            if "7" in inner:
                                ec.add("%s(%s)" % (o.name, ",".join(sorted(inner))))
                    if ec & {"5", "6", "7", "8"} or any("(" in x for x in ec):
                        ends.append((st.get("line"), sorted(ec)))
        total += len(ends)
        bad = ["line %s ends at %s" % (ln, "/".join(ec)) for ln, ec in ends if ec != ["7"]]
        # fewer ranges than on the reviewed tree is not a finding (two loops merged into one, a loop rewritten over an iterator)
        R.check(rule, fn + "|level-loops-end-at-MAX_NUM_LEVELS", not bad, where(b),
                "every level range of this function ends at MAX_NUM_LEVELS (7): the deepest level is visited",
                "; ".join(bad) or ("%d level range(s)" % len(ends) if ends else "no constant level range (rewritten without a range: not decided)"))
    R.floor(rule, "constant level ranges in the listed functions", total, 6)


def grd30_base_level_cursor(P, R, L, rule="GRD-30"):
    """CompactionManifest::is_base_level_for_key keeps one monotone cursor per older level (keys arrive in ascending
    order). Answering `true` lets compact_tables drop a tombstone, so the cursor discipline is a retention guard:
    (a) the cursor passes a file only over the exact edge `user key > file.largest` — a key that lies in the gap in FRONT
        of the file must leave the cursor on it (later keys may fall into that file);
    (b) it passes as many files as necessary: the increment sits in a loop of its own inside the loop over the levels
        (advancing one file per call leaves the cursor behind and a file that holds the key is never looked at);
    (c) `false` is returned only for `smallest <= user key <= largest` of the file under the cursor."""
    b = P.body(IS_BASE_LEVEL)
    if b is None:
        return R.missing_anchor(rule, IS_BASE_LEVEL)
    R.analysed(b)
    incs = [s for s in range(b.n) if not b.is_cleanup(s) for st in b.blocks[s]["stmts"]
            if st["k"] == "assign" and any(isinstance(e, dict) and e.get("n") == "base_level_pointers" for e in st["pl"]["p"])]
    # stores through IndexMut: `*index_mut(&mut self.base_level_pointers, level) = ..`
    for c in b.calls():
        if not b.is_cleanup(c.bb) and (c.name or "").endswith("index_mut") and any("base_level_pointers" in o.path for o in origins(b, c.args[0])):
            d = c.dest["l"]
            for s in range(b.n):
                for st in b.blocks[s]["stmts"]:
                    if st["k"] == "assign" and st["pl"]["l"] == d and "*" in st["pl"]["p"]:
                        incs.append(s)
    incs = sorted(set(incs))
    is_key = lambda os_: any(o.kind == "call" and o.name == GET_USER_KEY and o.site is not None and
                             any(x.kind == "param" and x.name == 2 for x in origins(b, o.site.args[0])) for o in os_)
    is_bound = lambda which: (lambda os_: any(o.kind == "call" and o.name == GET_USER_KEY and o.site is not None and
                                               any(x.kind == "call" and (x.name or "").endswith(which) for x in origins(b, o.site.args[0])) for o in os_))
    past = []   # edges on which key > largest
    for c in comparisons(b):
        past += c.edges_where("gt", is_key, is_bound("::largest_key"), exact=True)
    ok_a = bool(incs) and bool(past) and all(b.must_pass(s, through_edges=past) for s in incs)
    R.check(rule, IS_BASE_LEVEL + "|cursor-passes-a-file-only-when-the-key-is-beyond-it", ok_a, where(b),
            "base_level_pointers[level] is advanced only over the exact edge `user key > file.largest_key`",
            "increment blocks %s, `beyond` edges %d" % (incs, len(past)))
    # (b) an inner loop: the increment can reach itself without going through the level iterator's next()
    lvl_next = [c.bb for c in b.calls() if not b.is_cleanup(c.bb) and (c.name or "").endswith("range::next") or (c.declared_name or "") == "std::iter::Iterator::next"]
    ok_b = bool(incs) and all(any(s in b.reachable(t, removed_nodes=lvl_next) for _, t in b.edges(s)) for s in incs)
    R.check(rule, IS_BASE_LEVEL + "|cursor-advances-in-a-loop-of-its-own", ok_b, where(b),
            "the increment lies on a cycle that does not pass the iteration over the levels (the cursor skips every file the key is beyond)",
            "level iterator steps at bb%s" % sorted(lvl_next))
    # (c) `return false` only inside [smallest, largest]
    inside = []
    for c in comparisons(b):
        inside += c.edges_where("ge", is_key, is_bound("::smallest_key"), exact=True)
    not_past = []
    for c in comparisons(b):
        not_past += c.edges_where("le", is_key, is_bound("::largest_key"), exact=True)
    falses = [s for s in range(b.n) if not b.is_cleanup(s) for st in b.blocks[s]["stmts"]
              if st["k"] == "assign" and st["pl"]["l"] == 0 and not st["pl"]["p"] and st["rv"]["k"] == "use" and st["rv"]["ops"][0]["k"] == "const"
              and str(st["rv"]["ops"][0].get("val")) == "0"]
    ok_c = bool(falses) and bool(inside) and bool(not_past) and all(b.must_pass(s, through_edges=inside) and b.must_pass(s, through_edges=not_past) for s in falses)
    R.check(rule, IS_BASE_LEVEL + "|not-base-only-inside-a-file-range", ok_c, where(b),
            "`false` is returned only behind `user key >= smallest` and `user key <= largest` of the file under the cursor",
            "false returns %d, lower edges %d, upper edges %d" % (len(falses), len(inside), len(not_past)))


def verd2_not_found_only_for_a_miss(P, R, L, rule="VERD-2"):
    """`ReadError::KeyNotFound` means "this file / block does not hold the key": Version::get answers it by searching the
    next older file. It may therefore be produced only on a genuine miss, never as the answer to a FAILED operation — a
    table that cannot be opened or a block that cannot be read must surface as the error it is. In the lookup chain
    (TableCache::get, Table::get) no construction of KeyNotFound is reachable from the Err edge of a fallible call."""
    n = 0
    for fn in ("table_cache::TableCache::get", "tables::table::Table::get"):
        b = P.body(fn)
        if b is None:
            R.missing_anchor(rule, fn)
            continue
        R.analysed(b)
        knf = [bb for bb in range(b.n) if not b.is_cleanup(bb) for st in b.blocks[bb]["stmts"]
               if st["k"] == "assign" and st["rv"]["k"] == "aggregate" and st["rv"].get("variant") == "KeyNotFound"]
        knf += [bb for bb in range(b.n) if not b.is_cleanup(bb) for st in b.blocks[bb]["stmts"]
                if st["k"] == "assign" and st["rv"]["k"] == "use" and st["rv"]["ops"][0]["k"] == "const" and "KeyNotFound" in (st["rv"]["ops"][0].get("text") or "")]
        bad = []
        sites = 0
        for c in b.calls():
            if b.is_cleanup(c.bb) or not c.dest or c.dest["p"]:
                continue
            ty = b.local_ty(c.dest["l"])
            if not ty.startswith("std::result::Result<") or (c.declared_name or "").endswith("Try::branch") or (c.declared_name or "").endswith("from_residual"):
                continue
            tests = result_tests(b, c.dest["l"])
            if not tests:
                continue
            sites += 1
            for t in tests:
                for (_, tg) in t.err_edges():
                    r = b.reachable(tg)
                    hit = [x for x in knf if x in r]
                    if hit:
                        bad.append("the failure of %s (line %s) can be answered with KeyNotFound" % ((c.name or "").rsplit("::", 2)[-1], c.line))
        n += 1
        R.check(rule, fn + "|a-failed-operation-is-not-a-miss", not bad, where(b),
                "no KeyNotFound is constructed on a path from the Err edge of a fallible call", "; ".join(sorted(set(bad))) or "%d fallible sites, %d KeyNotFound constructions" % (sites, len(knf)))
    R.floor(rule, "lookup functions examined", n, 2)


def atom1_positional_read_is_one_operation(P, R, L, rule="ATOM-1"):
    """All readers of a table share one file handle (Table keeps it; blocks are read concurrently by lookups, scans and
    compactions), so ReadonlyRandomAccessFile::read_from has to be a positional read that does not go through the
    handle's cursor: no implementation seeks and then reads (two steps that interleave with another reader's)."""
    impls = [p for p in P.bodies if p.endswith("::read_from") and "ReadonlyRandomAccessFile" in p]
    R.floor(rule, "implementations of ReadonlyRandomAccessFile::read_from", len(impls), 2)
    for p in sorted(impls):
        b = P.bodies[p]
        R.analysed(b)
        seeks = [c for c in sites_reaching(P, b, lambda c: (c.declared_name or "") in ("std::io::Seek::seek", "std::io::Seek::rewind", "std::io::Seek::stream_position"))]
        R.check(rule, p + "|no-seek-then-read", not seeks, where(b),
                "read_from does not move the shared cursor (no Seek::seek reachable)", "seek reachable through line(s) %s" % [c.line for c in seeks] if seeks else "")


def grd31_open_honours_manifest_reuse_result(P, R, L, rule="GRD-31"):
    """VersionSet::recover says whether the old manifest was adopted for appending; when it was not, it has already moved
    `manifest_file_number` on to a fresh number and DB::open has to write that manifest (snapshot + CURRENT switch) before
    the garbage collection that ends open — otherwise the old manifest is collected and CURRENT dangles. DB::recover
    must therefore let that result decide: the bool returned by VersionSet::recover is tested (or flows into the
    `create a new snapshot` flag DB::recover returns); it is not replaced by an option or dropped."""
    fn = "db::DB::recover"
    VSR = "versioning::version_set::VersionSet::recover"
    b = P.body(fn)
    if b is None:
        return R.missing_anchor(rule, fn)
    R.analysed(b)
    calls = [c for c in b.calls() if not b.is_cleanup(c.bb) and c.name == VSR]
    derived = lambda os_: any(o.kind == "call" and o.name == VSR for o in os_) or any(
        o.kind == "unop" and o.extra and any(x.kind == "call" and x.name == VSR for op_ in o.extra[1]["rv"]["ops"] for x in origins(b, op_)) for o in os_)
    tested = False
    for bb in range(b.n):
        t = b.term(bb)
        if not b.is_cleanup(bb) and t["k"] == "switch" and t["discr"]["k"] in ("copy", "move") and b.local_ty(t["discr"]["pl"]["l"]) == "bool" \
                and derived(origins(b, t["discr"])):
            tested = True
    flows = False
    for bb in range(b.n):
        if b.is_cleanup(bb):
            continue
        for st in b.blocks[bb]["stmts"]:
            if st["k"] == "assign" and st["rv"]["k"] == "aggregate" and st["rv"]["ak"] == "tuple" and len(st["rv"]["ops"]) == 2 and derived(origins(b, st["rv"]["ops"][1])):
                flows = True
    R.check(rule, fn + "|manifest-reuse-result-decides-the-new-snapshot", bool(calls) and (tested or flows), where(b),
            "the bool returned by VersionSet::recover is tested or flows into the flag DB::recover returns", "tested=%s flows=%s" % (tested, flows))


def grd32_flush_time_is_a_sub_interval(P, R, L, rule="GRD-32"):
    """compact_tables reports `elapsed - total_memtable_compaction_time` for a table compaction; Duration subtraction
    panics on underflow, and the panic is on the compaction thread (the scheduled flag stays set: every waiter hangs).
    The total is therefore a sum of sub-intervals of the compaction: every addend is the `elapsed()` of an Instant
    taken inside the merge loop, never of the stopwatch of the whole compaction."""
    n = 0
    bad = []
    for name, b in sorted(P.bodies.items()):
        if not name.startswith("compaction::worker::CompactionWorker::compact_tables"):
            continue
        adds = [c for c in b.calls() if not b.is_cleanup(c.bb) and (c.declared_name or "") == "std::ops::AddAssign::add_assign"
                and "Duration" in (c.name or "") and any("total_memtable_compaction_time" in o.path or (o.kind == "upvar" and o.name == "total_memtable_compaction_time")
                                                           for o in origins(b, c.args[0]))]
        if not adds:
            continue
        R.analysed(b)
        for c in adds:
            n += 1
            ok = False
            for o in origins(b, c.args[1]):
                if o.kind == "call" and (o.name or "").endswith("Instant::elapsed") and o.site is not None:
                    nows = [x for x in origins(b, o.site.args[0]) if x.kind == "call" and (x.name or "").endswith("Instant::now") and x.site is not None]
                    if nows and all(in_cycle(b, x.site.bb) for x in nows) and len(nows) == len(origins(b, o.site.args[0])):
                        ok = True
            if not ok:
                bad.append("line %s adds a duration that is not measured from an Instant taken inside the merge loop" % c.line)
    R.check(rule, "compaction::worker::CompactionWorker::compact_tables|flush-time-addends-are-sub-intervals", n > 0 and not bad, "src/compaction/worker.rs",
            "every addend of total_memtable_compaction_time is `elapsed()` of an Instant created in the same loop iteration", "; ".join(bad) or "%d addends" % n)


def prog1_sampling_loop_progress(P, R, L, rule="PROG-1"):
    """DatabaseIterator::sample_read_stats_for_current_key loops `while bytes_until_read_sampling < bytes_read`, taking the
    database mutex in every round. The loop ends because each round ADDS a positive period to the counter; assigning a
    fresh period instead (each below 2 MiB) never ends for an entry larger than that — seek / next / prev spin for ever."""
    fn = "iterator::DatabaseIterator::sample_read_stats_for_current_key"
    b = P.body(fn)
    if b is None:
        return R.missing_anchor(rule, fn)
    R.analysed(b)
    F = "bytes_until_read_sampling"
    loop_tests = [c for c in comparisons(b) if in_cycle(b, c.bb) and (any(F in o.path for o in c.lhs_origins()) or any(F in o.path for o in c.rhs_origins()))]
    stores = [s for s in field_stores(b, F) if in_cycle(b, s[0])]
    bad = []
    for s in stores:
        acc = False
        for op in s[2]["rv"].get("ops", []):
            for o in origins(b, op):
                if o.kind == "binop" and str(o.name).startswith("Add") and o.extra and any(
                        F in x.path for op2 in o.extra[1]["rv"]["ops"] for x in origins(b, op2)):
                    acc = True
        if not acc:
            bad.append("line %s assigns the counter without adding to its previous value" % s[2].get("line"))
    R.check(rule, fn + "|counter-accumulates", bool(loop_tests) and bool(stores) and not bad, where(b),
            "inside the sampling loop the counter that the loop condition reads is only ever increased (`+=`)", "; ".join(bad) or "%d loop tests, %d stores" % (len(loop_tests), len(stores)))


# ------------------------------------------------------------------------------------------- SRC-3 which file a level iterator opens
FILES_ITER = "versioning::file_iterators::FilesEntryIterator"
FIND_FILE = "versioning::utils::find_file_with_upper_bound_range"


def _payload_origins(b, op):
    """origins of an Option<usize> operand with the `Some` wrapper taken off"""
    return [o for o in origins(b, op) if not (o.kind == "agg" and (o.name or "").endswith("Option::Some"))]


def src3_level_iterator_file_selection(P, R, L, rule="SRC-3"):
    """FilesEntryIterator: the file index handed to set_table_iter is, in seek, the result of the binary search over the whole
    file list for the target (a shortcut that keeps another index must bound the target from BOTH sides: smallest and
    largest key of that file), in seek_to_first 0, in seek_to_last len - 1, and in the skip helpers the neighbour of the
    current index in the helper's direction."""
    loader = FILES_ITER + "::set_table_iter"
    n = 0
    table = [("<%s as %s>::seek" % (FILES_ITER, ITER_TRAIT), "search"), ("<%s as %s>::seek_to_first" % (FILES_ITER, ITER_TRAIT), "first"),
             ("<%s as %s>::seek_to_last" % (FILES_ITER, ITER_TRAIT), "last"), (FILES_ITER + "::skip_empty_table_files_forward", "succ"),
             (FILES_ITER + "::skip_empty_table_files_backward", "pred")]
    for path, kind in table:
        b = P.body(path)
        if b is None:
            R.missing_anchor(rule, path)
            continue
        R.analysed(b)
        sites = [c for c in b.calls() if c.name == loader and not b.is_cleanup(c.bb) and len(c.args) >= 2]
        if not sites:
            R.missing_anchor(rule, "%s calls set_table_iter" % path)
            continue
        for c in sites:
            n += 1
            os_ = _payload_origins(b, c.args[1])
            bad = []
            if kind == "search":
                srch = [o for o in os_ if o.kind == "call" and o.name == FIND_FILE]
                other = [o for o in os_ if o not in srch]
                for o in srch:
                    a = o.site.args
                    if not (len(a) == 2 and any("file_list" in x.path for x in origins(b, a[0])) and
                            any(x.kind == "param" and x.name == 2 for x in origins(b, a[1]))):
                        bad.append("the search is not over (self.file_list, target)")
                if not srch:
                    bad.append("the index does not come from %s" % FIND_FILE.rsplit("::", 1)[1])
                if other:
                    # a shortcut is sound only if the target is bounded from both sides by the file it keeps
                    is_t = lambda os: any(x.kind == "param" and x.name == 2 for x in os)
                    sides = set()
                    for cmp_ in comparisons(b):
                        lo, ro = cmp_.lhs_origins(), cmp_.rhs_origins()
                        for (t_, k_) in ((lo, ro), (ro, lo)):
                            if is_t(t_):
                                for x in k_:
                                    if x.kind == "call" and x.name.endswith("::smallest_key"):
                                        sides.add("smallest")
                                    if x.kind == "call" and x.name.endswith("::largest_key"):
                                        sides.add("largest")
                    if sides != {"smallest", "largest"}:
                        bad.append("an index that is not the search result (%s) is used with the target bounded only by %s" % (
                            sorted({repr(o) for o in other})[:3], sorted(sides) or "nothing"))
            elif kind == "first":
                if not os_ or not all(o.kind == "const" and str(o.name) == "0" for o in os_):
                    bad.append("index origins %s" % sorted({repr(o) for o in os_})[:4])
            else:
                want = {"last": "Sub", "succ": "Add", "pred": "Sub"}[kind]
                ar = [o for o in os_ if o.kind == "binop"]
                rest = [o for o in os_ if o.kind != "binop" and not (kind == "last" and o.kind == "const" and str(o.name) == "0")]
                if not ar or rest or not all((o.name or "").startswith(want) for o in ar):
                    bad.append("index origins %s" % sorted({repr(o) for o in os_})[:4])
                for o in ar:
                    ops = o.extra[1]["rv"]["ops"]
                    base = origins(b, ops[0])
                    one = ops[1]["k"] == "const" and str(ops[1].get("val")) == "1"
                    if kind == "last":
                        good = any(x.kind == "call" and x.name.endswith("::len") and any("file_list" in y.path for y in origins(b, x.site.args[0])) for x in base)
                    else:
                        good = any("current_file_index" in x.path for x in base)
                    if not (good and one):
                        bad.append("the index is not %s" % {"last": "file_list.len() - 1", "succ": "current_file_index + 1", "pred": "current_file_index - 1"}[kind])
            R.check(rule, "%s|file-index=%s" % (path, kind), not bad, c.where(),
                    {"search": "the file to open is the one the search over the whole file list finds for the target",
                     "first": "the first file", "last": "the last file", "succ": "the next file", "pred": "the previous file"}[kind],
                    "; ".join(bad) or "ok")
    R.floor(rule, "set_table_iter call sites with a checked index", n, 5)


# ------------------------------------------------------------------------------------------- WRAP-1 a wrapper iterator delegates every repositioning
WRAPPERS = [
    # (self type, child field for seeks, child field for steps)
    ("iterator::CachingIterator", "iterator", "iterator"),
    ("versioning::file_iterators::FilesEntryIterator", "current_table_iter", "current_table_iter"),
    ("tables::table::TwoLevelIterator", "index_block_iter", "maybe_data_block_iter"),
    ("iterator::DatabaseIterator", "inner_iter", None),
]


def _validity_edges(P, b):
    """(true_edges, false_edges) of tests of the receiver's own validity: reads of a bool field `is_valid` and calls of is_valid on self"""
    tr, fl = [], []
    for c in b.calls():
        if b.is_cleanup(c.bb) or not (c.name or "").endswith("::is_valid") or not c.args:
            continue
        if any(o.kind == "param" and o.name == 1 and not o.path for o in origins(b, c.args[0])):
            for t in _bt(b, c.dest["l"]):
                tr += [(t.bb, x) for x in t.ok]
                fl += [(t.bb, x) for x in t.err]
    for bb in sorted(field_reads(b, "is_valid")):
        for st in b.blocks[bb]["stmts"]:
            if st["k"] == "assign" and not st["pl"]["p"] and "bool" == b.local_ty(st["pl"]["l"]) and st["rv"]["k"] == "use" and \
                    st["rv"]["ops"][0]["k"] in ("copy", "move") and \
                    any(isinstance(e, dict) and e.get("n") == "is_valid" for e in st["rv"]["ops"][0]["pl"]["p"]):
                for t in _bt(b, st["pl"]["l"]):
                    tr += [(t.bb, x) for x in t.ok]
                    fl += [(t.bb, x) for x in t.err]
        t = b.term(bb)
        if t["k"] == "switch" and t["discr"]["k"] in ("copy", "move") and \
                any(isinstance(e, dict) and e.get("n") == "is_valid" for e in t["discr"]["pl"]["p"]):
            f = switch_target(t, 0)
            tr += [(bb, tg) for (_, tg) in b.edges(bb) if tg != f]
            fl += [(bb, f)] if f is not None else []
    return tr, fl


def wrap1_delegation(P, R, L, rule="WRAP-1"):
    """A wrapper iterator (CachingIterator, FilesEntryIterator, TwoLevelIterator, DatabaseIterator) repositions its child on
    every seek: an Ok return of seek / seek_to_first / seek_to_last that did not pass the child's positioning call is only
    acceptable where the wrapper knows it has no child (the Option is None) or behind the TRUE edge of a test of its own
    validity (a shortcut may trust the cached position only while it is valid).  next / prev step the child unless the
    wrapper is invalid."""
    n = 0
    for (ty, seek_child, step_child) in WRAPPERS:
        for meth in ("seek", "seek_to_first", "seek_to_last", "next", "prev"):
            child = seek_child if meth.startswith("seek") else step_child
            if child is None:
                continue
            path = "<%s as %s>::%s" % (ty, ITER_TRAIT, meth)
            b = P.body(path)
            if b is None:
                R.missing_anchor(rule, path)
                continue
            R.analysed(b)
            n += 1
            on_child = lambda c: bool(c.args) and any(child in o.path for o in origins(b, c.args[0]))
            deleg = [c for c in b.calls() if not b.is_cleanup(c.bb) and (c.declared_name or "").startswith(ITER_TRAIT + "::") and
                     (c.declared_name or "").rsplit("::", 1)[1] == meth and on_child(c)]
            if ty == "tables::table::TwoLevelIterator" and meth.startswith("seek"):
                pass
            tr, fl = _validity_edges(P, b)
            none_e = field_option_edges(b, child)[1]
            # a shortcut that trusts the current position behind a test of the wrapper's own validity is sound for the stateless
            # wrappers; DatabaseIterator also has a DIRECTION (in backward mode the inner iterator stands before the entry shown),
            # so its seek always repositions the inner iterator
            exempt = none_e + ((tr if ty != "iterator::DatabaseIterator" else []) if meth.startswith("seek") else fl)
            if meth.startswith("seek"):
                ends = _ok_blocks(b) or b.return_blocks()
            else:
                ends = b.return_blocks()
            r = b.reachable(0, removed_nodes=[c.bb for c in deleg], removed_edges=exempt)
            leak = [x for x in ends if x in r]
            ok = bool(deleg) and not leak
            R.check(rule, "%s|delegates-to-child" % path, ok, where(b),
                    "%s reaches a%s return only through the child's %s (or where it has no child / behind a test of its own validity)" % (
                        meth, "n Ok" if meth.startswith("seek") else "", meth),
                    "no delegated call on field `%s`" % child if not deleg else
                    ("a return (block %s, line %s) is reachable without repositioning the child" % (leak[0], b.term(leak[0]).get("line")) if leak else "ok"))
    R.floor(rule, "wrapper positioning methods checked", n, 18)


# ------------------------------------------------------------------------------------------- PAIR-13 (keys) where an index key comes from
def _call_closure(body, op, follow, depth=5):
    """call origins of an operand, looking through the first argument of the calls named in `follow`"""
    out = []
    for o in origins(body, op):
        if o.kind != "call":
            continue
        out.append(o)
        if depth > 0 and o.site is not None and o.site.args and any(o.name.startswith(f) or o.name == f for f in follow):
            out += _call_closure(body, o.site.args[0], follow, depth - 1)
    return out


def pair13_index_key_provenance(P, R, L, rule="PAIR-13"):
    """TableBuilder: the key of an index entry is the InternalKey-level separator between the last key of the flushed block
    and the next key (add_entry) or the InternalKey-level successor of the last key (finalize).  Those two functions
    fall back to the key itself whenever the shortened user key is not both shorter and larger (empty and all-0xff user
    keys); a key assembled by hand from the byte-level helper has no such guard and can sort BELOW the last key of its
    block, which makes point lookups and seeks run off the end of the index."""
    BADD = "tables::block_builder::BlockBuilder::add_entry"
    want = {"tables::table_builder::TableBuilder::add_entry": "<&key::InternalKey as utils::bytes::BinarySeparable>::find_shortest_separator",
            "tables::table_builder::TableBuilder::finalize": "<&key::InternalKey as utils::bytes::BinarySeparable>::find_shortest_successor"}
    n = 0
    for fn, sep in want.items():
        b = P.body(fn)
        if b is None:
            R.missing_anchor(rule, fn)
            continue
        R.analysed(b)
        for c in b.calls():
            if b.is_cleanup(c.bb) or c.name != BADD or not any("index_block_builder" in o.path for o in origins(b, c.args[0])):
                continue
            n += 1
            cl = _call_closure(b, c.args[1], ("<key::InternalKey as std::convert::TryFrom", "key::InternalKey::try_from"))
            names = {o.name for o in cl}
            seps = [o for o in cl if o.name == sep]
            foreign = sorted(x for x in names if x != sep and not x.startswith("<key::InternalKey as std::convert::TryFrom"))
            from_last = bool(seps) and all(any("maybe_last_key_added" in y.path for y in deep_origins(P, b, o.site.args[0])) for o in seps)
            ok = bool(seps) and not foreign and from_last
            R.check(rule, "%s|index-key-from-guarded-separator" % fn, ok, c.where(),
                    "the index key is %s(last key of the block, ..) re-parsed as an InternalKey" % sep.rsplit("::", 1)[1],
                    "separator calls %d (on the last key added: %s); other producers %s" % (len(seps), from_last, foreign[:3]))
    R.floor(rule, "index entries with a checked key", n, 2)


# ------------------------------------------------------------------------------------------- LIST-1 the version list is walked completely
def list1_iteration_covers_the_list(P, R, L, rule="LIST-1"):
    """utils::linked_list: `iter()` starts at the head and the iterator advances along the `next` links, so a walk visits every
    node (VersionSet::get_live_files walks the version list to find the files pinned by older versions)."""
    it = P.body("utils::linked_list::LinkedList::<T>::iter")
    if it is None:
        R.missing_anchor(rule, "utils::linked_list::LinkedList::<T>::iter")
    else:
        R.analysed(it)
        os_ = origins(it, {"l": 0, "p": [{"f": 0, "n": "next"}]}) if True else []
        flds = {x for o in os_ for x in o.path}
        # fall back to the aggregate that builds the iterator
        if not os_ or all(o.kind == "unknown" for o in os_):
            flds = set()
            for bb in range(it.n):
                for st in it.blocks[bb]["stmts"]:
                    if st["k"] == "assign" and st["rv"]["k"] == "aggregate" and "NodeIter" in (st["rv"].get("adt") or ""):
                        for op in st["rv"]["ops"]:
                            flds |= {x for o in origins(it, op) for x in o.path}
        calls = {o.name for o in os_ if o.kind == "call"}
        ok = "head" in flds and "tail" not in flds and not any(c.endswith("::tail") for c in calls)
        R.check(rule, "%s|starts-at-head" % it.path, ok, where(it), "the iterator's first node is the list's head", "fields read: %s %s" % (sorted(flds), sorted(calls)))
    nx = [b for p, b in P.bodies.items() if p.startswith("<utils::linked_list::NodeIter<T> as std::iter::Iterator>::next")]
    if not nx:
        R.missing_anchor(rule, "<utils::linked_list::NodeIter<T> as std::iter::Iterator>::next")
    for b in nx:
        R.analysed(b)
    st_next, bad = 0, []
    for b in nx:
        stores = list(field_stores(b, "next"))
        # inside the `map` closure the cursor is the captured `&mut self.next`: a store through that upvar
        for bb in range(b.n):
            if b.is_cleanup(bb):
                continue
            for i, st in enumerate(b.blocks[bb]["stmts"]):
                if st["k"] == "assign" and st["pl"]["p"] and not any(isinstance(e, dict) and "f" in e for e in st["pl"]["p"]) and \
                        any(o.kind == "upvar" and str(o.name).endswith("next") for o in origins(b, {"l": st["pl"]["l"], "p": []})):
                    stores.append((bb, i, st))
        for (bb, i, st) in stores:
            if st["rv"]["k"] == "use" and st["rv"]["ops"][0]["k"] == "const":
                continue
            st_next += 1
            def fields_of(op, d=5):
                out = set()
                for o in origins(b, op):
                    out |= set(o.path)
                    if o.kind == "call" and o.site is not None and o.site.args and d > 0 and \
                            strip_generics(o.name) in ("std::option::Option::map", "std::option::Option::and_then", "std::option::Option::cloned"):
                        out |= fields_of(o.site.args[0], d - 1)
                return out
            fl = fields_of(st["rv"]["ops"][0]) if st["rv"]["k"] == "use" else set()
            if "prev" in fl or "next" not in fl:
                bad.append(sorted(fl))
    if nx:
        R.check(rule, "utils::linked_list::NodeIter::next|advances-along-next", st_next >= 1 and not bad, where(nx[0]),
                "the cursor moves to the `next` link of the node it yields", "stores to the cursor %d; offending origins %s" % (st_next, bad[:2]))


# ------------------------------------------------------------------------------------------- OWN-13 who may change the two lists of a version edit
def mut_field_sites(P, adt, field):
    """(function path, line) of every statement outside unwind paths that assigns to, or takes a `&mut` of, field `field` of `adt`
    (closures are reported under the function they are written in)"""
    out = []
    for p, b in sorted(P.bodies.items()):
        for bb in range(b.n):
            if b.is_cleanup(bb):
                continue
            for st in b.blocks[bb]["stmts"]:
                if st["k"] != "assign":
                    continue
                pls = [st["pl"]]
                if st["rv"]["k"] in ("ref", "rawptr") and st["rv"].get("mut"):
                    pls.append(st["rv"]["pl"])
                else:
                    pls = [st["pl"]] if any(isinstance(e, dict) and "f" in e for e in st["pl"]["p"]) else []
                for pl in pls:
                    if any(isinstance(e, dict) and e.get("n") == field and e.get("a") == adt for e in pl["p"]):
                        out.append((p.split("::{closure")[0], st.get("line")))
    return out


EDIT_FIELD_OWNERS = [
    ("versioning::version_manifest::VersionChangeManifest", "deleted_files", ("::remove_file", "TryFrom", "Default")),
    ("versioning::version_manifest::VersionChangeManifest", "new_files", ("::add_file", "TryFrom", "Default")),
]


def own13_edit_lists(P, R, L, rule="OWN-13"):
    """A version edit's list of added files is only changed by add_file and its list of deleted files only by remove_file (and by
    the decoder): an edit that moves a file between levels (trivial move) both deletes and adds the same file number, so
    neither operation may cancel the other."""
    n = 0
    for adt, field, owners in EDIT_FIELD_OWNERS:
        sites = mut_field_sites(P, adt, field)
        n += len(sites)
        for fn in sorted({s[0] for s in sites}):
            ok = any(o in fn for o in owners)
            R.check(rule, "%s|mutates=%s" % (fn, field), ok, "%s:%s" % (P.bodies[fn].file if fn in P.bodies else "-", [s[1] for s in sites if s[0] == fn][0]),
                    "`%s` of a version edit is only changed by %s" % (field, " / ".join(o.strip(":") for o in owners)), fn)
    R.floor(rule, "mutation sites of the edit lists", n, 2)


# ------------------------------------------------------------------------------------------- OWN-14 the outcome slot of a queued writer
def own14_writer_outcome_slot(P, R, L, rule="OWN-14"):
    """writers::Writer: the outcome slot (`operation_result`) is written only by set_operation_result, unconditionally and with the value
    it was given (a leader hands the group's outcome to each follower through it; the follower returns what it finds there), and
    the completion flag (`operation_completed`) only by set_operation_completed with the value it was given."""
    ADT = "writers::WriterInner"
    for field, setter in (("operation_result", "writers::Writer::set_operation_result"), ("operation_completed", "writers::Writer::set_operation_completed")):
        sites = mut_field_sites(P, ADT, field)
        b = P.body(setter)
        if b is None:
            R.missing_anchor(rule, setter)
            continue
        R.analysed(b)
        others = sorted({s[0] for s in sites if s[0] != setter and not s[0].endswith("::new")})
        st = field_stores(b, field, adt=ADT)
        direct = [s for s in st if any(o.kind == "param" and o.name == 2 for o in origins(b, s[2]["rv"]["ops"][0] if s[2]["rv"]["k"] == "use" else s[2]["pl"])) or
                  (s[2]["rv"]["k"] == "aggregate" and any(o.kind == "param" and o.name == 2 for op in s[2]["rv"]["ops"] for o in origins(b, op)))]
        uncond = bool(direct) and all(b.must_pass(r, through_nodes=[s[0] for s in direct]) for r in b.return_blocks())
        borrowed = [s for s in sites if s[0] == setter and s[1] not in [x[2].get("line") for x in st]]
        ok = not others and uncond and len(st) == len(direct) and not borrowed
        R.check(rule, "%s|slot=%s" % (setter, field), ok, where(b),
                "`%s` is assigned only here, on every path, from the value passed in" % field,
                "other writers %s; assignments %d (from the parameter %d, on every path %s); mutable borrows %d" % (others, len(st), len(direct), uncond, len(borrowed)))


# ------------------------------------------------------------------------------------------- GRD-33 a decoder reports what it consumed
def _expr_leaves(body, op, depth=6, seen=None):
    """leaf origins of an arithmetic expression (binops are looked through)"""
    out = []
    seen = seen if seen is not None else set()
    for o in origins(body, op):
        if o.kind in ("binop", "unop") and o.extra and depth > 0:
            key = (o.extra[0], id(o.extra[1]))
            if key in seen:
                continue
            seen.add(key)
            for x in o.extra[1]["rv"]["ops"]:
                out += _expr_leaves(body, x, depth - 1, seen)
        else:
            out.append(o)
    return out


def grd33_decoder_reports_consumed_bytes(P, R, L, rule="GRD-33"):
    """BatchElement::read_element returns (element, bytes read) and Batch::try_from advances its cursor by that count: the count
    must be MEASURED on the input buffer (every leaf of its expression is a constant or a call on the buffer parameter, e.g.
    `starting_len - buf.len()`), never re-derived from the decoded element - a formula that disagrees with the codec by one
    byte shifts every following element of a multi-operation batch."""
    fn = "batch::BatchElement::read_element"
    b = P.body(fn)
    if b is None:
        R.missing_anchor(rule, fn)
        return
    R.analysed(b)
    n, bad = 0, []
    for bb in range(b.n):
        if b.is_cleanup(bb):
            continue
        for st in b.blocks[bb]["stmts"]:
            if st["k"] == "assign" and st["rv"]["k"] == "aggregate" and st["rv"].get("ak") == "tuple" and len(st["rv"]["ops"]) == 2 and \
                    "usize" in b.local_ty(st["pl"]["l"]) and not st["pl"]["p"]:
                n += 1
                for o in _expr_leaves(b, st["rv"]["ops"][1]):
                    if o.kind == "const":
                        continue
                    from_buf = o.kind == "call" and o.site is not None and o.site.args and \
                        any(x.kind == "param" and x.name == 1 for x in origins(b, o.site.args[0]))
                    if not from_buf:
                        bad.append(repr(o))
    R.check(rule, fn + "|count-measured-on-the-buffer", n >= 1 and not bad, where(b),
            "the byte count returned with the element is computed from lengths of the input buffer only", "tuples %d; foreign leaves %s" % (n, sorted(set(bad))[:3]))
    tf = P.body("<batch::Batch as std::convert::TryFrom<&[u8]>>::try_from")
    if tf is None:
        R.missing_anchor(rule, "Batch::try_from")
        return
    R.analysed(tf)
    # the cursor is advanced by exactly that count: the slice start `buf[n..]` derives from field .1 of read_element's result
    adv = [c for c in tf.calls() if not tf.is_cleanup(c.bb) and ("ops::Index" in (c.declared_name or "") or "slice::index" in (c.name or "")) and len(c.args) >= 2]
    def from_count(op):
        """the slice start is field .1 of read_element's result (through the RangeFrom / Range aggregate)"""
        for o in origins(tf, op):
            if o.kind == "call" and o.name == fn and o.path and str(o.path[-1]) == "1":
                return True
            if o.kind == "agg" and o.extra and "Range" in (o.name or ""):
                if any(from_count(x) for x in o.extra[1]["rv"]["ops"][:1]):
                    return True
        return False
    okadv = bool(adv) and all(from_count(c.args[1]) for c in adv)
    R.check(rule, tf.path + "|cursor-advanced-by-the-reported-count", okadv, where(tf),
            "the batch decoder moves on by the count read_element reported", "index sites %d" % len(adv))


# ------------------------------------------------------------------------------------------- AGR-3 a decoder's minimum-length guard vs. the encoder's minimum output
_WIDTH = {"u8": 1, "i8": 1, "u16": 2, "i16": 2, "u32": 4, "i32": 4, "u64": 8, "i64": 8, "usize": 8}
MIN_SIZE_PAIRS = [
    ("write batch", "batch::<impl std::convert::From<&batch::Batch> for %s>::from", "<batch::Batch as std::convert::TryFrom<&[u8]>>::try_from"),
    ("internal key", "<key::InternalKey as key::RainDbKeyType>::as_bytes", "<key::InternalKey as std::convert::TryFrom<%s>>::try_from"),
    ("block handle", "tables::block_handle::<impl std::convert::From<&tables::block_handle::BlockHandle> for %s>::from", "tables::block_handle::BlockHandle::deserialize"),
]


def agr3_minimum_length_guards(P, R, L, rule="AGR-3"):
    """A decoder may reject an input as too short only below the SHORTEST output its encoder can produce: that minimum is the sum
    of the integer codecs the encoder applies unconditionally (fixed-width: their width, varint: one byte).  A guard taken
    from LevelDB's 12-byte batch header rejects RainDB's 9-byte empty batch and 11-byte `delete(\"\")` record."""
    n = 0
    for what, enc, dec in MIN_SIZE_PAIRS:
        enc, dec = (enc % _VEC if "%s" in enc else enc), (dec % _VEC if "%s" in dec else dec)
        e, d = P.body(enc), P.body(dec)
        if e is None or d is None:
            R.missing_anchor(rule, enc if e is None else dec)
            continue
        R.analysed(e, d)
        mn = 0
        for c in e.calls():
            dn = c.declared_name or c.name or ""
            if e.is_cleanup(c.bb) or not dn.startswith("integer_encoding::"):
                continue
            if not all(e.must_pass(r, through_nodes=[c.bb]) for r in e.return_blocks()) or in_cycle(e, c.bb):
                continue
            ty = (c.t.get("substs") or ["?"])[-1]
            mn += _WIDTH.get(ty, 1) if "Fixed" in dn else 1
        n += 1
        bad = []
        is_len = lambda os: any(o.kind == "call" and o.name.endswith("::len") and o.site is not None and o.site.args and
                                any(x.kind == "param" and x.name == 1 for x in origins(d, o.site.args[0])) for o in os)
        for cmp_ in comparisons(d):
            lo, ro = cmp_.lhs_origins(), cmp_.rhs_origins()
            for (a, k, op) in ((lo, ro, cmp_.op), (ro, lo, {"lt": "gt", "le": "ge", "gt": "lt", "ge": "le", "eq": "eq", "ne": "ne"}[cmp_.op])):
                if not is_len(a):
                    continue
                cs = [o for o in k if o.kind == "const"]
                for o in cs:
                    try:
                        cval = int(str(o.name))
                    except ValueError:
                        continue
                    # edges on which `len < cval` / `len <= cval` holds
                    rej = []
                    if op in ("lt", "le"):
                        rej, lim = [(cmp_.bb, t) for t in cmp_.true_t], (cval if op == "lt" else cval + 1)
                    elif op in ("ge", "gt"):
                        rej, lim = [(cmp_.bb, t) for t in cmp_.false_t], (cval if op == "ge" else cval + 1)
                    else:
                        continue
                    errs = [r for r in d.return_blocks() if r not in (_ok_blocks(d) or [])]
                    rejecting = any(all(x in errs or x not in d.return_blocks() for x in d.reachable(t)) and
                                    any(x in errs for x in d.reachable(t)) for (_, t) in rej)
                    if rejecting and lim > mn:
                        bad.append("rejects inputs shorter than %d bytes (line %s)" % (lim, cmp_.line))
        R.check(rule, dec + "|no-guard-above-the-encoder-minimum", not bad, where(d),
                "%s: the decoder rejects for length only below the encoder's minimum output (%d bytes)" % (what, mn), "; ".join(bad) or "ok")
    R.floor(rule, "encoder/decoder pairs with a computed minimum", n, 3)


# ------------------------------------------------------------------------------------------- FS-2 a disk file-system operation does what its name says
FS_MUTATORS = ("create_dir", "create_dir_all", "remove_dir", "remove_dir_all", "remove_file", "rename")


def fs2_disk_operations_are_their_namesakes(P, R, L, rule="FS-2"):
    """fs_disk: each directory / file mutation of the FileSystem trait is implemented by the std::fs function of the same name and by
    no other mutation (destroy_database ends with remove_dir, which refuses a directory that a racing open has just
    re-populated; remove_dir_all there would wipe a live database; rename is the atomic switch of CURRENT)."""
    n = 0
    for p, b in sorted(P.bodies.items()):
        if not (p.startswith("<fs::fs_disk::") and " as fs::traits::FileSystem>::" in p) or b.kind == "closure":
            continue
        meth = p.rsplit("::", 1)[1]
        if meth not in FS_MUTATORS:
            continue
        R.analysed(b)
        n += 1
        seen, todo, used = set(), [b], set()
        while todo:
            x = todo.pop()
            if x.path in seen:
                continue
            seen.add(x.path)
            for c in x.calls():
                if x.is_cleanup(c.bb):
                    continue
                nm = c.name or ""
                if nm.startswith("std::fs::") and nm.rsplit("::", 1)[1] in FS_MUTATORS and nm.count("::") == 2:
                    used.add(nm.rsplit("::", 1)[1])
                h = P.bodies.get(c.t.get("resolved") or "")
                if h is not None and c.t.get("local") and not c.t.get("dyn") and len(seen) < 6:
                    todo.append(h)
        R.check(rule, p + "|namesake", used == {meth}, where(b), "%s is std::fs::%s and no other directory / file mutation" % (meth, meth), "uses %s" % sorted(used))
    R.floor(rule, "mutating methods of the disk file systems", n, 12)


# ------------------------------------------------------------------------------------------- GRD-34 the batch decoder reads exactly the stored number of operations
def grd34_batch_loop_bounded_by_count(P, R, L, rule="GRD-34"):
    """Batch::try_from decodes `count` elements, count being the varint stored in the header: the element loop is driven by the
    range 0..count.  A loop that runs until the payload is used up turns a truncated batch (one fragment of a multi-block
    record taken for the whole record) into a shorter, well-formed batch."""
    fn = "<batch::Batch as std::convert::TryFrom<&[u8]>>::try_from"
    b = P.body(fn)
    if b is None:
        return R.missing_anchor(rule, fn)
    R.analysed(b)
    rd = [c for c in b.calls() if not b.is_cleanup(c.bb) and c.name == "batch::BatchElement::read_element"]
    ranges = []
    for bb in range(b.n):
        for st in b.blocks[bb]["stmts"]:
            rv = st["rv"] if st["k"] == "assign" else None
            if rv and rv["k"] == "aggregate" and (rv.get("adt") or "").endswith("ops::Range") and len(rv["ops"]) == 2:
                if any(o.kind == "call" and "read_varint" in o.name for o in origins(b, rv["ops"][1])) and \
                        any(o.kind == "const" and str(o.name) == "0" for o in origins(b, rv["ops"][0])):
                    ranges.append(st["pl"]["l"])
    def over_range(op, d=3):
        for o in origins(b, op):
            if o.kind == "agg" and "Range" in (o.name or "") and o.extra and o.extra[1]["pl"]["l"] in ranges:
                return True
            if o.kind == "call" and o.name.endswith("::into_iter") and o.site is not None and o.site.args and d > 0 and over_range(o.site.args[0], d - 1):
                return True
        return False
    nexts = [c for c in b.calls() if not b.is_cleanup(c.bb) and (c.name or "").endswith("::next") and c.args and over_range(c.args[0])]
    ok = bool(rd) and bool(ranges) and bool(nexts) and all(in_cycle(b, c.bb) for c in rd) and \
        all(b.must_pass(c.bb, through_nodes=[x.bb for x in nexts]) for c in rd)
    leave = []
    if ok:
        from ..rules import option_tests
        for x in nexts:
            if not x.dest["p"]:
                for t in option_tests(b, x.dest["l"]):
                    leave += t.err_edges()
    if not ok and rd and all(in_cycle(b, c.bb) for c in rd):
        # the counting form: `while decoded < count { read_element; decoded += 1 }` - read_element lies behind the true edge of
        # `counter < count` (count = the header's varint), and the counter starts at 0 and is only ever incremented by one
        is_count = lambda os_: any(o.kind == "call" and "read_varint" in (o.name or "") for o in os_)
        stay, gone, counters = [], [], set()
        for c in comparisons(b):
            for (cop, kop, op_) in ((c.lhs, c.rhs, c.op), (c.rhs, c.lhs, {"lt": "gt", "gt": "lt", "le": "ge", "ge": "le"}.get(c.op, c.op))):
                if is_count(origins(b, kop)) and not is_count(origins(b, cop)) and cop.get("k") in ("copy", "move"):
                    if op_ == "lt":
                        stay += [(c.bb, t) for t in c.true_t]
                        gone += [(c.bb, t) for t in c.false_t]
                        counters |= roots(b, cop)
                    elif op_ == "ge":
                        stay += [(c.bb, t) for t in c.false_t]
                        gone += [(c.bb, t) for t in c.true_t]
                        counters |= roots(b, cop)
        good_counter = False
        for l in counters:
            defs = [d for d in b.defs().get(l, []) if not b.is_cleanup(d[1])]
            inits = [d for d in defs if d[0] == "stmt" and d[3]["rv"]["k"] == "use" and d[3]["rv"]["ops"][0].get("k") == "const"]
            steps = [d for d in defs if d not in inits]
            inc_ok = bool(steps) and all(
                d[0] == "stmt" and any(o.kind == "binop" and o.name.startswith("Add") and o.extra is not None and
                                       any(x.get("k") == "const" and str(x.get("val")) == "1" for x in o.extra[1]["rv"]["ops"]) and
                                       any(l in roots(b, x) for x in o.extra[1]["rv"]["ops"] if x.get("k") != "const")
                                       for o in (origins(b, d[3]["rv"]["ops"][0]) if d[3]["rv"].get("ops") else []))
                for d in steps)
            if inits and all(str(d[3]["rv"]["ops"][0].get("val")) == "0" for d in inits) and inc_ok:
                good_counter = True
        ok = bool(stay) and good_counter and all(b.must_pass(c.bb, through_edges=stay) for c in rd)
        if ok:
            leave = gone
    if not ok and rd and all(in_cycle(b, c.bb) for c in rd):
        # the count-down form: `let mut left = count; while left > 0 { read_element; left -= 1 }` - the counter starts at the
        # header's varint, is only ever decremented by one, and read_element lies behind the edge on which it is not yet zero
        is_count = lambda os_: any(o.kind == "call" and "read_varint" in (o.name or "") for o in os_)
        is_zero = lambda op: op.get("k") == "const" and str(op.get("val")) == "0"
        stay, gone, counters = [], [], set()
        for c in comparisons(b):
            for (cop, kop, op_) in ((c.lhs, c.rhs, c.op), (c.rhs, c.lhs, {"lt": "gt", "gt": "lt", "le": "ge", "ge": "le"}.get(c.op, c.op))):
                if is_zero(kop) and cop.get("k") in ("copy", "move"):
                    if op_ in ("gt", "ne"):
                        stay += [(c.bb, t) for t in c.true_t]
                        gone += [(c.bb, t) for t in c.false_t]
                        counters |= roots(b, cop)
                    elif op_ in ("le", "eq"):
                        stay += [(c.bb, t) for t in c.false_t]
                        gone += [(c.bb, t) for t in c.true_t]
                        counters |= roots(b, cop)
        good_counter = False
        for l in counters:
            defs = [d for d in b.defs().get(l, []) if not b.is_cleanup(d[1])]
            steps = [d for d in defs if d[0] == "stmt" and d[3]["rv"].get("ops") and
                     any(o.kind == "binop" for o in origins(b, d[3]["rv"]["ops"][0]))]
            inits = [d for d in defs if d not in steps]
            dec_ok = bool(steps) and all(
                any(o.kind == "binop" and o.name.startswith("Sub") and o.extra is not None and
                    o.extra[1]["rv"]["ops"][1].get("k") == "const" and str(o.extra[1]["rv"]["ops"][1].get("val")) == "1" and
                    l in roots(b, o.extra[1]["rv"]["ops"][0])
                    for o in origins(b, d[3]["rv"]["ops"][0]))
                for d in steps)
            init_ok = bool(inits) and all(d[0] == "stmt" and d[3]["rv"]["k"] == "use" and is_count(origins(b, d[3]["rv"]["ops"][0])) for d in inits)
            if init_ok and dec_ok:
                good_counter = True
        ok = bool(stay) and good_counter and all(b.must_pass(c.bb, through_edges=stay) for c in rd)
        if ok:
            leave = gone
    R.check(rule, fn + "|element-loop-driven-by-the-stored-count", ok, where(b),
            "read_element runs inside the loop over 0..count (count = the varint of the batch header)",
            "read_element sites %d, ranges ending in the count %d, next() on a range %d" % (len(rd), len(ranges), len(nexts)))
    # ... and the decoder hands out Ok(batch) only after the loop ended BECAUSE the count was reached: an extra way out of the loop
    # (`if buf.is_empty() { break }`) is the same silent truncation
    oks = [bb for bb in range(b.n) if not b.is_cleanup(bb) for st in b.blocks[bb]["stmts"]
           if st["k"] == "assign" and st["pl"]["l"] == 0 and not st["pl"]["p"] and st["rv"]["k"] == "aggregate" and st["rv"].get("variant") == "Ok"]
    R.check(rule, fn + "|loop-left-only-at-the-stored-count", ok and bool(leave) and bool(oks) and all(b.must_pass(bb, through_edges=leave) for bb in oks),
            where(b), "every path to Ok(batch) passes the edge on which the element loop has decoded `count` elements",
            "Ok returns %d, count-reached edges %d" % (len(oks), len(leave)))


# ------------------------------------------------------------------------------------------- GRD-35 a picked compaction always has an input
def grd35_picked_compaction_has_an_input(P, R, L, rule="GRD-35"):
    """VersionSet::pick_compaction: once a CompactionManifest was created for a level, an input file is pushed into it before the
    inputs are finalized - the size-triggered branch wraps around to the first file of the level when no file lies beyond
    the compaction pointer.  An empty input set panics the compaction thread (scheduled flag stays set: everything that
    waits for background work hangs)."""
    fn = "versioning::version_set::VersionSet::pick_compaction"
    b = P.body(fn)
    if b is None:
        return R.missing_anchor(rule, fn)
    R.analysed(b)
    news = [c for c in b.calls() if not b.is_cleanup(c.bb) and c.name == "compaction::manifest::CompactionManifest::new"]
    fin = [c for c in b.calls() if not b.is_cleanup(c.bb) and c.name in ("compaction::manifest::CompactionManifest::finalize_compaction_inputs",
                                                                          "compaction::manifest::CompactionManifest::set_input_version")]
    pushes = [c.bb for c in b.calls() if not b.is_cleanup(c.bb) and c.name in ("std::vec::Vec::push", "std::vec::Vec::append", "std::vec::Vec::extend",
                                                                               "<std::vec::Vec<T, A> as std::iter::Extend<T>>::extend")]
    nonempty = []
    for c in b.calls():
        if not b.is_cleanup(c.bb) and (c.name or "").endswith("::is_empty"):
            for t in _bt(b, c.dest["l"]):
                nonempty += [(t.bb, x) for x in t.err]
    bad = []
    for nw in news:
        for f_ in fin:
            if nw.target is not None and f_.bb in b.reachable(nw.target) and not b.must_pass(f_.bb, through_nodes=pushes, through_edges=nonempty, start=nw.target):
                bad.append("manifest created at line %s reaches line %s without an input" % (nw.line, f_.line))
    R.check(rule, fn + "|an-input-is-always-picked", bool(news) and bool(fin) and bool(pushes) and not bad, where(b),
            "between CompactionManifest::new and the finalization an input file is pushed on every path (or the set is known to be non-empty)",
            "; ".join(sorted(set(bad))) or "manifests %d, pushes %d" % (len(news), len(pushes)))
    R.floor(rule, "CompactionManifest::new sites in pick_compaction", len(news), 2)


# ------------------------------------------------------------------------------------------- GRD-36 a new manifest gets a new file number
def grd36_new_manifest_number_is_fresh(P, R, L, rule="GRD-36"):
    """VersionSet: `manifest_file_number` is assigned a FRESH file number (get_new_file_number) in recover - the manifest that
    CURRENT names stays untouched until the replacement is complete and CURRENT is switched - and the number of an existing
    manifest only in maybe_reuse_manifest (behind the opened append writer, GRD-24).  Writing the replacement under the live
    manifest's own number truncates the only valid copy: a crash during that write loses the database."""
    ADT = "versioning::version_set::VersionSet"
    sites = mut_field_sites(P, ADT, "manifest_file_number")
    fns = sorted({s[0] for s in sites})
    allowed = {ADT + "::recover": "fresh", ADT + "::maybe_reuse_manifest": "reuse", ADT + "::new": "init"}
    n = 0
    for fn in fns:
        b = P.body(fn)
        kind = allowed.get(fn)
        ok = kind is not None
        det = "assigned in %s" % fn
        if b is not None and kind == "fresh":
            R.analysed(b)
            st = field_stores(b, "manifest_file_number", adt=ADT)
            n += len(st)
            fresh = all(any(o.kind == "call" and o.name == ADT + "::get_new_file_number" for o in origins(b, s[2]["rv"]["ops"][0])) and
                        not any(o.kind != "call" or o.name != ADT + "::get_new_file_number" for o in origins(b, s[2]["rv"]["ops"][0]))
                        for s in st if s[2]["rv"]["k"] == "use")
            ok = bool(st) and fresh and all(s[2]["rv"]["k"] == "use" for s in st)
            det = "stores %d, all from get_new_file_number: %s" % (len(st), fresh)
        R.check(rule, "%s|manifest-number" % fn, ok, where(b) if b is not None else "-",
                "manifest_file_number is a fresh number in recover, an adopted one only in maybe_reuse_manifest", det)
    R.floor(rule, "assignments of manifest_file_number in recover", n, 1)
