"""C08 — I/O failures are reported, never swallowed."""
from .. import err
from ..rules import field_reads, bool_tests, option_tests, switch_target
from . import common as K

# One row = one callee in one caller whose Err is deliberately absorbed; confirmed by reading each site.
ALLOW = {
    "db::DB::get::{closure#0}|callee=memtable::MemTable::get|err-edge-returns-ok":
        "MemTable::get's only Err is KeyNotFound = 'not in this memtable'; the search continues with the next source (VERD-1 checks the verdicts)",
    "versioning::version::Version::get|callee=table_cache::TableCache::get|err-edge-returns-ok":
        "only Err(ReadError::KeyNotFound) continues with the next file; every other variant is returned (checked by VERD-1)",
    "tables::table::Table::open|callee=tables::table::Table::read_filter_meta_block|err-edge-returns-ok":
        "the filter block is optional: without it every lookup consults the data block",
    "tables::filter_block::FilterBlockReader::key_may_match|callee=filter_policy::FilterPolicy::key_may_match|err-edge-not-recorded":
        "fails open (returns true); checked by GRD-8",
    "db::DB::remove_obsolete_files|callee=fs::traits::FileSystem::list_dir|err-edge-not-recorded":
        "garbage collection is best-effort and retried by the next run; nothing is acknowledged on its basis",
    "db::DB::remove_obsolete_files|callee=fs::traits::FileSystem::is_dir|err-edge-not-recorded":
        "garbage collection: the entry is skipped",
    "db::DB::remove_obsolete_files|callee=file_names::FileNameHandler::get_file_type_from_name|err-edge-not-recorded":
        "garbage collection: foreign file names are skipped",
    "db::DB::remove_obsolete_files::{closure#0}|callee=fs::traits::FileSystem::remove_file|err-edge-not-recorded":
        "garbage collection: a failed delete is retried by the next run",
    "db::DB::recover_unrecorded_logs|callee=file_names::FileNameHandler::get_file_type_from_name|err-edge-returns-ok":
        "foreign files in the database directory are skipped during recovery",
    "db::DB::destroy_database|callee=file_names::FileNameHandler::get_file_type_from_name|err-edge-returns-ok":
        "foreign files in the database directory are left alone by destroy",
    "db::DB::recover_wal_records|callee=logs::LogWriter::new|err-edge-returns-ok":
        "cannot reopen the WAL for appending -> falls back to flushing the recovered memtable to a table",
    "db::DB::recover|callee=fs::traits::FileSystem::open_file|err-edge-returns-ok":
        "NotFound on CURRENT with create_if_missing initialises a new database; every other case returns Err",
    "versioning::version_set::VersionSet::maybe_reuse_manifest|callee=file_names::FileNameHandler::get_file_type_from_name|err-edge-not-recorded":
        "cannot reuse -> a new manifest is written (returns false)",
    "versioning::version_set::VersionSet::maybe_reuse_manifest|callee=fs::traits::FileSystem::get_file_size|err-edge-not-recorded":
        "cannot reuse -> a new manifest is written (returns false)",
    "versioning::version_set::VersionSet::maybe_reuse_manifest|callee=logs::LogWriter::new|err-edge-not-recorded":
        "cannot reuse -> a new manifest is written (returns false)",
    "db::DB::create_database_directories|callee=fs::traits::FileSystem::create_dir_all|err-edge-returns-ok":
        "AlreadyExists only (idempotent directory creation); other kinds are returned",
    "db::DB::create_database_directories|callee=fs::traits::FileSystem::create_dir|err-edge-returns-ok":
        "AlreadyExists only (idempotent directory creation); other kinds are returned",
    "db::DB::compact_range|callee=db::DB::force_memtable_compaction|err-edge-not-recorded":
        "public signature returns (); compaction is an optimisation and the sticky error is reported by the next write",
    "<iterator::DatabaseIterator as iterator::RainDbIterator>::next|callee=iterator::RainDbIterator::seek_to_first|never-inspected":
        "MergingIterator::seek_to_first always returns Ok; child errors are stored by save_error and surfaced by get_error",
    "compaction::worker::CompactionWorker::schedule_task|callee=std::sync::mpsc::SyncSender::try_send|err-edge-not-recorded":
        "channel back-pressure, not a storage error: Full falls back to a blocking send",
    "compaction::worker::CompactionWorker::stop_worker_thread|callee=std::sync::mpsc::SyncSender::send|err-edge-not-recorded":
        "the worker already exited; not a storage error",
    "<fs::traits::FileLock as std::ops::Drop>::drop|callee=fs::traits::UnlockableFile::unlock|err-edge-not-recorded":
        "Drop cannot report; the descriptor is closed right after, which releases the flock",
    "versioning::file_metadata::FileMetadata::set_file_size|callee=std::convert::TryFrom::try_from|err-edge-not-recorded":
        "integer conversion saturates; not an I/O error",
    "<fs::fs_mem::InMemoryFileSystem as fs::traits::FileSystem>::lock_file|callee=fs::fs_mem::InMemoryFileSystem::open_mem_file|err-edge-returns-ok":
        "in-memory test filesystem: NotFound creates the lock file, other errors are returned",
    "logs::LogReader::read_record|callee=logs::LogReader::read_physical_record|err-edge-returns-ok":
        "documented WAL behaviour: a fragment that fails to parse / has a bad CRC is skipped; UnexpectedEof is end-of-log (GRD-6), other I/O errors are returned",
}


def err1_subset(P, R, L, prefixes, rule="ERR-1"):
    """ERR-1 restricted to the bodies whose path starts with one of `prefixes` (same engine, same allow-table)."""
    n = 0
    for p, b in sorted(P.bodies_as_written.items()):
        if not any(p.startswith(x) for x in prefixes):
            continue
        sites = [cs for cs in err.result_sites(b)
                 if not (cs.name in (err.TRY_BRANCH, err.FROM_RESIDUAL) or cs.name in err.ALIASING or cs.name in err.CHAINING)]
        if not sites:
            continue
        R.analysed(b)
        findings = {}
        for cs in sites:
            n += 1
            cat, fs = err.classify_site(P, b, cs)
            for f in fs:
                findings.setdefault(f.key(), []).append(f)
        bad = 0
        for k, fl in sorted(findings.items()):
            if _allow_row(k) is not None:
                continue
            bad += 1
            R.check(rule, k, False, fl[0].site.where(), "an observed Err is returned, recorded or stored on every path", fl[0].detail)
        if not bad:
            R.check(rule, p, True, "%s:%d" % (b.file, b.line_lo), "every Result site is propagated / asserted / recorded", "%d result sites" % len(sites))
    R.call_sites += n
    return n


def _closure_free(k):
    import re
    return re.sub(r"\{closure#\d+\}", "{closure}", k)


def _allow_row(k):
    """the allow-table row for a finding key.  Closures are numbered in source order within their host function: a closure added
    in front of the reviewed one (`opt.map_or(false, |x| ..)` for a `match`) renumbers it, so rows match on host, callee and kind
    with the closure's number left out."""
    if k in ALLOW:
        return k
    nk = _closure_free(k)
    for a in ALLOW:
        if "{closure#" in a and _closure_free(a) == nk:
            return a
    return None


def err1(P, R, L):
    R.clause("ERR-1", "for every call in the lib crate whose result is a Result: it is propagated (`?`/returned), asserted, "
             "passed on, or tested such that from every Err edge each path to a `return` writes Err to the return place, "
             "calls a recording sink (set_bad_database_state / save_error / set_operation_result) or stores into an error-status "
             "variable that is tested; anything else must be a named row of the allow-table")
    n_sites = 0
    cats = {}
    used_allow = set()
    n_bodies = 0
    for p, b in sorted(P.bodies_as_written.items()):
        sites = [cs for cs in err.result_sites(b)
                 if not (cs.name in (err.TRY_BRANCH, err.FROM_RESIDUAL) or cs.name in err.ALIASING or cs.name in err.CHAINING)]
        if not sites:
            continue
        n_bodies += 1
        R.analysed(b)
        findings = {}
        local = {}
        for cs in sites:
            n_sites += 1
            cat, fs = err.classify_site(P, b, cs)
            cats[cat] = cats.get(cat, 0) + 1
            local[cat] = local.get(cat, 0) + 1
            for f in fs:
                findings.setdefault(f.key(), []).append(f)
        bad = 0
        # a helper that is not on the reviewed tree's list stands for the functions it was extracted from: an allow-table row
        # of every such caller covers the same callee inside the helper
        hosts = sorted({c for (h_, c, _) in getattr(P, "inlined", []) if h_ == p})
        for k, fl in sorted(findings.items()):
            if _allow_row(k) is not None:
                used_allow.add(_allow_row(k))
                R.allow("ERR-1|" + _allow_row(k), ALLOW[_allow_row(k)])
                continue
            if hosts:
                callee_part = k.split("|")[1] if "|" in k else ""
                rows = [[a for a in ALLOW if a.startswith(hc + "|" + callee_part + "|")] for hc in hosts]
                if callee_part and all(rows):
                    for r_ in rows:
                        used_allow.add(r_[0])
                        R.allow("ERR-1|" + r_[0], ALLOW[r_[0]] + " (site moved into the helper %s)" % p)
                    continue
            bad += 1
            f = fl[0]
            R.check("ERR-1", k, False, f.site.where(),
                    "an observed Err is returned, recorded or stored on every path",
                    "%s (%d site(s): lines %s)" % (f.detail, len(fl), [x.site.line for x in fl]))
        if not bad:
            R.check("ERR-1", p, True, "%s:%d" % (b.file, b.line_lo), "every Result site is propagated / asserted / recorded",
                    "%d result sites: %s" % (len(sites), local))
    R.call_sites += n_sites
    R.extra["err1_site_categories"] = cats
    R.extra["err1_result_sites"] = n_sites
    R.floor("ERR-1", "Result-returning call sites classified", n_sites, 450)
    R.floor("ERR-1", "bodies with Result sites", n_bodies, 120)
    # stale allow rows are reported in evidence (not violations): a row that matches nothing is harmless
    R.extra["err1_allow_rows_unused"] = sorted(set(ALLOW) - used_allow)


def grd4(P, R, L):
    R.clause("GRD-4", "the sticky error gates: in make_room_for_write every `return Ok` is reached over the None edge of a test of "
             "maybe_bad_database_state; in remove_obsolete_files the test precedes every list_dir and the deleting closure; in "
             "should_schedule_compaction it precedes the store of the scheduled flag")
    from ..rules import field_stores, sites_reaching
    from ..dataflow import origins

    def none_edges(b):
        """edges on which maybe_bad_database_state is known to be None"""
        return K.field_option_edges(b, "maybe_bad_database_state")[1]

    mr = P.body(K.MAKE_ROOM)
    if mr is None:
        R.missing_anchor("GRD-4", K.MAKE_ROOM)
    else:
        R.analysed(mr)
        e = none_edges(mr)
        ok_blocks = [bb for bb in range(mr.n) if not mr.is_cleanup(bb) for st in mr.blocks[bb]["stmts"]
                     if st["k"] == "assign" and st["pl"]["l"] == 0 and st["rv"]["k"] == "aggregate" and st["rv"].get("variant") == "Ok"]
        ok = bool(e) and bool(ok_blocks) and all(mr.must_pass(bb, through_edges=e) for bb in ok_blocks)
        R.check("GRD-4", K.MAKE_ROOM + "|ok-only-without-sticky-error", ok, K.where(mr),
                "every `return Ok(())` of make_room_for_write lies behind the None edge of the sticky-error test",
                "None-edges %s, Ok blocks %s" % (e, ok_blocks))
        # the test is re-evaluated in the loop (after every wait)
        waits = [c for c in mr.calls() if c.name == "parking_lot::Condvar::wait" and not mr.is_cleanup(c.bb)]
        okw = all(any(src in mr.reachable(w.target) for (src, _) in e) for w in waits) and bool(waits)
        R.check("GRD-4", K.MAKE_ROOM + "|retest-after-wait", okw, K.where(mr),
                "after each Condvar::wait the sticky-error test is evaluated again", "%d waits" % len(waits))
    ro = P.body(K.REMOVE_OBSOLETE)
    if ro is None:
        R.missing_anchor("GRD-4", K.REMOVE_OBSOLETE)
    else:
        R.analysed(ro)
        e = none_edges(ro)
        lists = [c for c in ro.calls() if (c.declared_name or "").endswith("FileSystem::list_dir") and not ro.is_cleanup(c.bb)]
        unl = [c for c in ro.calls() if c.name == "parking_lot::lock_api::MutexGuard::unlocked_fair" and not ro.is_cleanup(c.bb)]
        ok = bool(e) and len(lists) >= 3 and bool(unl) and all(ro.must_pass(c.bb, through_edges=e) for c in lists + unl)
        R.check("GRD-4", K.REMOVE_OBSOLETE + "|skipped-under-sticky-error", ok, K.where(ro),
                "directory scans and the deleting section run only behind the None edge of the sticky-error test",
                "None-edges %s; list_dir sites %d; delete sections %d" % (e, len(lists), len(unl)))
    ss = P.body("db::DB::should_schedule_compaction")
    if ss is None:
        R.missing_anchor("GRD-4", "db::DB::should_schedule_compaction")
    else:
        R.analysed(ss)
        e = none_edges(ss)
        st = field_stores(ss, "background_compaction_scheduled", const=1)
        ok = bool(e) and bool(st) and all(ss.must_pass(s[0], through_edges=e) for s in st)
        R.check("GRD-4", ss.path + "|no-schedule-under-sticky-error", ok, K.where(ss),
                "the scheduled flag is set only behind the None edge of the sticky-error test", "None-edges %s" % e)
    # compaction_task does no work under the sticky error
    ct = P.body("compaction::worker::CompactionWorker::compaction_task")
    if ct is not None:
        R.analysed(ct)
        e = none_edges(ct)
        cc = sites_reaching(P, ct, K.COORD)
        ok = bool(e) and bool(cc) and all(ct.must_pass(c.bb, through_edges=e) for c in cc)
        R.check("GRD-4", ct.path + "|no-compaction-under-sticky-error", ok, K.where(ct),
                "coordinate_compaction runs only behind the None edge of the sticky-error test", "None-edges %s" % e)


def run(P, R, L):
    err1(P, R, L)
    grd4(P, R, L)
    R.clause("ORD-3", "a failed log_and_apply keeps the immutable memtable and deletes nothing (compact_memtable); table "
             "compaction results are installed only when no compaction error was recorded")
    K.ord3_flush(P, R, L)
    K.ord3_tables(P, R, L)
    R.clause("ERR-2", "stored iterator errors are consulted before compaction results are installed / output tables finalized")
    K.err2_iterator_status(P, R, L)
    R.clause("GRD-5", "a WAL / table / manifest is queued for deletion only under its liveness predicate (a wrongly deleted WAL turns a later "
             "flush failure into lost acknowledged writes)")
    from .c11 import grd5
    grd5(P, R, L)
    K.pair10_builder_slot(P, R, L)
    R.clause("PAIR-10", "a failed finalize of a compaction output leaves the state consistent (builder removed) so the error can be recorded")
    R.clause("PAIR-2", "followers receive the group's result before being notified; the leader returns the same result")
    K.pair2_group_result(P, R, L)
    R.clause("OWN-14", "the outcome slot of a queued writer is written only by set_operation_result, unconditionally, with the value passed in (the group's outcome reaches a follower through it)")
    K.own14_writer_outcome_slot(P, R, L)
    K.ord2_write_ahead(P, R, L, rule="ORD-2")
    R.clause("ORD-2", "a failed WAL append prevents the memtable insert (success-edge dominance) and records the sticky error")
    R.clause("ORD-5", "a failed manifest append leaves CURRENT pointing at the old, complete manifest (the new manifest is appended to before "
             "CURRENT is switched; the switch itself is temp-file + rename)")
    from .c02 import ord5_manifest_before_current, ord4_current_switch
    ord5_manifest_before_current(P, R, L)
    ord4_current_switch(P, R, L)
    R.clause("GRD-20", "an existing database is never re-initialised because CURRENT could not be opened for a reason other than NotFound")
    K.grd20_create_only_when_missing(P, R, L)
    R.clause("GRD-21", "a failed manifest write removes only a manifest created by that very call, never the live one CURRENT names")
    K.grd21_manifest_cleanup(P, R, L)
    from . import blind
    R.clause("VERD-2", "KeyNotFound is never the answer to a failed open / read in the lookup chain")
    K.verd2_not_found_only_for_a_miss(P, R, L)
    R.clause("OWN-15", "KeyNotFound is built only where a source was actually searched (never in the table cache)")
    blind.own15_who_may_say_not_found(P, R, L)
    R.clause("ERR-5", "every From<io::Error> files the error under the IO variant, whatever its kind")
    R.once(blind.err5_io_errors_keep_their_class, P, R, L)
    R.clause("TS-3", "a table builder whose finalize failed is not abandoned (the assertion in abandon would replace the reported error by a dead compaction thread)")
    R.once(blind.ts3_no_abandon_after_finalize, P, R, L)
    R.clause("VERD-1", "a table read error ends Version::get with that error (it is reported, not replaced by an older value)")
    K.verd1(P, R, L, what=("version",))
    R.clause("ERR-4", "an error that cut next/prev short is parked and handed on through status() by every wrapping iterator, and MergingIterator::get_error includes it")
    K.err4_status_chain(P, R, L)
    R.clause("ORD-22", "a failed log write leaves the writer's block offset where the file is")
    K.ord22_writer_offset_after_the_write(P, R, L)
    R.clause("ORD-21", "a failed table open leaves the file-level iterator's (index, iterator) pair untouched: the retry does not skip the file")
    K.ord21_file_loader_commits_after_open(P, R, L)
    R.clause("PAIR-12", "a failed block read leaves the two-level iterator's (block iterator, loaded handle) pair as it was: the handle is not committed before the read succeeded, so a retried seek loads the block instead of trusting a stale iterator")
    K.pair12_file_level_pairs(P, R, L, only={"tables::table::TwoLevelIterator"})
    R.clause("ERR-3", "a source that could not be positioned is reported by the merging iterator's seek methods (a scan fails, it does not serve what the source shadows)")
    K.err3_merge_seek_reports(P, R, L)
    from . import round12
    R.clause("GRD-4 (manifest)", "nothing is appended to the manifest behind a failed append: a table compaction that is in flight when a flush fails neither retries the flush nor installs its results (records behind a torn record make the manifest unreadable - the database cannot be reopened)")
    R.once(round12.grd4b_no_manifest_append_under_sticky_error, P, R, L)
    R.clause("OWN-8", "a file number handed out is never handed out again after a failed operation gave one back (reuse_file_number rewinds only the number it was given, and only while it is still the newest): a reused number truncates a live table")
    R.once(K.own8_file_numbers, P, R, L)
    from . import round12
    R.clause("ERR-6", "a Result consumed only by unwrap / expect comes from a callee confirmed infallible: a failing storage operation is never answered with a panic (neither an error nor an effect; on the compaction thread a dead worker)")
    R.once(round12.err6_no_panic_on_a_fallible_result, P, R, L)
    # "after the fault is gone and the database is reopened, it contains every write that returned Ok": what a reopen restores
    K.bundle_recovery(P, R, L)
    R.not_decided += ["that a write which returned Err is all-or-nothing after reopen (runtime content)",
                      "errors swallowed inside dependencies (std, integer_encoding, snap)"]
    R.assumptions += ["`?` lowers to Try::branch + FromResidual::from_residual into the return place",
                      "passing a Result to another function / storing it in a field moves the obligation there"]
