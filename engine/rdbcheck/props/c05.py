"""C05 — linearizability under concurrency: capture / publication clauses."""
from . import common as K


def run(P, R, L):
    R.clause("LCK-2", "in DB::get, DB::new_iterator and DB::get_snapshot the visible sequence, the active memtable pointer, "
             "the immutable memtable and the current version are all read while the DB mutex is held, in one held region, and "
             "no closure handed to unlocked_fair by a reader reaches any of those accessors")
    K.lck_capture(P, R, L, "LCK-2", [K.GET, K.NEW_ITER, K.GET_SNAPSHOT], {
        K.GET: ["sequence", "memtable", "imm", "version"],
        K.NEW_ITER: ["sequence", "memtable", "imm", "version"],
        K.GET_SNAPSHOT: ["sequence"],
    })
    R.clause("ORD-8", "in DB::apply_changes set_prev_sequence_number is dominated by the unlocked section that appends to the "
             "WAL and inserts into the memtable, runs with the mutex held, and is not called inside that section")
    K.ord8_publication(P, R, L)
    K.ord8b_sequence_range(P, R, L)
    from . import round12 as _r12
    _r12.ord8b_span_not_narrowed(P, R, L)
    R.clause("ORD-9b", "the write path loads the memtable pointer after make_room_for_write (which may rotate it): the group's batch is never inserted into the memtable that is being flushed")
    _r12.ord9b_memtable_loaded_after_make_room(P, R, L)
    R.clause("PAIR-6 (own batch)", "inside the grouping loop the batch that is appended is the one of the queue entry the loop just yielded (not the leader's again): every follower that is acknowledged had its own batch applied")
    _r12.pair6b_appended_batch_is_the_writers_own(P, R, L)
    R.clause("ORD-8b", "sequence range of the group (every acknowledged write is applied exactly once under its own sequence numbers)")
    R.clause("OWN-2", "set_prev_sequence_number is called only from apply_changes and recovery, at held sites; the field is "
             "written only inside VersionSet")
    R.clause("OWN-3", "MemTable::insert is reached only through apply_batch_to_memtable, which is called only from the leader's "
             "unlocked section of apply_changes and from recovery; DB::wal() is used only by that section")
    K.own_single_writer(P, R, L)
    R.clause("ORD-9", "in make_room_for_write the memtable swap and the store of the old memtable into maybe_immutable_memtable "
             "lie in one held region with no release point between them; set_wal dominates the swap")
    K.ord9_rotation(P, R, L)
    R.clause("PAIR-6", "group commit membership: a queued writer is marked as the group's last writer only after its batch was appended")
    K.pair6_group_membership(P, R, L)
    R.clause("ORD-3", "the flush installs the new version (log_and_apply succeeded) before it drops the immutable memtable")
    K.ord3_flush(P, R, L)
    R.clause("PAIR-2", "followers popped by the leader receive the group's result before they are notified, and the leader's "
             "own return value derives from the same result")
    K.pair2_group_result(P, R, L)
    R.clause("OWN-14", "the outcome slot of a queued writer is written only by set_operation_result, unconditionally, with the value passed in (the group's outcome reaches a follower through it)")
    K.own14_writer_outcome_slot(P, R, L)
    R.clause("PAIR-16", "every follower popped by the leader is marked complete (constant true) before it is notified, whatever the group's result")
    K.pair16_followers_always_completed(P, R, L)
    R.clause("ORD-2", "a failed WAL append prevents the memtable insert: a write reported as failed is never visible")
    K.ord2_write_ahead(P, R, L, rule="ORD-2")
    R.clause("GRD-5", "table files referenced by any version that is still linked (a suspended reader's captured version) are never queued for deletion")
    from .c11 import grd5, pair1
    grd5(P, R, L)
    pair1(P, R, L)
    R.clause("OWN-10", "every open table has its own block-cache partition id and caches blocks under (id, block offset)")
    K.own10_cache_partitions(P, R, L)
    R.clause("GRD-19", "a level-0 compaction (size- or seek-triggered) always takes every overlapping level-0 file along")
    K.grd19_level0_inputs_closed(P, R, L)
    R.clause("GRD-2", "compaction never resurrects an overwritten or deleted value (retention guards, closed-interval overlap tests, oldest snapshot)")
    K.grd2_retention(P, R, L)
    K.ord7_smallest_snapshot(P, R, L)
    K.grd10_closed_intervals(P, R, L)
    K.bundle_readpath(P, R, L)
    K.bundle_retention(P, R, L)
    K.bundle_liveness(P, R, L)
    from . import blind
    R.clause("GRD-38", "build_group_commit_batch fails only where its caller excluded it: a writer at the head of the queue always hands the queue on")
    blind.grd38_group_builder_errors_are_unreachable(P, R, L)
    R.not_decided += ["linearizability itself (real-time order of responses)", "fairness of unlocked_fair",
                      "memory-model arguments for the unsafe blocks (UnsafeCell LogWriter, ArcSwap)"]
    R.assumptions += ["parking_lot::MutexGuard::unlocked_fair releases the mutex for exactly the duration of the closure",
                      "ArcSwap::load_full / swap are atomic"]
