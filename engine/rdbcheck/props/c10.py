"""C10 — the reported LSM shape is well formed: metadata-fidelity clauses."""
from . import common as K


def run(P, R, L):
    R.clause("ROLE-1", "at every add_file call site, in clone_key_range and in add_file itself no LARGE-coloured value (derived from "
             "largest_key()/Range::end) sits in a smallest slot or vice versa; the four accessors touch the field they are named after")
    R.clause("ROLE-2", "FileMetadata codec: the k-th key/scalar written is read back into the setter of the same role, in the same order")
    K.role1(P, R, L)
    R.clause("ROLE-3", "level roles of version edits")
    K.role3_levels(P, R, L)
    R.clause("PAIR-3", "file bounds are captured from the entries actually added to the table (flush and compaction)")
    K.pair3(P, R, L)
    R.clause("OWN-8", "file numbers are unique: who writes the counter, and in which direction")
    K.own8_file_numbers(P, R, L)
    R.not_decided += ["disjointness / sortedness of a level for a concrete history (runtime assertion in VersionBuilder::maybe_add_file)",
                      "uniqueness of file numbers"]
