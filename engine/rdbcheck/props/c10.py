"""C10 — the reported LSM shape is well formed: metadata-fidelity clauses."""
from . import common as K


def run(P, R, L):
    R.clause("ROLE-1", "at every add_file call site, in clone_key_range and in add_file itself no LARGE-coloured value (derived from "
             "largest_key()/Range::end) sits in a smallest slot or vice versa; the four accessors touch the field they are named after")
    R.clause("ROLE-2", "FileMetadata codec: the k-th key/scalar written is read back into the setter of the same role, in the same order")
    K.role1(P, R, L)
    R.clause("ROLE-3", "level roles of version edits")
    K.role3_levels(P, R, L)
    R.clause("PAIR-3", "file bounds are captured from the entries actually added to the table (flush and compaction)")
    K.pair3(P, R, L)
    R.clause("ERR-1", "errors while building / closing / installing table files are never dropped (a half-written file must not be listed in the layout)")
    from . import c08
    n = c08.err1_subset(P, R, L, ["compaction::worker::", "compaction::state::", "db::DB::build_table_from_iterator", "db::DB::convert_memtable_to_file",
                                  "tables::table_builder::", "versioning::version_set::VersionSet::log_and_apply"])
    R.floor("ERR-1", "Result sites in the table-building and installing functions", n, 40)
    R.clause("ORD-3", "compaction results are installed only without a recorded error")
    K.ord3_tables(P, R, L)
    R.clause("GRD-4", "nothing is garbage-collected under the sticky error (files the manifest lists must survive a failed install)")
    c08.grd4(P, R, L)
    R.clause("ROLE-5", "VersionBuilder: levels are ordered by (smallest key, file number); the merge emits the smaller file first; deleted files are dropped; "
             "the edit's deletions and additions are accumulated per level")
    K.role5_version_builder(P, R, L)
    R.clause("OWN-13", "a version edit's added-file list is only changed by add_file and its deleted-file list only by remove_file: a trivial move deletes and adds the same file number in one edit")
    K.own13_edit_lists(P, R, L)
    R.clause("PAIR-12", "the (file, level) pairs that drive seek-triggered compactions are written together (a stale level makes a trivial move list the file at two levels)")
    K.pair12_file_level_pairs(P, R, L)
    R.clause("OWN-8", "file numbers are unique: who writes the counter, and in which direction")
    K.own8_file_numbers(P, R, L)
    R.clause("ROLE-3 (snapshot)", "a manifest snapshot records every file under the level it sits at: add_file's level is the range-loop variable / the index of an enumerate() over the UNFILTERED list of levels")
    from . import round12 as _r12
    R.once(_r12.role3_snapshot_levels, P, R, L)
    R.clause("ROLE-4", "`no file number appears twice ... across close and reopen`: the next-file-number counter (and the other recovered counters) is recorded in every version edit and restored from the NEWEST manifest record that carries it")
    R.once(K.role4_counters, P, R, L)
    from . import round12
    R.once(round12.role4_last_record_wins, P, R, L)
    R.clause("GRD-16", "a compaction is done as a trivial move only when it has a single input file and no overlapping parent-level file")
    K.grd16_trivial_move(P, R, L)
    R.clause("PAIR-9", "compaction inputs are expanded by their boundary files before the key range that selects the parent-level inputs is computed "
             "(otherwise the output overlaps a remaining parent-level file: the version builder's assertion kills the compaction thread)")
    K.pair9_boundary_inputs(P, R, L)
    K.pair9_levels(P, R, L)
    R.clause("ORD-13", "a table that the reported shape lists exists: the outputs of a running compaction stay registered (protected from the collector) until they are installed")
    from .c11 import ord13
    ord13(P, R, L)
    R.clause("LVL-1", "every loop over the levels visits the deepest level too (new versions, manifest snapshots)")
    K.lvl1_level_loops_cover_all_levels(P, R, L)
    K.bundle_no_assertion_trips(P, R, L)
    R.not_decided += ["disjointness / sortedness of a level for a concrete history (runtime assertion in VersionBuilder::maybe_add_file)",
                      "uniqueness of file numbers"]
