"""C06 — no reader observes part of a batch: visibility clause."""
from . import common as K


def run(P, R, L):
    R.clause("ORD-8", "the sequence number is published (under the mutex) only after the unlocked section that applied the "
             "whole group to the memtable has returned")
    K.ord8_publication(P, R, L)
    R.clause("ORD-8b", "the group is numbered prev+1 .. prev+len(group); exactly that batch is logged, applied and published; entries get consecutive sequences")
    K.ord8b_sequence_range(P, R, L)
    from . import round12 as _r12
    _r12.ord8b_span_not_narrowed(P, R, L)
    R.clause("ORD-9b", "the write path loads the memtable pointer after make_room_for_write (which may rotate it): the group's batch is never inserted into the memtable that is being flushed")
    _r12.ord9b_memtable_loaded_after_make_room(P, R, L)
    R.clause("ORD-8c", "recovery restores the sequence of the LAST operation of the last replayed batch (start + len - 1)")
    K.ord8c_recovered_sequence(P, R, L)
    R.clause("LCK-1", "get_snapshot / new_iterator / get read the visible sequence while the DB mutex is held")
    K.lck_capture(P, R, L, "LCK-1", [K.GET, K.NEW_ITER, K.GET_SNAPSHOT], {
        K.GET: ["sequence"], K.NEW_ITER: ["sequence"], K.GET_SNAPSHOT: ["sequence"]})
    R.clause("GRD-3", "in DatabaseIterator::find_next_client_entry / find_prev_client_entry every path that makes an entry "
             "current passes the false edge of `entry sequence > snapshot sequence`; the lookup key of DB::get and the "
             "iterator's snapshot derive from the sequence captured under the mutex")
    K.grd3_sequence_filter(P, R, L)
    R.clause("GRD-2", "compaction keeps or drops the entries of one batch consistently: a tombstone is dropped only when nothing older can "
             "resurface (at or below the smallest snapshot, and no deeper level holds the key) — otherwise a later reader sees the put "
             "of a batch but not its delete")
    K.grd2_retention(P, R, L)
    K.ord7_smallest_snapshot(P, R, L)
    R.clause("GRD-10", "user-key vs file-bound comparisons (is_base_level_for_key and the overlap tests) treat [smallest, largest] as closed")
    K.grd10_closed_intervals(P, R, L)
    R.clause("SRC-1", "the client iterator merges every source: mutable memtable, immutable memtable (when present), one iterator per level-0 file and per non-empty deeper level")
    K.src1_iterator_sources(P, R, L)
    R.clause("GRD-13", "the per-level file search compares internal keys (a snapshot read of one key of a batch must not stop at the wrong file)")
    K.grd13_find_file_compares_internal_keys(P, R, L)
    R.clause("ORD-3", "a flush installs the new version before the immutable memtable is dropped (a reader in between must find the whole batch somewhere)")
    K.ord3_flush(P, R, L)
    R.clause("VERD-1", "a tombstone found in a memtable ends the lookup (otherwise a reader sees the put of a batch and the pre-batch value of the key it deleted)")
    K.verd1(P, R, L, what=("memtable", "dbget"))
    R.clause("ITR-1", "backward collapse of the client iterator: records newer than the reader's sequence change no state (a tombstone of a later batch must not hide the older value)")
    K.itr1_backward_collapse(P, R, L)
    R.clause("ITR-2", "forward collapse of the client iterator: invisible records change no state")
    K.itr2_forward_collapse(P, R, L)
    K.bundle_readpath(P, R, L)
    K.bundle_retention(P, R, L)
    K.bundle_liveness(P, R, L)
    K.bundle_recovery(P, R, L)
    R.not_decided += ["sequence arithmetic (prev+1 .. prev+len)", "rotation in the middle of a batch"]
