"""C12 — log files return exactly the records appended: reassembly clause only."""
from . import common as K


def run(P, R, L):
    R.clause("TS-1", "LogReader::read_record delivers a record only from a buffer assembled as First Middle* Last (or a single Full "
             "fragment): a typestate automaton over the flag-sensitive CFG, with dropped fragments breaking a partial record")
    K.ts1(P, R, L)
    R.clause("GRD-6", "end-of-log is reported only for ErrorKind::UnexpectedEof of the physical read or the cursor-at-length test; short "
             "header/payload reads become UnexpectedEof and never reach the fragment parser")
    K.grd6(P, R, L)
    R.clause("GRD-11", "a log re-opened for appending continues at block offset len % BLOCK_SIZE for every non-empty file; writer and reader "
             "use the same trailer test")
    K.grd11_reopen_offset(P, R, L)
    R.clause("TS-2", "LogWriter::append types every fragment the way the reader's automaton expects (Full/First/Middle/Last from the first/last "
             "flags), clears `first` after every fragment, and cuts chunks as min(remaining, room in the block)")
    K.ts2_writer_fragment_types(P, R, L)
    R.clause("GRD-18", "short reads are noticed: outside the file-system layer every read is read_exact or has its byte count compared with the expected length")
    K.grd18_short_reads(P, R, L)
    R.clause("FS-1", "FileSystem::create_file honours its append flag in every implementation (a re-opened log is continued at its end)")
    K.fs1_create_file_modes(P, R, L)
    R.clause("GRD-12", "a log is re-opened for appending only when the reader consumed all of it (exact comparison, cursor counting complete reads only)")
    K.grd12_reuse_only_complete_logs(P, R, L)
    K.grd12_cursor_counts_complete_reads(P, R, L)
    K.grd12_fully_consumed_is_exact(P, R, L)
    K.agr2_codec_pairs(P, R, L, groups=("log",))
    R.clause("ORD-22", "the writer's block offset advances only after the bytes were written (a failed write leaves the writer consistent with the file)")
    K.ord22_writer_offset_after_the_write(P, R, L)
    from . import blind
    R.clause("ORD-23", "a completely read log fragment is counted in the reader's cursor and block offset before it is parsed: a fragment that fails its checksum costs that record, not the reader's alignment")
    R.once(blind.ord23_reader_position_follows_the_file, P, R, L)
    R.clause("GRD-6 (source)", "ErrorKind::UnexpectedEof - which read_record turns into a clean end of the log - is constructed only behind a short read")
    R.once(blind.grd6b_eof_only_from_a_short_read, P, R, L)
    from . import blind as _blind
    R.clause("ENUM-1", "the hand-written tag decoders (Operation, BlockType, compression type, manifest field tags) invert the enums' discriminants")
    R.once(_blind.enum1_tag_decoders, P, R, L)
    from . import round11
    R.clause("FS-4", "the crate's own std::io::Read implementations tell the end of a file by a short count / ErrorKind::UnexpectedEof only (what the log reader turns into a clean end of the log)")
    R.once(round11.fs4_end_of_file_contract, P, R, L)
    R.not_decided += ["block-boundary arithmetic beyond the guards above: fragment sizes, trailer padding width, offset bookkeeping after each emit (value level)"]
