"""C17 — one owner at a time: lock discipline clauses."""
from ..rules import ok_guarded, sites_reaching, result_tests, field_reads, field_stores, in_cycle, switch_target
from ..dataflow import origins
from . import common as K

FS = "fs::traits::FileSystem::"
LOCK_FILE = FS + "lock_file"
MUTATORS = [FS + "create_file", FS + "rename", FS + "remove_file", FS + "remove_dir", FS + "remove_dir_all"]
OPEN = "db::DB::open"
DESTROY = "db::DB::destroy_database"
DROP_DB = "<db::DB as std::ops::Drop>::drop"


def declared(names):
    ns = set(names) if not isinstance(names, str) else {names}
    return lambda c: c.declared_name in ns or c.name in ns


def ord15(P, R, L):
    R.clause("ORD-15", "DB::open: FileSystem::lock_file ≺ok {recover, LogWriter::new, log_and_apply, remove_obsolete_files, "
             "schedule_task}; nothing that can run before the lock reaches create_file/rename/remove_* (the worker thread closure is "
             "a separate context). DB::destroy_database: lock_file ≺ok every remove_*")
    o = P.body(OPEN)
    if o is None:
        R.missing_anchor("ORD-15", OPEN)
    else:
        R.analysed(o)
        lk = K.normal_sites(o, declared(LOCK_FILE))
        if not lk:
            R.check("ORD-15", OPEN + "|anchors", False, K.where(o), "open calls FileSystem::lock_file", "no lock_file call")
        else:
            protected = ["db::DB::recover", "logs::LogWriter::new", K.LOG_AND_APPLY, K.REMOVE_OBSOLETE,
                         "compaction::worker::CompactionWorker::schedule_task", "db::DB::set_wal"]
            n = 0
            for name in protected:
                for s in sites_reaching(P, o, name):
                    if s in lk:
                        continue
                    n += 1
                    oks = [ok_guarded(o, s.bb, l) for l in lk]
                    R.check("ORD-15", OPEN + "|after-lock|%s" % name, any(k[0] for k in oks), s.where(),
                            "%s runs only over the success edge of lock_file" % name, "; ".join(k[1] for k in oks))
            R.floor("ORD-15", "protected steps in open", n, 5)
            R.call_sites += n
            # anything not dominated by the lock's success edge must not mutate the directory contents
            tests = []
            for l in lk:
                tests += result_tests(o, l.dest["l"])
            ok_edges = [e for t in tests for e in t.ok_edges()]
            after = set()
            for (src, tgt) in ok_edges:
                after |= o.reachable(tgt)
            bad = []
            n_before = 0
            for cs in o.calls():
                if o.is_cleanup(cs.bb) or cs in lk:
                    continue
                if cs.bb in after and o.must_pass(cs.bb, through_edges=ok_edges):
                    continue
                n_before += 1
                if P.site_reaches(cs, declared(MUTATORS + ["logs::LogWriter::new"]), sync_only=True):
                    bad.append("%s at %s" % (cs.name, cs.where()))
            R.check("ORD-15", OPEN + "|no-mutation-before-lock", not bad, lk[0].where(),
                    "no call that can execute before lock_file succeeded reaches create_file / rename / remove_* / LogWriter::new",
                    "; ".join(bad) or "%d call sites precede the lock; none reaches a mutator (directory creation is allowed)" % n_before)
            # the lock result is kept in the DB struct (not dropped): it reaches the DB aggregate
            agg_ok = False
            for bb in range(o.n):
                for st in o.blocks[bb]["stmts"]:
                    if st["k"] == "assign" and st["rv"]["k"] == "aggregate" and st["rv"].get("adt") == "db::DB":
                        fs = st["rv"]["fields"]
                        if "db_lock" in fs:
                            os_ = origins(o, st["rv"]["ops"][fs.index("db_lock")])
                            if any(x.kind == "call" and x.name == LOCK_FILE for x in os_):
                                agg_ok = True
            R.check("ORD-15", OPEN + "|lock-stored-in-handle", agg_ok, K.where(o),
                    "the FileLock returned by lock_file is stored in DB::db_lock (lives as long as the handle)", "")
    d = P.body(DESTROY)
    if d is None:
        R.missing_anchor("ORD-15", DESTROY)
    else:
        R.analysed(d)
        lk = K.normal_sites(d, declared(LOCK_FILE))
        if not lk:
            # the acquisition may live in a private helper that returns the FileLock (or the error)
            lk = [c for c in sites_reaching(P, d, declared(LOCK_FILE)) if "FileLock" in d.local_ty(c.dest["l"])]
        lk_bbs = {c.bb for c in lk}
        rms = [c for c in d.calls() if not d.is_cleanup(c.bb) and c.declared_name in (FS + "remove_file", FS + "remove_dir", FS + "remove_dir_all")]
        R.floor("ORD-15", "remove_* sites in destroy_database", len(rms), 5)
        for r in rms:
            oks = [ok_guarded(d, r.bb, l) for l in lk]
            R.check("ORD-15", DESTROY + "|remove-after-lock", bool(lk) and any(k[0] for k in oks), r.where(),
                    "every removal in destroy_database runs only over the success edge of lock_file", "; ".join(k[1] for k in oks))
        # removals of database files (not the lock file itself / root dir) happen while the lock is still held
        drops = [(c.bb, c.target, c.line) for c in d.calls() if c.name == "std::mem::drop" and not d.is_cleanup(c.bb) and c.target is not None
                 and any(x.kind == "call" and (x.name == LOCK_FILE or (x.site is not None and x.site.bb in lk_bbs)) for x in origins(d, c.args[0]))]
        # scope-end / `let _ =` drops of the FileLock (MIR drop terminators on normal flow)
        for bb in range(d.n):
            t = d.term(bb)
            if t["k"] == "drop" and not d.is_cleanup(bb) and "fs::traits::FileLock" in (t.get("ty") or "") and "Result<" not in (t.get("ty") or ""):
                drops.append((bb, t["target"], t.get("line")))
        in_loop_rm = [r for r in rms if r.declared_name == FS + "remove_file" and in_cycle(d, r.bb)]
        for r in [x for x in rms if x.declared_name == FS + "remove_dir_all"] + in_loop_rm:
            early = [ln for (bb, tg, ln) in drops if r.bb in d.reachable(tg)]
            R.check("ORD-15", DESTROY + "|data-removed-while-locked", not early, r.where(),
                    "the WAL directory, the table directory and the files of the root directory are removed while the lock is still held",
                    "the FileLock is released at line(s) %s before this removal" % early if early else "lock released only after the data is gone")
        R.check("ORD-15", DESTROY + "|lock-release-sites", bool(drops), K.where(d), "the lock taken by destroy_database is released explicitly or at scope end", "%d release sites" % len(drops))
        # the LOCK file itself is unlinked while the lock on it is still held: an open that gets in between a release and the
        # unlink locks the inode that is about to lose its name, and the next open creates (and locks) a fresh LOCK file -
        # two owners (defect D20)
        lock_rm = [r for r in rms if r.declared_name == FS + "remove_file" and not in_cycle(d, r.bb) and r.args and len(r.args) >= 2 and
                   any(x.kind == "call" and x.name.endswith("::get_lock_file_path") for x in origins(d, r.args[1]))]
        for r in lock_rm:
            early = [ln for (bb, tg, ln) in drops if r.bb in d.reachable(tg)]
            R.check("ORD-15", DESTROY + "|lock-file-unlinked-while-locked", not early, r.where(),
                    "destroy_database removes the LOCK file before it releases the lock it holds on it",
                    "the FileLock is released at line(s) %s before the LOCK file is unlinked" % early if early else "lock released only after the unlink")
        R.floor("ORD-15", "removal of the LOCK file in destroy_database", len(lock_rm), 1)


def own6(P, R, L):
    R.clause("OWN-6", "DB::db_lock is written only by the struct literal in DB::open and taken only in Drop for DB; in Drop the "
             "take() comes after the loop that waits for background work")
    users = []
    for p, b in sorted(P.bodies.items()):
        touched = False
        for bb in range(b.n):
            if b.is_cleanup(bb):
                continue
            for st in b.blocks[bb]["stmts"]:
                if st["k"] != "assign":
                    continue
                pls = [st["pl"]]
                rv = st["rv"]
                if rv["k"] in ("ref", "rawptr", "discr"):
                    pls.append(rv["pl"])
                for o_ in rv.get("ops", []):
                    if o_["k"] in ("copy", "move"):
                        pls.append(o_["pl"])
                for pl in pls:
                    for e in pl["p"]:
                        if isinstance(e, dict) and e.get("n") == "db_lock" and e.get("a") == "db::DB":
                            touched = True
                if rv["k"] == "aggregate" and rv.get("adt") == "db::DB":
                    touched = True
        if touched:
            users.append(p)
    allowed = {OPEN: "struct literal", "db::DB::recover": "assert!(db_lock.is_some())", DROP_DB: "take() on shutdown"}
    for u in users:
        b = P.bodies[u]
        R.analysed(b)
        R.check("OWN-6", "%s|touches-db_lock" % u, u in allowed, K.where(b),
                "db_lock is touched only by open (literal), recover (assert) and Drop (take)", allowed.get(u, "unexpected user"))
    R.floor("OWN-6", "bodies touching db_lock", len(users), 2)
    # mutable access: only Drop may take it
    for u in users:
        b = P.bodies[u]
        for c in b.calls():
            if b.is_cleanup(c.bb) or not c.args:
                continue
            if any("db_lock" in x.path for x in origins(b, c.args[0])) and c.name in ("std::option::Option::take", "std::mem::take", "std::mem::replace", "std::mem::drop"):
                R.check("OWN-6", "%s|releases-db_lock" % u, u == DROP_DB, c.where(), "only Drop for DB releases the lock", c.name)


def grd9(P, R, L):
    R.clause("GRD-9", "every disk-backed FileSystem::lock_file implementation reaches fs2 try_lock_exclusive (never the blocking or "
             "shared variants) and propagates its error")
    impls = [im for im in P.trait_impls.get(LOCK_FILE, []) if im in P.bodies]
    disk = [im for im in impls if "fs_disk" in P.bodies[im].file]
    R.floor("GRD-9", "disk-backed lock_file implementations", len(disk), 2)
    for im in disk:
        b = P.bodies[im]
        R.analysed(b)
        calls = P.ext_calls_reachable(im, lambda c: "fs2::FileExt" in (c.name or "") or "fs2::FileExt" in (c.declared_name or ""))
        names = sorted({c.name for c in calls})
        good = any(n.endswith("::try_lock_exclusive") for n in names)
        bad = [n for n in names if n.endswith("::lock_exclusive") or n.endswith("::lock_shared") or n.endswith("::try_lock_shared")]
        R.check("GRD-9", "%s|lock-kind" % im, good and not bad, K.where(b),
                "uses try_lock_exclusive only", "fs2 calls: %s" % names)
        unl = P.ext_calls_reachable(im, lambda c: any(x in (c.name or "") for x in ("remove_file", "remove_dir", "::rename", "fs::unlink")))
        R.check("GRD-9", "%s|never-unlinks-the-lock-file" % im, not unl, K.where(b),
                "lock_file never removes or renames the lock file (flock is tied to the inode: unlinking it after a refused attempt lets the next attempt lock a fresh inode)",
                "; ".join("%s at %s" % (c.name, c.where()) for c in unl))
        for c in calls:
            if c.body.path != im or not c.name.endswith("::try_lock_exclusive"):
                continue
            tests = result_tests(b, c.dest["l"])
            ok = any(t.kind == "try" for t in tests)
            if not ok:
                from .. import err
                cat, fs_ = err.classify_site(P, b, c)
                ok = cat in ("propagated", "tested") and not fs_
            R.check("GRD-9", "%s|lock-error-propagates" % im, ok, c.where(),
                    "a failed try_lock_exclusive makes lock_file return Err", "tests %s" % tests)
            # Ok(FileLock) only after the lock succeeded
            okb = [bb for bb in range(b.n) if not b.is_cleanup(bb) for st in b.blocks[bb]["stmts"]
                   if st["k"] == "assign" and st["pl"]["l"] == 0 and st["rv"]["k"] == "aggregate" and st["rv"].get("variant") == "Ok"]
            oks = [ok_guarded(b, x, c) for x in okb]
            R.check("GRD-9", "%s|ok-only-when-locked" % im, bool(okb) and all(k[0] for k in oks), K.where(b),
                    "Ok(FileLock) is returned only over the success edge of try_lock_exclusive", "; ".join(k[1] for k in oks))
            # the locked file is the one wrapped into the FileLock
            fl = [x for x in b.calls() if x.name == "fs::traits::FileLock::new" and not b.is_cleanup(x.bb)]
            same = False
            for x in fl:
                o1 = {(o.kind, o.name, o.site.bb if o.site else None) for o in origins(b, x.args[0]) if o.kind == "call"}
                o2 = {(o.kind, o.name, o.site.bb if o.site else None) for o in origins(b, c.args[0]) if o.kind == "call"}
                if o1 & o2:
                    same = True
            R.check("GRD-9", "%s|locked-file-is-kept" % im, same, K.where(b),
                    "the file on which the lock was taken is the one stored in the FileLock", "")


LOCK_PATH = "file_names::FileNameHandler::get_lock_file_path"


def own6b(P, R, L):
    R.clause("OWN-6b", "the LOCK path is only ever handed to lock_file; it is removed only by destroy_database, after every other removal "
             "(flock is tied to the inode: unlinking the name while the database may be opened lets a second owner in)")
    from ..rules import forward_aliases
    sites = [c for c in P.callers_of(LOCK_PATH) if not c.body.is_cleanup(c.bb)]
    R.floor("OWN-6b", "get_lock_file_path call sites", len(sites), 2)
    for cs in sites:
        b = cs.body
        R.analysed(b)
        A = forward_aliases(b, cs.dest["l"])
        for _ in range(3):
            for c in b.calls():
                if c.args and c.args[0]["k"] in ("copy", "move") and c.args[0]["pl"]["l"] in A and \
                        c.name in ("<std::path::PathBuf as std::ops::Deref>::deref", "std::path::PathBuf::as_path", "std::convert::AsRef::as_ref"):
                    A |= forward_aliases(b, c.dest["l"])
        bad, uses = [], []
        for c in b.calls():
            if b.is_cleanup(c.bb):
                continue
            for i, a in enumerate(c.args):
                if a["k"] in ("copy", "move") and a["pl"]["l"] in A:
                    dn = c.declared_name or ""
                    uses.append(dn.rsplit("::", 1)[-1])
                    if dn in (FS + "create_file", FS + "rename", FS + "remove_dir", FS + "remove_dir_all"):
                        bad.append("%s at %s" % (dn, c.where()))
                    if dn == FS + "remove_file":
                        if b.path != DESTROY:
                            bad.append("%s at %s (outside destroy_database)" % (dn, c.where()))
                        else:
                            later = [x for x in b.calls() if not b.is_cleanup(x.bb) and x is not c and x.bb in b.reachable(c.bb) and x.bb != c.bb and
                                     (x.declared_name or "") in (FS + "remove_file", FS + "remove_dir_all") ]
                            if later:
                                bad.append("LOCK is unlinked at %s before other removals at %s" % (c.where(), [x.line for x in later]))
        R.check("OWN-6b", "%s|lock-path-use" % b.path, not bad, cs.where(), "the LOCK name is never unlinked or replaced while the database can be opened",
                "; ".join(bad) or "uses: %s" % sorted(set(uses)))


def run(P, R, L):
    ord15(P, R, L)
    own6(P, R, L)
    own6b(P, R, L)
    from .c09 import pair4, ord10
    pair4(P, R, L)
    ord10(P, R, L)
    grd9(P, R, L)
    from . import round12
    R.clause("GRD-9 (identity)", "Ok(FileLock) is returned only after the inode of the locked file was found equal to the inode the path names once the lock was granted (flock is tied to the inode, the database to the path: a LOCK file unlinked by destroy_database between an opener's open and its flock would otherwise give that opener a lock that excludes nobody)")
    round12.grd9_lock_file_identity(P, R, L)
    # Drop: wait loop before take (shared with C09 ORD-12)
    from .c09 import ord12
    ord12(P, R, L)
    R.clause("FS-2", "every directory / file mutation of the disk file systems is the std::fs function of the same name (destroy_database relies on remove_dir refusing a non-empty directory)")
    K.fs2_disk_operations_are_their_namesakes(P, R, L)
    R.not_decided += ["behaviour of racing opens (decided by flock semantics, assumed)"]
    R.assumptions += ["flock(2): two descriptors of one process conflict; exactly one of racing try_lock calls wins",
                      "InMemoryFileSystem is not disk-backed and is out of the property's scope"]
