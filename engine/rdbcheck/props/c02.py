"""C02 — acknowledged writes survive a crash at any point: ordering clauses."""
from ..rules import (ok_guarded, sites_reaching, result_tests, comparisons, origin_pred_call, origin_pred_field, in_cycle,
                     forward_aliases)
from ..dataflow import origins
from . import common as K

FS = "fs::traits::FileSystem::"
CREATE_FILE = FS + "create_file"
RENAME = FS + "rename"
REMOVE_FILE = FS + "remove_file"
OPEN_FILE = FS + "open_file"
APPEND_FILE = "fs::traits::RandomAccessFile::append"
SET_CURRENT = "db::DB::set_current_file"
CUR_PATH = "file_names::FileNameHandler::get_current_file_path"
TEMP_PATH = "file_names::FileNameHandler::get_temp_file_path"
RECOVER_LOGS = "db::DB::recover_unrecorded_logs"
RECOVER_WAL = "db::DB::recover_wal_records"
OPEN = "db::DB::open"
RECOVER = "db::DB::recover"


def ord4_current_switch(P, R, L):
    R.clause("ORD-4", "DB::set_current_file: create_file(temp) ≺ok append(contents) ≺ok rename(temp, CURRENT); the rename's source "
             "is the temp path and its destination the CURRENT path")
    b = P.body(SET_CURRENT)
    if b is None:
        return R.missing_anchor("ORD-4", SET_CURRENT)
    R.analysed(b)
    cr = K.normal_sites(b, lambda c: c.declared_name == CREATE_FILE)
    ap = K.normal_sites(b, lambda c: c.declared_name == APPEND_FILE)
    rn = K.normal_sites(b, lambda c: c.declared_name == RENAME)
    if not (cr and ap and rn):
        return R.check("ORD-4", SET_CURRENT + "|anchors", False, K.where(b), "create_file, append and rename are present",
                       "create=%d append=%d rename=%d" % (len(cr), len(ap), len(rn)))
    R.call_sites += len(cr) + len(ap) + len(rn)
    for a in ap:
        oks = [ok_guarded(b, a.bb, c) for c in cr]
        R.check("ORD-4", SET_CURRENT + "|create-before-write", any(o[0] for o in oks), a.where(),
                "the temp file is written only over the success edge of create_file", "; ".join(o[1] for o in oks))
        ok = any(o.kind == "call" and o.name == CREATE_FILE for o in origins(b, a.args[0]))
        R.check("ORD-4", SET_CURRENT + "|write-goes-to-temp", ok, a.where(),
                "the manifest name is appended to the file returned by create_file(temp)", "")
    for r in rn:
        oks = [ok_guarded(b, r.bb, a) for a in ap]
        R.check("ORD-4", SET_CURRENT + "|write-before-rename", any(o[0] for o in oks), r.where(),
                "rename is reachable only over the success edge of the write to the temp file", "; ".join(o[1] for o in oks))
        src = origins(b, r.args[1])
        dst = origins(b, r.args[2])
        ok = any(o.kind == "call" and o.name == TEMP_PATH for o in src) and any(o.kind == "call" and o.name == CUR_PATH for o in dst) \
            and not any(o.kind == "call" and o.name == CUR_PATH for o in src)
        R.check("ORD-4", SET_CURRENT + "|rename-temp-to-current", ok, r.where(), "rename(temp path, CURRENT path)",
                "src %s dst %s" % (sorted({o.name for o in src if o.kind == "call"}), sorted({o.name for o in dst if o.kind == "call"})))
    for c in cr:
        ok = any(o.kind == "call" and o.name == TEMP_PATH for o in origins(b, c.args[1]))
        R.check("ORD-4", SET_CURRENT + "|creates-temp-not-current", ok, c.where(), "create_file is called on the temp path", "")


def own1_current_path(P, R, L):
    R.clause("OWN-1", "the CURRENT path is only ever opened for reading or used as the destination of rename: no create_file / "
             "remove_file / rename-from on a value derived from get_current_file_path anywhere in the crate")
    sites = [c for c in P.callers_of(CUR_PATH) if not c.body.is_cleanup(c.bb)]
    R.floor("OWN-1", "get_current_file_path call sites", len(sites), 3)
    for cs in sites:
        b = cs.body
        R.analysed(b)
        A = forward_aliases(b, cs.dest["l"])
        # conversions (&PathBuf -> &Path)
        for _ in range(3):
            for c in b.calls():
                if c.args and c.args[0]["k"] in ("copy", "move") and c.args[0]["pl"]["l"] in A and \
                        c.name in ("<std::path::PathBuf as std::ops::Deref>::deref", "std::path::PathBuf::as_path", "std::convert::AsRef::as_ref"):
                    A |= forward_aliases(b, c.dest["l"])
        bad = []
        uses = []
        for c in b.calls():
            if b.is_cleanup(c.bb):
                continue
            for i, a in enumerate(c.args):
                if a["k"] in ("copy", "move") and a["pl"]["l"] in A:
                    dn = c.declared_name or ""
                    uses.append("%s#%d" % (dn.rsplit("::", 1)[-1], i))
                    if dn in (CREATE_FILE, REMOVE_FILE, FS + "remove_dir", FS + "remove_dir_all") or (dn == RENAME and i == 1) \
                            or dn in ("logs::LogWriter::new",):
                        bad.append("%s (arg %d) at %s" % (dn, i, c.where()))
        R.check("OWN-1", "%s|current-path-use" % b.path, not bad, cs.where(),
                "CURRENT is only read or replaced atomically by rename", "; ".join(bad) or "uses: %s" % sorted(set(uses)))
    R.call_sites += len(sites)


def ord5_manifest_before_current(P, R, L):
    R.clause("ORD-5", "the manifest record is appended (successfully) before CURRENT is switched to that manifest, in "
             "persist_changes and in initialize_as_new_db; a new manifest gets its snapshot before it is used; the new version is "
             "installed only over the success edge of persist_changes")
    pc = P.body("versioning::version_set::VersionSet::persist_changes")
    if pc is None:
        R.missing_anchor("ORD-5", "VersionSet::persist_changes")
    else:
        found = False
        for (u, cb) in K.unlocked_closures(P, L, pc):
            R.analysed(cb)
            sc = sites_reaching(P, cb, SET_CURRENT)
            ap = sites_reaching(P, cb, K.LOG_APPEND)
            ap = [a for a in ap if a not in sc]
            if not sc:
                continue
            found = True
            for s in sc:
                oks = [ok_guarded(cb, s.bb, a) for a in ap]
                R.check("ORD-5", pc.path + "|append-before-current", bool(ap) and any(o[0] for o in oks), s.where(),
                        "set_current_file is reachable only over the success edge of the manifest append", "; ".join(o[1] for o in oks))
        if not found:
            R.check("ORD-5", pc.path + "|anchors", False, K.where(pc), "persist_changes switches CURRENT in its unlocked section", "not found")
    ni = P.body("db::DB::initialize_as_new_db")
    if ni is None:
        R.missing_anchor("ORD-5", "db::DB::initialize_as_new_db")
    else:
        R.analysed(ni)
        sc = sites_reaching(P, ni, SET_CURRENT)
        ap = [a for a in sites_reaching(P, ni, K.LOG_APPEND) if a not in sc]
        for s in sc:
            oks = [ok_guarded(ni, s.bb, a) for a in ap]
            R.check("ORD-5", ni.path + "|append-before-current", bool(ap) and any(o[0] for o in oks), s.where(),
                    "set_current_file is reachable only over the success edge of the manifest append", "; ".join(o[1] for o in oks))
        if not sc:
            R.check("ORD-5", ni.path + "|anchors", False, K.where(ni), "initialize_as_new_db switches CURRENT", "not found")
    la = P.body(K.LOG_AND_APPLY)
    if la is None:
        R.missing_anchor("ORD-5", K.LOG_AND_APPLY)
    else:
        R.analysed(la)
        ps = sites_reaching(P, la, "versioning::version_set::VersionSet::persist_changes")
        inst = sites_reaching(P, la, "versioning::version_set::VersionSet::append_new_version")
        for i in inst:
            oks = [ok_guarded(la, i.bb, p) for p in ps]
            R.check("ORD-5", la.path + "|install-after-persist", bool(ps) and any(o[0] for o in oks), i.where(),
                    "append_new_version is reachable only over the success edge of persist_changes", "; ".join(o[1] for o in oks))
        if not inst:
            R.check("ORD-5", la.path + "|anchors", False, K.where(la), "log_and_apply installs the new version", "append_new_version not found")
    gn = P.body("versioning::version_set::VersionSet::get_new_version_from_current")
    if gn is None:
        R.missing_anchor("ORD-5", "VersionSet::get_new_version_from_current")
    else:
        R.analysed(gn)
        ws = sites_reaching(P, gn, "versioning::version_set::VersionSet::write_snapshot")
        from ..rules import field_stores, stored_variants
        st = [s for s in field_stores(gn, "maybe_manifest_file") if "Some" in stored_variants(gn, s[2])]
        ok = bool(ws) and bool(st)
        det = []
        for s in st:
            oks = [ok_guarded(gn, s[0], w) for w in ws]
            if not any(o[0] for o in oks):
                ok = False
                det.append("; ".join(o[1] for o in oks))
        R.check("ORD-5", gn.path + "|snapshot-before-use", ok, K.where(gn),
                "a freshly created manifest becomes the version set's manifest only over the success edge of write_snapshot", "; ".join(det))


def grd1_replay(P, R, L):
    R.clause("GRD-1", "recover_unrecorded_logs queues a WAL for replay under `file number >= get_curr_wal_number()`")
    R.clause("ORD-6", "the queue is sorted before the replay loop; every replayed WAL number is passed to mark_file_number_used "
             "inside the loop; in DB::open recovery precedes remove_obsolete_files (success edge), and remove_obsolete_files is "
             "not reachable from the Err edge of the recovery log_and_apply")
    b = P.body(RECOVER_LOGS)
    if b is None:
        R.missing_anchor("GRD-1", RECOVER_LOGS)
    else:
        R.analysed(b)
        pushes = [c for c in K.normal_sites(b, "std::vec::Vec::push") if "u64" in (c.t.get("substs") or [""])[0]]
        a_pred = lambda os: True
        edges = []
        for c in comparisons(b):
            lo, ro = c.lhs_origins(), c.rhs_origins()
            is_min = origin_pred_call("versioning::version_set::VersionSet::get_curr_wal_number")
            if is_min(ro) and not is_min(lo):
                edges += c.edges_where("ge", lambda os: not is_min(os), is_min, exact=True)
            elif is_min(lo) and not is_min(ro):
                edges += c.edges_where("ge", lambda os: not is_min(os), is_min, exact=True)
        ok = bool(pushes) and bool(edges) and all(b.must_pass(p.bb, through_edges=edges) for p in pushes)
        R.check("GRD-1", RECOVER_LOGS + "|replay-wals-at-or-after-manifest-wal", ok, pushes[0].where() if pushes else K.where(b),
                "a WAL number is queued only on the edge where number >= get_curr_wal_number()",
                "pushes %s guard edges %s" % ([p.line for p in pushes], edges))
        sorts = K.normal_sites(b, ["core::slice::sort_unstable", "std::slice::sort", "std::slice::sort_by", "std::slice::sort_by_key",
                                   "core::slice::sort_unstable_by", "core::slice::sort_unstable_by_key"])
        rw = sites_reaching(P, b, RECOVER_WAL)
        ok = bool(sorts) and bool(rw) and all(b.must_pass(r.bb, through_nodes=[s.bb for s in sorts]) for r in rw) \
            and all(b.must_pass(s.bb, through_nodes=[p.bb for p in pushes]) or True for s in sorts)
        # sort must come after the last push: no push reachable from the sort
        after = any(p.bb in b.reachable(s.target) for s in sorts for p in pushes)
        R.check("ORD-6", RECOVER_LOGS + "|sorted-before-replay", ok and not after, K.where(b),
                "the numeric sort of the queue dominates the replay loop and no WAL is queued after it", "sorts=%d" % len(sorts))
        mk = K.normal_sites(b, "versioning::version_set::VersionSet::mark_file_number_used")
        okm = False
        for r in rw:
            # after a successful recover_wal_records, the loop cannot come back to it or leave (return) without marking
            tests = result_tests(b, r.dest["l"])
            for t in tests:
                for e in t.ok:
                    reach = b.reachable(e, removed_nodes=[m.bb for m in mk])
                    if r.bb not in reach and not any(x in reach for x in b.return_blocks()):
                        okm = True
        R.check("ORD-6", RECOVER_LOGS + "|mark-file-number-used", okm, K.where(b),
                "every replayed WAL number is marked used before the next iteration / return", "mark sites %d" % len(mk))
        sp = K.normal_sites(b, K.SET_PREV_SEQ)
        ok = bool(sp) and all(any(r.bb in b.reachable(0) and sp_.bb in b.reachable(r.bb) for r in rw) for sp_ in sp)
        R.check("ORD-6", RECOVER_LOGS + "|restores-last-sequence", ok, K.where(b),
                "the last sequence number seen during replay is published to the version set after the loop", "sites %d" % len(sp))
    w = P.body(RECOVER_WAL)
    if w is None:
        R.missing_anchor("ORD-6", RECOVER_WAL)
    else:
        R.analysed(w)
        rd = sites_reaching(P, w, "logs::LogReader::read_record")
        ab = sites_reaching(P, w, K.APPLY_BATCH)
        conv = sites_reaching(P, w, K.CONVERT)
        ok = bool(rd) and bool(ab) and all(in_cycle(w, a.bb) for a in ab) and any(in_cycle(w, r.bb) for r in rd)
        R.check("ORD-6", RECOVER_WAL + "|replay-loop", ok, K.where(w),
                "records are read in a loop and each is applied to the recovery memtable", "read sites %d apply sites %d" % (len(rd), len(ab)))
        # a record that was read is applied before the next one replaces it: no skip edge around Batch::try_from / apply
        skipped = []
        for r in rd:
            starts = [e[1] for t in result_tests(w, r.dest["l"]) for e in t.ok_edges()] if r.dest else []
            for s0 in starts or [r.target]:
                reach = w.reachable(s0, removed_nodes=[a.bb for a in ab])
                nxt = [x for x in rd if x.bb in reach]
                if nxt:
                    skipped.append("the record read at line %s can be replaced by the read at line %s without having been applied" % (r.line, nxt[0].line))
        R.check("ORD-6", RECOVER_WAL + "|every-record-applied", bool(rd) and bool(ab) and not skipped, K.where(w),
                "between two read_record calls of the replay loop the record is applied to the memtable on every path (a record is "
                "never skipped for its size or content; an undecodable one fails recovery)", "; ".join(skipped) or "read sites %d" % len(rd))
        # every return Ok passes either memtable reuse (memtable_ptr.store) or convert_memtable_to_file
        stores = K.normal_sites(w, "arc_swap::ArcSwapAny::store")
        final_conv = [c for c in conv if not in_cycle(w, c.bb)]
        from ..rules import switch_target
        okb = [bb for bb in range(w.n) if not w.is_cleanup(bb) for st in w.blocks[bb]["stmts"]
               if st["k"] == "assign" and st["pl"]["l"] == 0 and st["rv"]["k"] == "aggregate" and st["rv"].get("variant") == "Ok"]
        ok = bool(okb) and bool(final_conv) and all(
            w.must_pass_fs(x, through_nodes=[c.bb for c in final_conv] + [s.bb for s in stores]) for x in okb)
        R.check("ORD-6", RECOVER_WAL + "|recovered-memtable-kept-or-flushed", ok, K.where(w),
                "the recovered memtable is either installed as the active memtable or flushed to a table before Ok is returned",
                "final convert sites %s, store sites %s" % ([c.line for c in final_conv], [s.line for s in stores]))
        for c in final_conv:
            tests = result_tests(w, c.dest["l"])
            ok = any(t.kind == "try" for t in tests)
            R.check("ORD-6", RECOVER_WAL + "|flush-error-propagates", ok, c.where(), "a failed flush of the recovered memtable fails recovery", "")
    o = P.body(OPEN)
    if o is None:
        return R.missing_anchor("ORD-6", OPEN)
    R.analysed(o)
    rec = sites_reaching(P, o, RECOVER)
    rof = sites_reaching(P, o, K.REMOVE_OBSOLETE)
    la = [c for c in sites_reaching(P, o, K.LOG_AND_APPLY) if c not in rec]
    for r in rof:
        oks = [ok_guarded(o, r.bb, x) for x in rec]
        R.check("ORD-6", OPEN + "|recover-before-gc", bool(rec) and any(k[0] for k in oks), r.where(),
                "remove_obsolete_files runs only over the success edge of recover", "; ".join(k[1] for k in oks))
        for a in la:
            bad = False
            for t in result_tests(o, a.dest["l"]):
                for e in t.err:
                    if r.bb in o.reachable(e):
                        bad = True
            passes = o.must_pass(r.bb, through_nodes=[a.bb]) or True
            R.check("ORD-6", OPEN + "|no-gc-after-failed-manifest", not bad, r.where(),
                    "remove_obsolete_files is not reachable from the Err edge of the recovery log_and_apply", "")
    if not rof or not rec:
        R.check("ORD-6", OPEN + "|anchors", False, K.where(o), "open calls recover and remove_obsolete_files", "rec=%d rof=%d" % (len(rec), len(rof)))


def run(P, R, L):
    R.clause("ORD-2", "write-ahead: in apply_changes' unlocked section LogWriter::append ≺ok apply_batch_to_memtable; a failed section "
             "records the sticky error; the sequence is published only after the section (ORD-8)")
    K.ord2_write_ahead(P, R, L)
    K.ord8_publication(P, R, L)
    R.clause("ORD-3", "flush order: convert_memtable_to_file ≺ok log_and_apply ≺ok {drop immutable memtable, remove_obsolete_files}; "
             "table compaction installs only without error, and deletes only after cleanup")
    K.ord3_flush(P, R, L)
    K.ord3_tables(P, R, L)
    ord4_current_switch(P, R, L)
    own1_current_path(P, R, L)
    ord5_manifest_before_current(P, R, L)
    grd1_replay(P, R, L)
    R.clause("ROLE-4", "the counters recovery depends on (next file number, last sequence, current / previous WAL) are recorded in every version "
             "edit from the version set's state and restored from the manifest into the same fields")
    K.role4_counters(P, R, L)
    K.ord8c_recovered_sequence(P, R, L)
    R.clause("ORD-8c", "recovery restores the sequence of the last operation of the last replayed batch")
    R.clause("OWN-9", "files are created truncating except log re-use: a re-issued file number never inherits a crashed predecessor's bytes")
    K.own9_create_mode(P, R, L)
    R.clause("GRD-5", "a WAL is queued for deletion only when it is older than the WAL recorded in the manifest and is not the previous WAL")
    from .c11 import grd5
    grd5(P, R, L)
    R.clause("TS-1", "recovery reads the WAL through LogReader::read_record: a crash between two fragments of a record must not make "
             "later records unreadable or invent records (reassembly typestate); a torn tail is end-of-log (GRD-6)")
    K.ts1(P, R, L)
    K.grd6(P, R, L)
    R.clause("GRD-12", "a WAL / manifest is re-opened for appending only if the reader consumed it completely (no append after a torn tail)")
    K.grd12_reuse_only_complete_logs(P, R, L)
    K.grd12_cursor_counts_complete_reads(P, R, L)
    K.grd12_fully_consumed_is_exact(P, R, L)
    K.bundle_recovery(P, R, L)
    R.clause("GRD-20", "an existing database is never re-initialised because CURRENT could not be opened for a reason other than NotFound")
    K.grd20_create_only_when_missing(P, R, L)
    R.clause("GRD-21", "a failed manifest write removes only a manifest created by that very call, never the live one CURRENT names")
    K.grd21_manifest_cleanup(P, R, L)
    R.not_decided += ["partial-write behaviour of the filesystem", "what recovery computes from a given on-disk image",
                      "batch atomicity at byte level (the reassembly clause is C12/TS-1)"]
    R.assumptions += ["FileSystem::rename is atomic; create_file(append=false) truncates",
                      "a crash point is a prefix of the issued filesystem operations, whose order is the static order checked here"]
