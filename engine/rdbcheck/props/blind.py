"""Rules for the functions no earlier rule looked at (round 9 blind-spot review: `functions_analysed` of all evidence files
against the list of MIR bodies).  Same conventions as props/common.py."""
from ..rules import (bool_tests, comparisons, in_cycle, switch_target, field_stores, _switches_on_local)
from ..dataflow import origins, roots
from ..cfg import strip_generics
from .common import where, upvar_parent_origins


def _plain_local(op):
    """the local an operand reads: `copy x` / `move x`, or `move t.0` of a checked-arithmetic `(value, overflowed)` tuple"""
    if op.get("k") not in ("copy", "move"):
        return None
    p = op["pl"]["p"]
    if not p or (len(p) == 1 and isinstance(p[0], dict) and p[0].get("f") == 0 and p[0].get("n", "") == ""):
        return op["pl"]["l"]
    return None


def _eff_rv(b, rv, depth=4):
    """the rvalue a statement really assigns: `t = <rvalue>; x = move t` is looked through for single-definition temporaries"""
    while depth > 0 and rv["k"] == "use" and rv["ops"][0].get("k") in ("copy", "move") and not rv["ops"][0]["pl"]["p"]:
        ds = b.defs().get(rv["ops"][0]["pl"]["l"], [])
        if len(ds) != 1 or ds[0][0] != "stmt" or ds[0][3]["pl"]["p"] or b.local_name(rv["ops"][0]["pl"]["l"]):
            break
        rv = ds[0][3]["rv"]
        depth -= 1
    return rv


def _copy_root(b, l, depth=6):
    """follow `x = copy y` / `x = move y.0` chains of single-definition temporaries back to a named (multi-definition or user) local"""
    while depth > 0:
        ds = b.defs().get(l, [])
        if len(ds) != 1 or ds[0][0] != "stmt" or ds[0][3]["pl"]["p"]:
            return l
        rv = ds[0][3]["rv"]
        if rv["k"] == "use" and rv["ops"][0]["k"] in ("copy", "move") and not rv["ops"][0]["pl"]["p"]:
            l = rv["ops"][0]["pl"]["l"]
            depth -= 1
            continue
        return l
    return l


def _binop_def(b, l):
    """(op, operands) when local l (through `.0` of a checked-arithmetic tuple and plain copies) is defined by exactly one binop"""
    for _ in range(6):
        ds = b.defs().get(l, [])
        if len(ds) != 1 or ds[0][0] != "stmt":
            return None
        rv = ds[0][3]["rv"]
        if rv["k"] == "binop":
            return rv["op"].replace("WithOverflow", ""), rv["ops"]
        if rv["k"] in ("use", "cast") and rv["ops"][0]["k"] in ("copy", "move"):
            l = rv["ops"][0]["pl"]["l"]
            continue
        return None
    return None


def _const_val(op):
    if op.get("k") == "const":
        try:
            return int(str(op.get("val")))
        except (TypeError, ValueError):
            return None
    return None


# ------------------------------------------------------------------------------------------- BSRCH-1 lower-bound binary searches
BSEARCH_FUNCTIONS = [
    # (function, what the search must deliver)
    ("<tables::block::BlockIter<K> as iterator::RainDbIterator>::seek", "the first entry whose key is not less than the target"),
    ("versioning::utils::find_file_with_upper_bound_range", "the first file whose largest key is not less than the target"),
]


def _less_edges(b, elem_pred, target_pred, elem_op=None, wrap=None):
    """CFG edges on which `element < target` holds STRICTLY, and edges on which it is known not to hold, over every comparison of
    an element with the target: bool comparisons (`a < b`, `!(a >= b)`, ...) and `a.cmp(b)` followed by a match on the Ordering."""
    less, notless = [], []
    def tag(op):
        """origin list of an operand, marked when the operand reads the probed element"""
        os_ = origins(b, op)
        return wrap(os_) if (elem_op is not None and elem_op(op)) else os_
    for c in comparisons(b):
        if elem_op is not None:
            lo_, ro_ = tag(c.lhs), tag(c.rhs)
            c = _FixedCmp(c, lo_, ro_)
        lt = c.edges_where("lt", elem_pred, target_pred, exact=True)
        ge = c.edges_where("ge", elem_pred, target_pred, exact=True)
        if lt or ge:
            less += lt
            notless += ge
    for c in b.calls():
        if b.is_cleanup(c.bb) or (c.declared_name or "") not in ("std::cmp::Ord::cmp", "std::cmp::PartialOrd::partial_cmp") or len(c.args) != 2:
            continue
        lo, ro = (tag(c.args[0]), tag(c.args[1])) if elem_op is not None else (origins(b, c.args[0]), origins(b, c.args[1]))
        if elem_pred(lo) and target_pred(ro):
            less_val = 255      # Ordering::Less = -1i8
        elif elem_pred(ro) and target_pred(lo):
            less_val = 1        # target.cmp(element) == Greater
        else:
            continue
        if (c.declared_name or "").endswith("partial_cmp"):
            continue            # Option<Ordering>: not used by the repository's searches; left undecided (fails closed below)
        # `cmp(..) == Ordering::Less`, `cmp(..).is_lt()`, `!= Less`, `is_ge()` ... : a bool test of the Ordering
        want = "Less" if less_val == 255 else "Greater"
        for c2 in b.calls():
            if b.is_cleanup(c2.bb) or not c2.args:
                continue
            nm2, dn2 = (c2.name or ""), (c2.declared_name or "")
            if c.dest["l"] not in roots(b, c2.args[0]) and not (len(c2.args) > 1 and c.dest["l"] in roots(b, c2.args[1])):
                continue
            pos = None      # True: the call's true edge means `strictly less`; False: its true edge means `not less`
            if nm2.endswith(("Ordering::is_lt", "Ordering::is_gt", "Ordering::is_ge", "Ordering::is_le")):
                m = nm2.rsplit("::", 1)[1]
                if less_val == 255:
                    pos = {"is_lt": True, "is_ge": False}.get(m)
                else:
                    pos = {"is_gt": True, "is_le": False}.get(m)
            elif len(c2.args) == 2 and ("PartialEq" in dn2 or "PartialEq" in nm2) and nm2.rsplit("::", 1)[-1] in ("eq", "ne"):
                other = c2.args[1] if c.dest["l"] in roots(b, c2.args[0]) else c2.args[0]
                variants = {(o.name or "").rsplit("::", 1)[-1] for o in origins(b, other) if o.kind == "agg"}
                if variants == {want}:
                    pos = nm2.endswith("::eq")
            if pos is None:
                continue
            for t in bool_tests(b, c2.dest["l"]):
                tr, fl = [(t.bb, x) for x in t.ok], [(t.bb, x) for x in t.err]
                less += tr if pos else fl
                notless += fl if pos else tr
        for bb in range(b.n):
            for st in b.blocks[bb]["stmts"]:
                if st["k"] == "assign" and st["rv"]["k"] == "discr" and not st["pl"]["p"] and c.dest["l"] in roots(b, {"k": "copy", "pl": st["rv"]["pl"]}):
                    for sb in _switches_on_local(b, st["pl"]["l"]):
                        t = b.term(sb)
                        lt_t = switch_target(t, less_val)
                        # Ordering has three values; the edge to lt_t means `strictly less` only if no other value shares it
                        shared = [v for v in (255, 0, 1) if v != less_val and switch_target(t, v) == lt_t]
                        for v in (255, 0, 1):
                            tgt = switch_target(t, v)
                            if tgt is None:
                                continue
                            if v == less_val and not shared:
                                less.append((sb, tgt))
                            elif tgt != lt_t:
                                notless.append((sb, tgt))
    return less, notless


class _FixedCmp:
    """a Cmp whose operand origin lists were computed by the caller"""
    def __init__(self, c, lo, ro):
        self.c, self.lo, self.ro = c, lo, ro
        self.bb, self.op, self.true_t, self.false_t = c.bb, c.op, c.true_t, c.false_t

    def edges_where(self, rel, a_pred, b_pred, exact=False):
        from ..rules import SWAP, NEG, implies
        if a_pred(self.lo) and b_pred(self.ro):
            op = self.op
        elif a_pred(self.ro) and b_pred(self.lo):
            op = SWAP[self.op]
        else:
            return []
        ok = (lambda o: o == rel) if exact else (lambda o: implies(o, rel))
        out = []
        if ok(op):
            out += [(self.bb, t) for t in self.true_t]
        if ok(NEG[op]):
            out += [(self.bb, t) for t in self.false_t]
        return out


def bsrch1_lower_bound_searches(P, R, L, rule="BSRCH-1"):
    """The two hand-written binary searches (block entries by key, level files by largest key) are lower-bound searches: with
    `mid = (lo + hi) / 2`, `lo` moves to `mid + 1` only on the edge where element(mid) is STRICTLY less than the target, `hi`
    moves to `mid` on the complementary edge, every trip round the loop moves one of them, the loop runs while `lo < hi`, and
    the position delivered is `lo`.  (`Equal` filed under the `Less` arm skips an exact match; `lo = mid` never terminates.)
    A search written with slice::partition_point is accepted when its predicate is `element < target`."""
    n = 0
    for fn, what in BSEARCH_FUNCTIONS:
        b = P.body(fn)
        if b is None:
            R.missing_anchor(rule, fn)
            continue
        R.analysed(b)
        target_pred = lambda os_: any(o.kind == "param" and o.name == b.nargs for o in os_)      # the target is the last parameter
        # -- library form
        pp = [c for c in b.calls() if not b.is_cleanup(c.bb) and (c.name or "").endswith("::partition_point")]
        if pp:
            okp = True
            for c in pp:
                okc = False
                for cp in b.closure_of_operand(c.args[1]) if len(c.args) > 1 else []:
                    cb = P.bodies.get(cp)
                    if cb is None:
                        continue
                    R.analysed(cb)
                    el = lambda os_: any(o.kind == "param" and o.name == 2 for o in os_)
                    tg = lambda os_: any(o.kind == "upvar" for o in os_)
                    for cm in comparisons(cb):
                        pass
                    # the closure's value is the comparison itself: `element < target`
                    for cc in cb.calls():
                        dn = cc.declared_name or ""
                        if dn.startswith("std::cmp::PartialOrd::") and len(cc.args) == 2 and not cb.is_cleanup(cc.bb):
                            op = dn.rsplit("::", 1)[1]
                            lo, ro = origins(cb, cc.args[0]), origins(cb, cc.args[1])
                            if (op == "lt" and el(lo) and tg(ro)) or (op == "gt" and tg(lo) and el(ro)):
                                okc = cc.dest["l"] == 0 or any(o.kind == "call" and o.site is not None and o.site.bb == cc.bb for o in origins(cb, {"l": 0, "p": []}))
                okp = okp and okc
            n += 1
            R.check(rule, fn + "|partition-point-predicate", okp, where(b), "partition_point(|element| element < target): " + what, "sites %d" % len(pp))
            continue
        # -- hand-written form
        mids = []
        for bb in range(b.n):
            if b.is_cleanup(bb):
                continue
            for st in b.blocks[bb]["stmts"]:
                if st["k"] == "assign" and st["rv"]["k"] == "binop" and st["rv"]["op"] in ("Div", "Shr") and not st["pl"]["p"]:
                    c2 = _const_val(st["rv"]["ops"][1])
                    if (st["rv"]["op"], c2) not in (("Div", 2), ("Shr", 1)):
                        continue
                    l0 = _plain_local(st["rv"]["ops"][0])
                    bd = _binop_def(b, l0) if l0 is not None else None
                    if bd and bd[0] == "Add":
                        ls = [_copy_root(b, _plain_local(o)) for o in bd[1] if _plain_local(o) is not None]
                        if len(ls) == 2:
                            mids.append((st["pl"]["l"], ls, bb))
        if len(mids) != 1:
            R.check(rule, fn + "|shape", False, where(b), "one `mid = (lo + hi) / 2` (or a partition_point call)", "%d found" % len(mids))
            continue
        mid, (x, y), mid_bb = mids[0]
        n += 1

        def init_kind(l):
            ks = set()
            for d in b.defs().get(l, []):
                if d[0] == "stmt" and d[3]["rv"]["k"] == "use" and _const_val(d[3]["rv"]["ops"][0]) == 0:
                    ks.add("zero")
                if d[0] == "call" and strip_generics(d[3].get("resolved") or d[3].get("callee") or "").endswith("::len"):
                    ks.add("len")
            return ks
        lo, hi = (x, y) if "zero" in init_kind(x) else (y, x)
        shape_ok = "zero" in init_kind(lo) and "len" in init_kind(hi)
        R.check(rule, fn + "|bounds", shape_ok, where(b), "`lo` starts at 0 and `hi` at the length of the searched list", "lo inits %s, hi inits %s" % (sorted(init_kind(lo)), sorted(init_kind(hi))))
        # loop condition lo < hi
        is_lo = lambda os_=None, op=None: False
        cond = []
        stay = []
        for c in comparisons(b):
            a, bb_ = _plain_local(c.lhs) if c.lhs.get("k") != "const" else None, _plain_local(c.rhs) if c.rhs.get("k") != "const" else None
            if a is None or bb_ is None:
                continue
            ra, rb = _copy_root(b, a), _copy_root(b, bb_)
            # `lo < hi` holds on the true edge of `lo < hi` / `hi > lo` and on the FALSE edge of `lo >= hi` / `hi <= lo`
            # (`loop { if lo >= hi { break; } .. }`)
            if ((ra, rb) == (lo, hi) and c.op == "lt") or ((ra, rb) == (hi, lo) and c.op == "gt"):
                cond.append(c)
                stay += [(c.bb, t) for t in c.true_t]
            elif ((ra, rb) == (lo, hi) and c.op == "ge") or ((ra, rb) == (hi, lo) and c.op == "le"):
                cond.append(c)
                stay += [(c.bb, t) for t in c.false_t]
        R.check(rule, fn + "|loop-condition", bool(cond) and b.must_pass(mid_bb, through_edges=stay), where(b),
                "the probe is computed only on the edge `lo < hi`", "conditions %d" % len(cond))
        # the element probed and the decisive comparison
        def elem_op(op, depth=8, seen=None):
            """does the operand read (an accessor of / a reference into) the element at index `mid`?"""
            seen = seen if seen is not None else set()
            if op.get("k") not in ("copy", "move") or depth <= 0:
                return False
            pl = op["pl"]
            if any(isinstance(e, dict) and "idx" in e and _copy_root(b, e["idx"]) == mid for e in pl["p"]):
                return True
            if pl["l"] in seen:
                return False
            seen.add(pl["l"])
            for d in b.defs().get(pl["l"], []):
                if d[0] == "stmt":
                    rv = d[3]["rv"]
                    if rv["k"] in ("ref", "rawptr") and elem_op({"k": "copy", "pl": rv["pl"]}, depth - 1, seen):
                        return True
                    if rv["k"] in ("use", "cast") and elem_op(rv["ops"][0], depth - 1, seen):
                        return True
                elif d[0] == "call":
                    t = d[3]
                    nm = strip_generics(t.get("resolved") or t.get("callee") or "")
                    dn = strip_generics(t.get("callee") or "")
                    if ("ops::Index" in dn or nm.endswith("::index")) and len(t["args"]) >= 2:
                        il = _plain_local(t["args"][1])
                        if il is not None and _copy_root(b, il) == mid:
                            return True
                    elif len(t["args"]) == 1 and elem_op(t["args"][0], depth - 1, seen):
                        return True     # deref / clone / a one-argument accessor of the element (`file.largest_key()`)
            return False

        class _ElemOrigins(list):
            pass

        def elem_pred(os_):
            return isinstance(os_, _ElemOrigins)
        less, notless = _less_edges(b, elem_pred, lambda os_: not isinstance(os_, _ElemOrigins) and target_pred(os_), elem_op, _ElemOrigins)
        R.check(rule, fn + "|decisive-comparison", bool(less) and bool(notless), where(b),
                "the element at `mid` is compared with the target (`<`, or cmp + a match on the Ordering)", "strictly-less edges %d, other edges %d" % (len(less), len(notless)))
        # stores inside the loop
        lo_st, hi_st, bad = [], [], []
        for l_, acc in ((lo, lo_st), (hi, hi_st)):
            for d in b.defs().get(l_, []):
                if d[0] == "stmt" and not d[3]["pl"]["p"] and in_cycle(b, d[1]) and mid_bb in b.reachable(d[1]):
                    acc.append(d)
        for d in lo_st:
            rv = d[3]["rv"]
            src = _plain_local(rv["ops"][0]) if rv["k"] == "use" else None
            bd = _binop_def(b, src) if src is not None else ((rv["op"].replace("WithOverflow", ""), rv["ops"]) if rv["k"] == "binop" else None)
            plus1 = bool(bd) and bd[0] == "Add" and sorted([(_copy_root(b, _plain_local(o)) if _plain_local(o) is not None else None, _const_val(o)) for o in bd[1]], key=str) == sorted([(mid, None), (None, 1)], key=str)
            if not plus1:
                bad.append("lo is assigned something other than mid + 1 (line %s)" % d[3].get("line"))
            if not b.must_pass(d[1], through_edges=less, start=mid_bb):
                bad.append("lo moves on an edge where element(mid) < target is not established (line %s)" % d[3].get("line"))
        for d in hi_st:
            rv = d[3]["rv"]
            src = _plain_local(rv["ops"][0]) if rv["k"] == "use" else None
            if src is None or _copy_root(b, src) != mid:
                bad.append("hi is assigned something other than mid (line %s)" % d[3].get("line"))
            if not b.must_pass(d[1], through_edges=notless, start=mid_bb):
                bad.append("hi moves on an edge where element(mid) >= target is not established (line %s)" % d[3].get("line"))
        R.check(rule, fn + "|moves", bool(lo_st) and bool(hi_st) and not bad, where(b),
                "lo = mid + 1 only behind `element(mid) < target`; hi = mid only behind its negation", "; ".join(bad) or "lo stores %d, hi stores %d" % (len(lo_st), len(hi_st)))
        # progress: every way back to the loop condition passes one of the stores
        progress = bool(cond) and all(b.must_pass(c.bb, through_nodes=[d[1] for d in lo_st + hi_st], start=mid_bb) for c in cond
                                      if c.bb in b.reachable(mid_bb)) if (lo_st or hi_st) else False
        # (the condition block is the loop head: reaching it again from the probe means a trip round the loop)
        heads = [c.bb for c in cond]
        def back_to_head_without_store():
            stores = {d[1] for d in lo_st + hi_st}
            for h in heads:
                for s in b.succ(mid_bb) if mid_bb != h else []:
                    pass
                if h in b.reachable(mid_bb, removed_nodes=stores - {mid_bb}) and mid_bb not in stores and h != mid_bb:
                    # h reachable from the probe block with all store blocks removed: a trip without progress -- unless h is
                    # only reachable by leaving the function (it is not: h is in the cycle)
                    return True
            return False
        R.check(rule, fn + "|progress", not back_to_head_without_store(), where(b),
                "every trip round the loop moves lo or hi", "store blocks %s" % sorted({d[1] for d in lo_st + hi_st}))
        # the delivered position is lo
        outs = []
        for bb in range(b.n):
            if b.is_cleanup(bb) or in_cycle(b, bb) and mid_bb in b.reachable(bb):
                continue
            for st in b.blocks[bb]["stmts"]:
                if st["k"] != "assign":
                    continue
                fld = [e for e in st["pl"]["p"] if isinstance(e, dict) and "f" in e]
                is_out = (st["pl"]["l"] == 0) or bool(fld)
                if not is_out or st["rv"]["k"] not in ("use", "aggregate"):
                    continue
                for op in st["rv"]["ops"]:
                    l_ = _plain_local(op) if op.get("k") in ("copy", "move") else None
                    if l_ is not None and "usize" in b.local_ty(l_):
                        outs.append((_copy_root(b, l_), st.get("line")))
        from_lo = [o for o in outs if o[0] == lo]
        other = [o for o in outs if o[0] in (hi, mid)]
        R.check(rule, fn + "|delivers-lo", bool(from_lo) and not other, where(b), what + ": the position handed out after the loop is `lo`",
                "from lo %d, from hi/mid %d" % (len(from_lo), len(other)))
    R.floor(rule, "binary searches", n, 2)


# ------------------------------------------------------------------------------------------- BLK-1 the cursor of a block iterator
BLOCK_ITER = "<tables::block::BlockIter<K> as iterator::RainDbIterator>::"


def _len_origin(b, op):
    return any(o.kind == "call" and (o.name or "").endswith("::len") for o in origins(b, op))


def blk1_block_cursor(P, R, L, rule="BLK-1"):
    """tables::block::BlockIter keeps an index into the decoded entries; `index == len` is the only invalid position.
    seek_to_first stores 0, seek_to_last stores len - 1; next adds one and prev subtracts one only when the cursor is valid
    (prev additionally only when it is not 0); a step that cannot be made parks the cursor at `len` - an iterator that
    stays valid at the first (last) entry after a refused prev (next) makes every wrapper believe it moved: the two-level
    iterator never leaves the block, the caller's loop never ends or repeats the entry.  is_valid is `index < len`; current
    reads entries[index] only behind is_valid."""
    F = "current_index"
    got = 0
    # is_valid
    b = P.body(BLOCK_ITER + "is_valid")
    if b is None:
        R.missing_anchor(rule, BLOCK_ITER + "is_valid")
    else:
        R.analysed(b)
        got += 1
        ok = False
        for bb in range(b.n):
            for st in b.blocks[bb]["stmts"]:
                if st["k"] == "assign" and st["pl"]["l"] == 0 and st["rv"]["k"] == "binop":
                    op, (x, y) = st["rv"]["op"], st["rv"]["ops"]
                    xi = any(F in o.path for o in origins(b, x))
                    yi = any(F in o.path for o in origins(b, y))
                    if (op == "Lt" and xi and _len_origin(b, y)) or (op == "Gt" and yi and _len_origin(b, x)):
                        ok = True
        R.check(rule, BLOCK_ITER + "is_valid|index-below-len", ok, where(b), "is_valid() is `current_index < entries.len()`", "")
    # seek_to_first / seek_to_last
    for meth, want in (("seek_to_first", "zero"), ("seek_to_last", "len-1")):
        b = P.body(BLOCK_ITER + meth)
        if b is None:
            R.missing_anchor(rule, BLOCK_ITER + meth)
            continue
        R.analysed(b)
        got += 1
        sts = field_stores(b, F)
        good = []
        for (bb, i, st) in sts:
            rv = st["rv"]
            if want == "zero":
                good.append(rv["k"] == "use" and _const_val(rv["ops"][0]) == 0)
            else:
                src = _plain_local(rv["ops"][0]) if rv["k"] == "use" else None
                bd = _binop_def(b, src) if src is not None else None
                good.append(bool(bd) and bd[0] == "Sub" and _len_origin(b, bd[1][0]) and _const_val(bd[1][1]) == 1)
        every = bool(sts) and all(b.must_pass(r, through_nodes=[s[0] for s in sts]) for r in b.return_blocks())
        R.check(rule, BLOCK_ITER + meth + "|position", bool(sts) and all(good) and every, where(b),
                "%s stores %s in the cursor on every path" % (meth, "0" if want == "zero" else "len - 1"), "stores %d, as required %d" % (len(sts), sum(good)))
    # next / prev
    for meth, op, boundary in (("next", "Add", None), ("prev", "Sub", 0)):
        b = P.body(BLOCK_ITER + meth)
        if b is None:
            R.missing_anchor(rule, BLOCK_ITER + meth)
            continue
        R.analysed(b)
        got += 1
        sts = field_stores(b, F)
        step, park, other = [], [], []
        for (bb, i, st) in sts:
            rv = st["rv"]
            src = _plain_local(rv["ops"][0]) if rv["k"] == "use" else None
            bd = _binop_def(b, src) if src is not None else ((rv["op"].replace("WithOverflow", ""), rv["ops"]) if rv["k"] == "binop" else None)
            if bd and bd[0] == op and any(F in o.path for o in origins(b, bd[1][0])) and _const_val(bd[1][1]) == 1:
                step.append((bb, st))
            elif rv["k"] == "use" and _len_origin(b, rv["ops"][0]):
                park.append((bb, st))
            else:
                other.append((bb, st))
        # edges on which the cursor is known to be valid (is_valid() true) and, for prev, known not to be 0
        valid_e, zero_false_e, refused_e = [], [], []
        for c in b.calls():
            if not b.is_cleanup(c.bb) and (c.name or "").endswith("::is_valid") and c.args and any(o.kind == "param" and o.name == 1 for o in origins(b, c.args[0])):
                for t in bool_tests(b, c.dest["l"]):
                    valid_e += [(t.bb, x) for x in t.ok]
                    refused_e += [(t.bb, x) for x in t.err]
        for c in comparisons(b):
            lo, ro = c.lhs_origins(), c.rhs_origins()
            idx_l, idx_r = any(F in o.path for o in lo), any(F in o.path for o in ro)
            if boundary == 0 and ((idx_l and _const_val(c.rhs) == 0) or (idx_r and _const_val(c.lhs) == 0)) and c.op in ("eq", "ne"):
                zero_false_e += [(c.bb, t) for t in (c.false_t if c.op == "eq" else c.true_t)]
                refused_e += [(c.bb, t) for t in (c.true_t if c.op == "eq" else c.false_t)]
        bad = []
        for (bb, st) in step:
            if not b.must_pass(bb, through_edges=valid_e):
                bad.append("the cursor is moved without is_valid() having held (line %s)" % st.get("line"))
            if boundary == 0 and not b.must_pass(bb, through_edges=zero_false_e):
                bad.append("the cursor is decremented on an edge where it may be 0 (line %s)" % st.get("line"))
        # a refused step parks the cursor: from every refusing edge of the FIRST test region (before any step) every path to the
        # return passes a park store
        first_refusals = [(s, t) for (s, t) in refused_e if not any(s in b.reachable(sb) for (sb, _) in step)]
        for (s, t) in first_refusals:
            # the edge only refuses when it leads to a return without passing a step
            to_ret_without_step = any(r in b.reachable(t, removed_nodes={x[0] for x in step}) for r in b.return_blocks())
            if not to_ret_without_step:
                continue
            for r in b.return_blocks():
                if r in b.reachable(t, removed_nodes={x[0] for x in step} | {x[0] for x in park}) and t not in {x[0] for x in park}:
                    bad.append("a refused %s leaves the cursor where it was (edge bb%d->bb%d)" % (meth, s, t))
                    break
        R.check(rule, BLOCK_ITER + meth + "|step-discipline", len(step) == 1 and not other and bool(park) and not bad, where(b),
                "%s moves the cursor by exactly one behind is_valid()%s, and parks it at len when the step is refused" % (meth, " and `index != 0`" if boundary == 0 else ""),
                "; ".join(sorted(set(bad))) or "steps %d, parks %d, other stores %d" % (len(step), len(park), len(other)))
    # current
    b = P.body(BLOCK_ITER + "current")
    if b is not None:
        R.analysed(b)
        got += 1
        valid_e = []
        for c in b.calls():
            if not b.is_cleanup(c.bb) and (c.name or "").endswith("::is_valid"):
                for t in bool_tests(b, c.dest["l"]):
                    valid_e += [(t.bb, x) for x in t.ok]
        idx = [c for c in b.calls() if not b.is_cleanup(c.bb) and ("ops::Index" in (c.declared_name or "") or (c.name or "").endswith("::index"))]
        # `entries.get(current_index)` is the checked form of the same read: out of range is None by construction
        got_ = [c for c in b.calls() if not b.is_cleanup(c.bb) and (c.name or "").rsplit("::", 1)[-1] == "get" and ("slice" in (c.name or "") or "Vec" in (c.name or "")) and len(c.args) >= 2]
        ok = bool(idx or got_) and all(b.must_pass(c.bb, through_edges=valid_e) for c in idx) and \
            all(len(c.args) >= 2 and any(F in o.path for o in origins(b, c.args[1])) for c in idx + got_)
        R.check(rule, BLOCK_ITER + "current|reads-the-cursor-entry", ok, where(b), "current() reads entries[current_index] behind is_valid(), or entries.get(current_index)", "index sites %d, checked get sites %d" % (len(idx), len(got_)))
    else:
        R.missing_anchor(rule, BLOCK_ITER + "current")
    R.floor(rule, "block iterator methods examined", got, 6)


# ------------------------------------------------------------------------------------------- MRG-1 which child of the merge is current
MERGE = "versioning::file_iterators::MergingIterator"


def mrg1_merge_selection(P, R, L, rule="MRG-1"):
    """MergingIterator::find_smallest / find_largest choose the child that becomes current.  The choice (an Option<index>) is
    replaced only (a) while it is still None or (b) behind a STRICT key comparison in the direction of the function's
    role (candidate < chosen for the smallest, candidate > chosen for the largest), candidate and chosen key both read with
    current() from children of `self.iterators`; the loop walks `self.iterators` itself (no skip / take / filter), an index
    produced by a reversed walk is mapped back with `len - i - 1`, and the field `current_iterator_index` receives the choice
    on every path through a non-empty child list."""
    n = 0
    for meth, want in (("find_smallest", "lt"), ("find_largest", "gt")):
        fn = MERGE + "::" + meth
        b = P.body(fn)
        if b is None:
            R.missing_anchor(rule, fn)
            continue
        R.analysed(b)
        n += 1
        # the accumulator: the Option<usize> local stored into current_iterator_index
        sts = field_stores(b, "current_iterator_index")
        accs = set()
        for (bb, i, st) in sts:
            if st["rv"]["k"] == "use" and _plain_local(st["rv"]["ops"][0]) is not None:
                accs.add(_copy_root(b, _plain_local(st["rv"]["ops"][0])))
        acc = sorted(accs)[0] if len(accs) == 1 else None
        empties = []
        for c in b.calls():
            if not b.is_cleanup(c.bb) and (c.name or "").endswith("::is_empty"):
                for t in bool_tests(b, c.dest["l"]):
                    empties += [(t.bb, x) for x in t.ok]
        every = bool(sts) and all(b.must_pass(r, through_nodes=[s[0] for s in sts], through_edges=empties) for r in b.return_blocks())
        R.check(rule, fn + "|choice-is-installed", acc is not None and every, where(b),
                "current_iterator_index receives the chosen index on every path through a non-empty child list", "stores %d, accumulator locals %d" % (len(sts), len(accs)))
        if acc is None:
            continue
        # comparisons candidate vs chosen
        def from_children_current(os_):
            return any(o.kind == "call" and (o.name or "").endswith("::current") for o in os_)
        def chosen_key(os_):
            # current() of self.iterators[<index taken out of the accumulator>]
            for o in os_:
                if o.kind == "call" and (o.name or "").endswith("::current") and o.site is not None and o.site.args:
                    for oo in origins(b, o.site.args[0]):
                        if oo.kind == "call" and oo.site is not None and len(oo.site.args) >= 2 and ("ops::Index" in (oo.site.declared_name or "") or (oo.name or "").endswith("::index")):
                            il = oo.site.args[1]
                            if acc in {_copy_root(b, x) for x in roots(b, il)} or any(_copy_root(b, x) == acc for x in roots(b, il)):
                                return True
            return False
        def cand_key(os_):
            return from_children_current(os_) and not chosen_key(os_)
        edges_ok, edges_wrong, ncmp = [], [], 0
        for c in comparisons(b):
            e_ok = c.edges_where(want, cand_key, chosen_key, exact=True)
            e_any = c.edges_where("ne", cand_key, chosen_key)      # any strict relation between the two
            if e_ok or e_any:
                ncmp += 1
                edges_ok += e_ok
        none_edges = []
        for c in b.calls():
            if not b.is_cleanup(c.bb) and c.name in ("std::option::Option::is_none", "std::option::Option::is_some") and c.args and \
                    any(_copy_root(b, x) == acc for x in roots(b, c.args[0])):
                for t in bool_tests(b, c.dest["l"]):
                    none_edges += [(t.bb, x) for x in (t.ok if c.name.endswith("is_none") else t.err)]
        for bb in range(b.n):
            for st in b.blocks[bb]["stmts"]:
                if st["k"] == "assign" and st["rv"]["k"] == "discr" and not st["pl"]["p"] and not st["rv"]["pl"]["p"] and _copy_root(b, st["rv"]["pl"]["l"]) == acc:
                    for sb in _switches_on_local(b, st["pl"]["l"]):
                        t0 = switch_target(b.term(sb), 0)
                        if t0 is not None and t0 != switch_target(b.term(sb), 1):
                            none_edges.append((sb, t0))
        repl, bad = [], []
        for d in b.defs().get(acc, []):
            if d[0] != "stmt" or d[3]["pl"]["p"] or not in_cycle(b, d[1]):
                continue
            rv = _eff_rv(b, d[3]["rv"])
            if rv["k"] == "aggregate" and rv.get("variant") == "Some":
                repl.append((d[0], d[1], d[2], dict(d[3], rv=rv)))
                if not (b.must_pass(d[1], through_edges=edges_ok + none_edges)):
                    bad.append("the choice is replaced without `candidate %s chosen` (line %s)" % ("<" if want == "lt" else ">", d[3].get("line")))
        R.check(rule, fn + "|replaced-only-by-a-strictly-%s-key" % ("smaller" if want == "lt" else "larger"), bool(repl) and ncmp >= 1 and bool(edges_ok) and not bad, where(b),
                "inside the loop the choice changes only while it is None or behind `candidate %s chosen`" % ("<" if want == "lt" else ">"),
                "; ".join(bad) or "replacements %d, key comparisons %d" % (len(repl), ncmp))
        # the walk: iter() over self.iterators, possibly rev(), enumerate(); nothing that leaves children out
        names = [strip_generics(c.name or "") for c in b.calls() if not b.is_cleanup(c.bb)]
        partial = [x for x in names if x.rsplit("::", 1)[-1] in ("skip", "take", "filter", "step_by", "skip_while", "take_while")]
        # `.iter().rev().enumerate()` numbers the children from the far end (the index has to be mapped back);
        # `.iter().enumerate().rev()` keeps their own indices
        reversed_walk = False
        for c in b.calls():
            if not b.is_cleanup(c.bb) and strip_generics(c.name or "").endswith("::enumerate") and c.args:
                if any(o.kind == "call" and (o.name or "").endswith("::rev") for o in origins(b, c.args[0])):
                    reversed_walk = True
        idx_ok = True
        for d in repl:
            op0 = d[3]["rv"]["ops"][0]
            leaves = _leaves(b, op0)
            has_len = any(o.kind == "call" and (o.name or "").endswith("::len") for o in leaves)
            sub = _binop_def(b, _plain_local(op0)) if _plain_local(op0) is not None else None
            if reversed_walk and not (has_len and sub is not None and sub[0] == "Sub"):
                idx_ok = False
            if not reversed_walk and has_len:
                idx_ok = False
        R.check(rule, fn + "|walk-covers-every-child", not partial and idx_ok, where(b),
                "the loop visits every child (no skip/take/filter) and the stored index names the child just examined (`len - i - 1` for a reversed walk)",
                "partial adaptors %s; reversed %s; index mapping ok %s" % (partial, reversed_walk, idx_ok))
    R.floor(rule, "selection functions of the merging iterator", n, 2)


def _leaves(b, op, depth=6, seen=None):
    out = []
    seen = seen if seen is not None else set()
    for o in origins(b, op):
        if o.kind in ("binop", "unop") and o.extra and depth > 0:
            key = (o.extra[0], id(o.extra[1]))
            if key in seen:
                continue
            seen.add(key)
            for x in o.extra[1]["rv"]["ops"]:
                out += _leaves(b, x, depth - 1, seen)
        else:
            out.append(o)
    return out


# ------------------------------------------------------------------------------------------- TRIG-1 writers that wait for level-0 relief are waiting for something
def _const_num(op):
    if op.get("k") != "const":
        return None
    v = str(op.get("val") if op.get("val") is not None else op.get("text") or "")
    v = v.replace("f64", "").replace("_usize", "").replace("_u64", "")
    try:
        return float(v)
    except ValueError:
        return None


def trig1_level0_stall_has_a_due_compaction(P, R, L, rule="TRIG-1"):
    """DB::make_room_for_write delays / parks a writer when level 0 holds `>= N` FILES (N = the slow-down and stop triggers).  The
    writer is only ever released by a compaction of level 0, so one must be due whenever it waits: Version::finalize scores
    level 0 by its file COUNT divided by a constant D, requires_size_compaction is `score >= 1`, and D <= every N.  (Scoring
    level 0 by bytes, or a compaction trigger above the stop trigger, parks writers with nothing scheduled.)"""
    fin = P.body("versioning::version::Version::finalize")
    req = P.body("versioning::version::Version::requires_size_compaction")
    mr = P.body("db::DB::make_room_for_write")
    for nm, b in (("Version::finalize", fin), ("Version::requires_size_compaction", req), ("DB::make_room_for_write", mr)):
        if b is None:
            R.missing_anchor(rule, nm)
    if fin is None or req is None or mr is None:
        return
    R.analysed(fin, req, mr)
    # -- level-0 score = len(files[level]) / D on the `level == 0` edge
    zero_edges = []
    for c in comparisons(fin):
        if c.op in ("eq", "ne") and (_const_val(c.rhs) == 0 or _const_val(c.lhs) == 0):
            zero_edges += [(c.bb, t) for t in (c.true_t if c.op == "eq" else c.false_t)]
    D, by_count = None, False
    for bb in range(fin.n):
        if fin.is_cleanup(bb):
            continue
        for st in fin.blocks[bb]["stmts"]:
            if st["k"] == "assign" and st["rv"]["k"] == "binop" and st["rv"]["op"] == "Div" and zero_edges and \
                    fin.must_pass(bb, through_edges=zero_edges):
                num, den = st["rv"]["ops"]
                d = _const_num(den)
                if d is None:
                    for o in _leaves(fin, den):
                        if o.kind == "const" and o.extra is not None:
                            d = _const_num(o.extra)
                if d is not None:
                    D = d
                    by_count = any(o.kind == "call" and (o.name or "").endswith("::len") for o in _leaves(fin, num))
    R.check(rule, "versioning::version::Version::finalize|level-0-scored-by-file-count", D is not None and D >= 1 and by_count, where(fin),
            "on the `level == 0` edge the score is files[0].len() / D (D a constant >= 1)", "D = %s, numerator is a length: %s" % (D, by_count))
    # -- due means score >= 1
    thr = None
    for bb in range(req.n):
        for st in req.blocks[bb]["stmts"]:
            if st["k"] == "assign" and st["rv"]["k"] == "binop" and st["rv"]["op"] in ("Ge", "Gt", "Le", "Lt") and st["pl"]["l"] == 0:
                a, b_ = st["rv"]["ops"]
                if st["rv"]["op"] == "Ge" and _const_num(b_) is not None:
                    thr = _const_num(b_)
                elif st["rv"]["op"] == "Le" and _const_num(a) is not None:
                    thr = _const_num(a)
                else:
                    thr = float("inf")
    R.check(rule, "versioning::version::Version::requires_size_compaction|due-at-score-one", thr is not None and thr <= 1.0, where(req),
            "a size compaction is due when the score is >= 1 (or a smaller constant)", "threshold %s" % thr)
    # -- the stall thresholds
    ns, bad, lvl_ok = [], [], True
    for c in comparisons(mr):
        for (x, y, op) in ((c.lhs, c.rhs, c.op), (c.rhs, c.lhs, {"lt": "gt", "le": "ge", "gt": "lt", "ge": "le", "eq": "eq", "ne": "ne"}[c.op])):
            os_ = origins(mr, x)
            if not any(o.kind == "call" and (o.name or "").endswith("::num_files_at_level") for o in os_):
                continue
            for o in os_:
                if o.kind == "call" and (o.name or "").endswith("::num_files_at_level") and o.site is not None and len(o.site.args) >= 2 and _const_val(o.site.args[1]) != 0:
                    lvl_ok = False
            n_ = _const_num(y)
            if n_ is None:
                # the limit reaches the comparison through a local (the argument of an inlined helper): one constant, or nothing
                vs = {_const_num(o.extra) if (o.kind == "const" and o.extra is not None) else None for o in origins(mr, y)}
                if len(vs) == 1 and None not in vs:
                    n_ = vs.pop()
            if n_ is None or op not in ("ge", "gt"):
                bad.append("level-0 file count compared with a non-constant or in another direction (line %s)" % c.line)
                continue
            ns.append(n_ + (1 if op == "gt" else 0))
    ok = bool(ns) and not bad and lvl_ok and D is not None and thr is not None and all(n_ / D >= thr for n_ in ns)
    R.check(rule, "db::DB::make_room_for_write|a-stalled-writer-has-a-due-compaction", ok, where(mr),
            "every `level-0 files >= N` test that delays or parks a writer has N / D >= the due threshold, and counts level 0",
            "; ".join(bad) or "N = %s, D = %s, threshold %s, level argument is 0: %s" % (sorted(ns), D, thr, lvl_ok))
    R.floor(rule, "level-0 stall thresholds in make_room_for_write", len(ns), 2)


# ------------------------------------------------------------------------------------------- LST-1 link repairs of the intrusive list
def _chain_tokens(b, l, depth=40, seen=None):
    """tokens describing where a pointer-like local comes from, following plain definitions only (stores THROUGH the local, e.g.
    `(*p).next = v`, are not definitions of p): ('param', n), ('field', name), ('call', callee)"""
    from ..dataflow import TRANSPARENT
    seen = seen if seen is not None else set()
    if l in seen or depth <= 0:
        return set()
    seen.add(l)
    if 1 <= l <= b.nargs:
        return {("param", l)}
    out = set()
    for d in b.defs().get(l, []):
        if d[0] == "stmt":
            if d[3]["pl"]["p"]:
                continue
            rv = d[3]["rv"]
            src = None
            if rv["k"] in ("use", "cast") and rv["ops"][0].get("k") in ("copy", "move"):
                src = rv["ops"][0]["pl"]
            elif rv["k"] in ("ref", "rawptr"):
                src = rv["pl"]
            elif rv["k"] == "aggregate" and len(rv["ops"]) == 1 and rv["ops"][0].get("k") in ("copy", "move"):
                src = rv["ops"][0]["pl"]
            elif rv["k"] == "aggregate" and not rv["ops"]:
                out.add(("agg", rv.get("variant") or rv.get("adt") or ""))
            elif rv["k"] == "binop":
                out.add(("binop", rv["op"].replace("WithOverflow", "")))
            if src is not None:
                for e in src["p"]:
                    if isinstance(e, dict) and "f" in e and e.get("n"):
                        out.add(("field", e["n"]))
                out |= _chain_tokens(b, src["l"], depth - 1, seen)
        elif d[0] == "call":
            t = d[3]
            nm = strip_generics(t.get("resolved") or t.get("callee") or "")
            dn = strip_generics(t.get("callee") or "")
            if (nm in TRANSPARENT or dn in TRANSPARENT or nm.endswith(("::as_ref", "::as_mut", "::clone", "::cloned", "::map"))) and t["args"] and t["args"][0].get("k") in ("copy", "move"):
                if nm.endswith("::map"):
                    out.add(("call", "map"))
                for e in t["args"][0]["pl"]["p"]:
                    if isinstance(e, dict) and "f" in e and e.get("n"):
                        out.add(("field", e["n"]))
                out |= _chain_tokens(b, t["args"][0]["pl"]["l"], depth - 1, seen)
            else:
                out.add(("call", nm.rsplit("::", 2)[-2] + "::" + nm.rsplit("::", 1)[-1] if nm.count("::") >= 2 else nm))
                for a in t["args"][:1]:
                    if a.get("k") in ("copy", "move"):
                        sub = _chain_tokens(b, a["pl"]["l"], depth - 1, seen)
                        out |= {("via", x) for x in sub if x[0] == "field"} | {x for x in sub if x[0] == "param"}
                        for e in a["pl"]["p"]:
                            if isinstance(e, dict) and "f" in e and e.get("n"):
                                out.add(("via", ("field", e["n"])))
    return out


LIST = "utils::linked_list::LinkedList::<T>::"


def _link_stores(b):
    """(field, tokens of the base pointer, tokens of the value, bb, stmt) for every store to a list / node link field"""
    out = []
    for fld in ("head", "tail", "length", "next", "prev"):
        for (bb, i, st) in field_stores(b, fld):
            if b.is_cleanup(bb):
                continue
            base = _chain_tokens(b, st["pl"]["l"])
            val = set()
            rv = _eff_rv(b, st["rv"])
            for op in rv.get("ops", []):
                if op.get("k") in ("copy", "move"):
                    for e in op["pl"]["p"]:
                        if isinstance(e, dict) and "f" in e and e.get("n"):
                            val.add(("field", e["n"]))
                    val |= _chain_tokens(b, op["pl"]["l"])
            if rv["k"] == "aggregate" and not rv.get("ops"):
                val.add(("agg", rv.get("variant") or ""))
            if rv["k"] == "binop":
                val.add(("binop", rv["op"].replace("WithOverflow", "")))
            out.append((fld, base, val, bb, st))
    return out


def lst1_link_repairs(P, R, L, rule="LST-1"):
    """utils::linked_list::LinkedList (the version list, the snapshot list, the LRU lists): remove_node unlinks exactly the node it is
    given - predecessor.next = node.next (or head = node.next when there is no predecessor), successor.prev = node.prev (or
    tail = predecessor when there is no successor), length - 1 on every path; push_node appends - node.prev = old tail,
    node.next = None, old tail.next = node (or head = node for an empty list), tail = node, length + 1.  A repair that is
    left out leaves a removed node reachable (a released version keeps its files alive; iteration from the head misses
    every version pushed after a stale tail)."""
    rm = P.body(LIST + "remove_node")
    pn = P.body(LIST + "push_node")
    if rm is None:
        R.missing_anchor(rule, LIST + "remove_node")
    if pn is None:
        R.missing_anchor(rule, LIST + "push_node")
    n = 0
    if rm is not None:
        R.analysed(rm)
        S = _link_stores(rm)
        # the predecessor is reached through the node's `prev` link (a Weak that has to be upgraded: `Weak::upgrade(w)`, `and_then(Weak::upgrade)`)
        is_prev_node = lambda t: ("call", "Weak::upgrade") in t or (("via", ("field", "prev")) in t and any(x[0] == "call" for x in t))
        is_next_node = lambda t: ("field", "next") in t and ("param", 2) in t and not is_prev_node(t)
        from_target = lambda t, f: (("field", f) in t or ("via", ("field", f)) in t) and ("param", 2) in t
        # None edges of the two Options the repairs branch on
        def none_edges(pred):
            es = []
            for bb in range(rm.n):
                for st in rm.blocks[bb]["stmts"]:
                    if st["k"] == "assign" and st["rv"]["k"] == "discr" and not st["pl"]["p"]:
                        tk = _chain_tokens(rm, st["rv"]["pl"]["l"]) | {("field", e["n"]) for e in st["rv"]["pl"]["p"] if isinstance(e, dict) and "f" in e and e.get("n")}
                        if pred(tk):
                            for sb in _switches_on_local(rm, st["pl"]["l"]):
                                t0 = switch_target(rm.term(sb), 0)
                                if t0 is not None and t0 != switch_target(rm.term(sb), 1):
                                    es.append((sb, t0))
            return es
        no_prev = none_edges(lambda t: is_prev_node(t) or (("field", "prev") in t and ("param", 2) in t) or ("via", ("field", "prev")) in t)
        no_next = none_edges(lambda t: ("field", "next") in t and ("param", 2) in t and not is_prev_node(t))
        need = [
            ("predecessor.next = node.next", [s for s in S if s[0] == "next" and is_prev_node(s[1]) and from_target(s[2], "next")], None),
            ("head = node.next (no predecessor)", [s for s in S if s[0] == "head" and ("param", 1) in s[1] and from_target(s[2], "next")], no_prev),
            ("successor.prev = node.prev", [s for s in S if s[0] == "prev" and is_next_node(s[1]) and from_target(s[2], "prev") and not is_prev_node(s[2])], None),
            ("tail = predecessor (no successor)", [s for s in S if s[0] == "tail" and ("param", 1) in s[1] and is_prev_node(s[2])], no_next),
        ]
        for what, sts, guard in need:
            n += 1
            ok = len(sts) >= 1
            det = "stores %d" % len(sts)
            if ok and guard is not None:
                ok = bool(guard) and all(rm.must_pass(s[3], through_edges=guard) for s in sts)
                det += "; behind the None edge: %s" % ok
            R.check(rule, LIST + "remove_node|" + what.split(" (")[0].replace(" ", ""), ok, where(rm), what, det)
        # both branches of each repair exist on every path: every return passes (pred.next store or head store) and (succ.prev store or tail store)
        a = [s[3] for s in need[0][1] + need[1][1]]
        c = [s[3] for s in need[2][1] + need[3][1]]
        ln = [s for s in S if s[0] == "length" and ("binop", "Sub") in s[2]]
        every = bool(a) and bool(c) and bool(ln) and all(rm.must_pass(r, through_nodes=a) and rm.must_pass(r, through_nodes=c) and rm.must_pass(r, through_nodes=[s[3] for s in ln])
                                                          for r in rm.return_blocks())
        other = [s for s in S if s not in need[0][1] + need[1][1] + need[2][1] + need[3][1] + ln]
        R.check(rule, LIST + "remove_node|every-path-repairs-both-sides", every and not other, where(rm),
                "every path repairs the forward link, the backward link and the length, and writes no other link",
                "forward %d, backward %d, length %d, other link stores %d" % (len(a), len(c), len(ln), len(other)))
    if pn is not None:
        R.analysed(pn)
        S = _link_stores(pn)
        node = lambda t: ("param", 2) in t and not (("field", "tail") in t)
        old_tail = lambda t: ("field", "tail") in t and ("param", 1) in t
        need = [
            ("node.prev = old tail", [s for s in S if s[0] == "prev" and node(s[1]) and (old_tail(s[2]) or (("via", ("field", "tail")) in s[2]) or (("call", "map") in s[2] and ("field", "tail") in s[2]))]),
            ("node.next = None", [s for s in S if s[0] == "next" and node(s[1]) and ("agg", "None") in s[2]]),
            ("old tail.next = node", [s for s in S if s[0] == "next" and old_tail(s[1]) and ("param", 2) in s[2]]),
            ("head = node (empty list)", [s for s in S if s[0] == "head" and ("param", 1) in s[1] and ("param", 2) in s[2]]),
            ("tail = node", [s for s in S if s[0] == "tail" and ("param", 1) in s[1] and ("param", 2) in s[2]]),
            ("length + 1", [s for s in S if s[0] == "length" and ("binop", "Add") in s[2]]),
        ]
        for what, sts in need:
            n += 1
            R.check(rule, LIST + "push_node|" + what.split(" (")[0].replace(" ", ""), len(sts) >= 1, where(pn), what, "stores %d" % len(sts))
        fwd = [s[3] for s in need[2][1] + need[3][1]]
        every = bool(fwd) and all(pn.must_pass(r, through_nodes=fwd) and pn.must_pass(r, through_nodes=[s[3] for s in need[4][1]]) and
                                  pn.must_pass(r, through_nodes=[s[3] for s in need[5][1]]) and pn.must_pass(r, through_nodes=[s[3] for s in need[0][1]])
                                  for r in pn.return_blocks())
        R.check(rule, LIST + "push_node|every-path-links-the-node", every, where(pn), "every path links the node behind the old tail (or as head), makes it the tail and counts it", "")
    R.floor(rule, "link repairs examined", n, 10)


# ------------------------------------------------------------------------------------------- ORD-23 the log reader's position follows the file cursor
READ_PHYS = "logs::LogReader::read_physical_record"


def ord23_reader_position_follows_the_file(P, R, L, rule="ORD-23"):
    """LogReader::read_physical_record keeps two positions next to the file's own cursor: `current_cursor_position` (compared
    with the file length to decide whether a log may be re-used) and `current_block_offset` (where the 32 KiB block ends
    and a trailer has to be skipped).  Once a fragment was read COMPLETELY (the `bytes read >= expected` edge of the payload
    read) the file cursor stands behind it, whatever the parser then says about it - so from that edge every path to a
    return, the error returns of the parser included, passes a store to each of the two fields.  A fragment that fails
    its checksum is skipped by read_record; if it is not counted the reader is `payload length` bytes behind the file
    for the rest of the log, misses the block trailer and loses the intact records of the following blocks (defect D21)."""
    from ..rules import result_tests
    b = P.body(READ_PHYS)
    if b is None:
        return R.missing_anchor(rule, READ_PHYS)
    R.analysed(b)
    reads = [c for c in b.calls() if not b.is_cleanup(c.bb) and (c.declared_name or c.name or "").endswith("::read") and "read_exact" not in (c.name or "")]
    reads.sort(key=lambda c: c.line or 0)
    if len(reads) < 2:
        return R.check(rule, READ_PHYS + "|shape", False, where(b), "a header read followed by a payload read", "%d short-read-capable reads" % len(reads))
    payload = reads[-1]
    n_is = lambda os_: any(o.kind == "call" and o.site is not None and o.site.bb == payload.bb for o in os_)
    full = []
    for c in comparisons(b):
        full += c.edges_where("ge", n_is, lambda os_: True)
    bad = []
    for fld in ("current_cursor_position", "current_block_offset"):
        sts = [s[0] for s in field_stores(b, fld) if not b.is_cleanup(s[0])]
        for (sb, t) in full:
            for r in b.return_blocks():
                if r in b.reachable(t) and r in b.reachable(t, removed_nodes=set(sts) - {t}) and t not in sts:
                    bad.append("a return is reachable from the complete-read edge (bb%d->bb%d) without a store to %s" % (sb, t, fld))
                    break
    R.check(rule, READ_PHYS + "|a-completely-read-fragment-is-always-counted", bool(full) and not bad, where(b),
            "from the `payload bytes read >= expected` edge every path to a return (parse errors included) advances current_cursor_position and current_block_offset",
            "; ".join(sorted(set(bad))) or "complete-read edges %d" % len(full))


# ------------------------------------------------------------------------------------------- ORD-18b a pin that the client releases
def ord18b_client_release_collects(P, R, L, rule="ORD-18b"):
    """DB::new_iterator pins the current version for as long as the client keeps the iterator; the clean-up registered on the
    iterator unlinks the version (release_version).  When that was the last reference to a superseded version its table files
    are dead from that moment, so the clean-up must also run (or schedule) DB::remove_obsolete_files - otherwise a file merged
    away while the iterator was open stays in the directory of a fully quiesced database until the next flush, table
    compaction or open (`nothing dead kept`).  ORD-18 is the same obligation for the pins of a compaction."""
    RELEASE = "versioning::version_set::VersionSet::release_version"
    GC = ("db::DB::remove_obsolete_files", "compaction::worker::CompactionWorker::schedule_task")
    n = 0
    for p, b in sorted(P.bodies.items()):
        if b.kind == "closure":
            continue
        for c in b.calls():
            if b.is_cleanup(c.bb) or c.name != "versioning::file_iterators::MergingIterator::register_cleanup_method" or len(c.args) < 2:
                continue
            cps = set(b.closure_of_operand(c.args[1])) | {o.name for o in origins(b, c.args[1]) if o.kind == "agg" and "{closure" in (o.name or "")}
            for cp in sorted(cps):
                cb = P.bodies.get(cp)
                if cb is None:
                    continue
                R.analysed(cb)
                if not P.fn_reaches(cp, [RELEASE], sync_only=True):
                    continue
                n += 1
                ok = P.fn_reaches(cp, list(GC), sync_only=True)
                R.check(rule, "%s|clean-up-releases-a-version-without-collecting" % cp.split("::{closure")[0], ok, "%s:%s" % (cb.file, cb.line_lo),
                        "a clean-up that releases a version pin also reaches remove_obsolete_files (or schedules the collector)",
                        "reaches release_version; reaches a collector: %s" % ok)
    R.floor(rule, "iterator clean-ups that release a version", n, 1)


# ------------------------------------------------------------------------------------------- FS-3 the in-memory file system's rename / remove_file
MEMFS = "<fs::fs_mem::InMemoryFileSystem as fs::traits::FileSystem>::"


def _from_param(b, op, n, depth=3):
    """the operand is parameter n, possibly converted by one-argument calls (to_path_buf, to_owned, PathBuf::from, ...)"""
    for o in origins(b, op):
        if o.kind == "param" and o.name == n:
            return True
        if o.kind == "call" and o.site is not None and len(o.site.args) == 1 and depth > 0 and _from_param(b, o.site.args[0], n, depth - 1):
            return True
    return False


def fs3_memory_rename_and_remove(P, R, L, rule="FS-3"):
    """fs_mem (DbOptions::with_memory_env, and what every fault-injection wrapper sits on): rename takes the file out of the map
    under `from` and files THAT file under `to` (replacing whatever was there: the atomic CURRENT switch), reporting Ok only
    when the source existed; remove_file takes `path` out of the map and reports Ok only when something was removed."""
    from ..rules import _switches_on_local
    n = 0
    for meth in ("rename", "remove_file"):
        b = P.body(MEMFS + meth)
        if b is None:
            R.missing_anchor(rule, MEMFS + meth)
            continue
        R.analysed(b)
        n += 1
        rem = [c for c in b.calls() if not b.is_cleanup(c.bb) and (c.name or "").endswith("HashMap::remove") and len(c.args) >= 2]
        by_src = [c for c in rem if _from_param(b, c.args[1], 2)]
        from ..rules import option_tests
        some_e, none_e = [], []
        for c in by_src:
            for t in option_tests(b, c.dest["l"]):
                if b.is_cleanup(t.bb) or set(t.ok) == set(t.err):
                    continue
                some_e += t.ok_edges()
                none_e += t.err_edges()
        oks = [bb for bb in range(b.n) if not b.is_cleanup(bb) for st in b.blocks[bb]["stmts"]
               if st["k"] == "assign" and st["pl"]["l"] == 0 and _eff_rv(b, st["rv"]).get("variant") == "Ok"]
        ok_only_when_found = bool(by_src) and bool(oks) and bool(some_e) and all(b.must_pass(x, through_edges=some_e) for x in oks)
        if meth == "remove_file":
            R.check(rule, MEMFS + meth + "|removes-the-named-file", ok_only_when_found and len(rem) == len(by_src), where(b),
                    "remove_file removes `path` from the map and returns Ok only on the edge where an entry was removed", "removals %d (by the path argument %d), Ok sites %d" % (len(rem), len(by_src), len(oks)))
            continue
        ins = [c for c in b.calls() if not b.is_cleanup(c.bb) and (c.name or "").endswith("HashMap::insert") and len(c.args) >= 3]
        good = [c for c in ins if _from_param(b, c.args[1], 3) and
                any(o.kind == "call" and o.site is not None and o.site.bb in {r.bb for r in by_src} for o in origins(b, c.args[2]))]
        moved = bool(good) and len(good) == len(ins) and all(b.must_pass(x, through_nodes=[c.bb for c in good]) for x in oks)
        R.check(rule, MEMFS + meth + "|moves-the-file", ok_only_when_found and moved and len(rem) == len(by_src), where(b),
                "rename removes `from`, inserts the removed file under `to`, and returns Ok only when both happened",
                "removals %d (by `from` %d), inserts %d (of the removed file under `to` %d), Ok sites %d" % (len(rem), len(by_src), len(ins), len(good), len(oks)))
    R.floor(rule, "in-memory file system methods examined", n, 2)


# ------------------------------------------------------------------------------------------- GRD-6b end-of-log is only ever claimed at the end of the file
def grd6b_eof_only_from_a_short_read(P, R, L, rule="GRD-6"):
    """In the log reader `ErrorKind::UnexpectedEof` means "the file ends here" - read_record turns it into a clean end of the
    log, also for the manifest reader that reports every other damage.  So the value is constructed only on the edge where a
    read came back short (`bytes read < expected`).  A content test that is mapped to the same kind (an all-zero header, an
    implausible length, ...) makes records that FOLLOW such bytes disappear without an error."""
    n = 0
    for fn in (READ_PHYS, "logs::LogReader::read_record"):
        b = P.body(fn)
        if b is None:
            R.missing_anchor(rule, fn)
            continue
        R.analysed(b)
        mk = []
        for bb in range(b.n):
            if b.is_cleanup(bb):
                continue
            for st in b.blocks[bb]["stmts"]:
                if st["k"] == "assign" and st["rv"]["k"] == "aggregate" and (st["rv"].get("adt") or "").endswith("io::ErrorKind") and st["rv"].get("variant") == "UnexpectedEof":
                    # a constructed value (not a pattern): it is moved somewhere
                    mk.append((bb, st))
        reads = [c for c in b.calls() if not b.is_cleanup(c.bb) and (c.declared_name or c.name or "").endswith("::read") and "read_exact" not in (c.name or "")]
        short = []
        for r in reads:
            n_is = lambda os_, r=r: any(o.kind == "call" and o.site is not None and o.site.bb == r.bb for o in os_)
            for c in comparisons(b):
                short += c.edges_where("lt", n_is, lambda os_: True, exact=True)
        bad = ["UnexpectedEof constructed at line %s outside a short-read edge" % st.get("line") for (bb, st) in mk if not b.must_pass(bb, through_edges=short)]
        n += len(mk)
        R.check(rule, fn + "|eof-only-from-a-short-read", not bad, where(b),
                "ErrorKind::UnexpectedEof is constructed only behind `bytes read < expected` of a file read", "; ".join(bad) or "constructions %d, short-read edges %d" % (len(mk), len(short)))
    R.floor(rule, "constructions of ErrorKind::UnexpectedEof in the log reader", n, 2)


# ------------------------------------------------------------------------------------------- ENUM-1 a tag decoder inverts the enum's discriminants
TAG_DECODERS = [
    "<key::Operation as std::convert::TryFrom<u8>>::try_from",
    "<logs::BlockType as std::convert::TryFrom<u8>>::try_from",
    "<config::TableFileCompressionType as std::convert::TryFrom<u8>>::try_from",
    "<versioning::version_manifest::ManifestFieldTags as std::convert::TryFrom<u32>>::try_from",
]


def enum1_tag_decoders(P, R, L, rule="ENUM-1"):
    """Every persisted enum is written as its discriminant (`op as u8`, `tag as u32`) and read back with a hand-written
    `TryFrom<integer>`: each arm `v => Variant` of the decoder must name the variant whose discriminant is v, and every
    variant must be decodable.  (Swapping two arms of `Operation` turns every stored Put into a Delete.)"""
    enums = P.facts.get("enums", {}) if hasattr(P, "facts") else {}
    n = 0
    for fn in TAG_DECODERS:
        b = P.body(fn)
        if b is None:
            R.missing_anchor(rule, fn)
            continue
        R.analysed(b)
        adt = fn.split(" as ")[0].lstrip("<")
        discr = {v: int(d) for (v, d) in enums.get(adt, [])}
        if not discr:
            R.check(rule, fn + "|discriminants-known", False, where(b), "the facts list the discriminants of %s" % adt, "none")
            continue
        arms, bad = {}, []
        for bb in range(b.n):
            t = b.term(bb)
            if b.is_cleanup(bb) or t["k"] != "switch" or t["discr"].get("k") not in ("copy", "move"):
                continue
            if not any(o.kind == "param" and o.name == 1 for o in origins(b, t["discr"])):
                continue
            for (v, tgt) in t["targets"]:
                # the first aggregate of the enum built on the way from this arm
                seen, todo, found = set(), [tgt], None
                while todo and found is None:
                    x = todo.pop(0)
                    if x in seen or b.is_cleanup(x):
                        continue
                    seen.add(x)
                    for st in b.blocks[x]["stmts"]:
                        if st["k"] == "assign" and st["rv"]["k"] == "aggregate" and st["rv"].get("adt") == adt:
                            found = st["rv"].get("variant")
                            break
                    if found is None and b.term(x)["k"] in ("goto",):
                        todo += b.succ(x)
                if found is None:
                    continue
                arms[int(v)] = found
                if discr.get(found) != int(v):
                    bad.append("%s => %s, but %s = %s" % (v, found, found, discr.get(found)))
        missing = sorted(set(discr) - set(arms.values()))
        n += 1
        R.check(rule, fn + "|arms-invert-the-discriminants", bool(arms) and not bad and not missing, where(b),
                "each arm `v => Variant` names the variant whose discriminant is v; every variant has an arm",
                "; ".join(bad) or ("variants without an arm: %s" % missing if missing else "%d arms" % len(arms)))
    R.floor(rule, "tag decoders examined", n, 4)


# ------------------------------------------------------------------------------------------- PROG-2 a rotation makes progress
def prog2_rotation_needs_a_non_empty_memtable(P, R, L, rule="PROG-2"):
    """DB::make_room_for_write loops until the write may proceed.  The rotation branch (memtable_ptr.swap) installs an EMPTY
    memtable and goes round again, so the loop only makes progress if an empty memtable is then accepted: unless the caller
    forced a flush, the rotation is reached only over the FALSE edge of `memtable.is_empty()`.  (The fixed overhead of an
    empty skip list can exceed a very small max_memtable_size: without that edge the first write rotates for ever - D23.)"""
    fn = "db::DB::make_room_for_write"
    b = P.body(fn)
    if b is None:
        return R.missing_anchor(rule, fn)
    R.analysed(b)
    swaps = [c for c in b.calls() if not b.is_cleanup(c.bb) and (c.name or "").startswith("arc_swap::ArcSwapAny") and (c.name or "").endswith("::swap")]
    non_empty, forced = [], []
    for c in b.calls():
        if not b.is_cleanup(c.bb) and (c.name or "").endswith("MemTable::is_empty"):
            for t in bool_tests(b, c.dest["l"]):
                non_empty += [(t.bb, x) for x in t.err]
    # the force flag is the bool parameter that the function itself clears after the rotation
    flags = [l for l in range(1, b.nargs + 1) if b.local_ty(l) == "bool"]
    for bb in range(b.n):
        t = b.term(bb)
        if b.is_cleanup(bb) or t["k"] != "switch" or t["discr"].get("k") not in ("copy", "move"):
            continue
        if any(r in flags for r in roots(b, t["discr"])):
            zero = switch_target(t, 0)
            forced += [(bb, x) for x in b.succ(bb) if x != zero and not b.is_cleanup(x)]
    bad = [c.line for c in swaps if not b.must_pass(c.bb, through_edges=non_empty + forced)]
    R.check(rule, fn + "|an-unforced-rotation-leaves-a-non-empty-memtable-behind", bool(swaps) and not bad, where(b),
            "the memtable is rotated only when a flush was forced or behind `!memtable.is_empty()` (an empty memtable always has room)",
            "rotation at line(s) %s reachable without either edge" % bad if bad else "rotations %d, non-empty edges %d, forced edges %d" % (len(swaps), len(non_empty), len(forced)))
    R.floor(rule, "memtable rotations in make_room_for_write", len(swaps), 1)


# ------------------------------------------------------------------------------------------- ORD-12b closing never depends on being the only owner of the worker
def ord12b_close_does_not_unwrap_shared_ownership(P, R, L, rule="ORD-12"):
    """Drop for DB must terminate and join the compaction thread whoever else still holds the worker: client iterators own a
    clone of the Arc<CompactionWorker> (read-triggered compactions) and may outlive the handle.  So on every path to the
    return stop_worker_thread is called, and nothing before it unwraps a value that is only Some / Ok while the reference
    count is one (Arc::get_mut, Arc::try_unwrap).  (D10: `Arc::get_mut(..).unwrap()` panicked in Drop while an iterator was
    alive - after the file lock was released, with the thread neither stopped nor joined.)"""
    fn = "<db::DB as std::ops::Drop>::drop"
    b = P.body(fn)
    if b is None:
        return R.missing_anchor(rule, fn)
    R.analysed(b)
    stops = [c for c in sites_reaching_stop(P, b)]
    every = bool(stops) and all(b.must_pass(r, through_nodes=[c.bb for c in stops]) for r in b.return_blocks())
    share = ("std::sync::Arc::get_mut", "std::sync::Arc::try_unwrap", "std::sync::Arc::into_inner", "std::rc::Rc::get_mut", "std::rc::Rc::try_unwrap")
    bad = []
    for c in b.calls():
        if b.is_cleanup(c.bb) or not c.args:
            continue
        if strip_generics(c.name or "").rsplit("::", 1)[-1] in ("unwrap", "expect", "unwrap_unchecked") and \
                any(o.kind == "call" and strip_generics(o.name or "") in share for o in origins(b, c.args[0], transparent=())):
            bad.append("line %s unwraps %s" % (c.line, sorted({strip_generics(o.name) for o in origins(b, c.args[0], transparent=()) if o.kind == "call"})))
    R.check(rule, fn + "|the-worker-is-stopped-whoever-else-holds-it", every and not bad, where(b),
            "every path through Drop calls stop_worker_thread, and no unwrap of a sole-ownership test (Arc::get_mut / try_unwrap) can panic before it",
            "; ".join(bad) or "stop sites %d, on every path: %s" % (len(stops), every))


def sites_reaching_stop(P, b):
    from ..rules import sites_reaching
    return [c for c in sites_reaching(P, b, ["compaction::worker::CompactionWorker::stop_worker_thread"]) if not b.is_cleanup(c.bb)]


# ------------------------------------------------------------------------------------------- GRD-37 a block handle is checked against the file before it is trusted
def grd37_block_handle_within_the_file(P, R, L, rule="GRD-37"):
    """Table::read_block_from_disk allocates a buffer of the size a block handle names.  The handle comes from the footer (48
    bytes without a checksum) or from an index entry, so before the allocation it is compared with the length of the file:
    the allocation is reached only over the edge on which a handle-derived bound is <= file.len().  (A damaged size varint
    asked for 2^63 bytes and the allocator aborted the process - no error, not even a panic that could be caught: D25.)"""
    fn = "tables::table::Table::read_block_from_disk"
    b = P.body(fn)
    if b is None:
        return R.missing_anchor(rule, fn)
    R.analysed(b)
    allocs = [c for c in b.calls() if not b.is_cleanup(c.bb) and strip_generics(c.name or "").rsplit("::", 1)[-1] in ("from_elem", "with_capacity", "resize", "reserve", "reserve_exact")
              and any(o.kind == "call" and (o.name or "").endswith(("BlockHandle::get_size", "BlockHandle::get_offset")) for a in c.args for o in _leaves_calls(b, a))]
    is_len = lambda os_: any(o.kind == "call" and (o.name or "").endswith("ReadonlyRandomAccessFile::len") for o in os_)
    inside = []
    for c in comparisons(b):
        if is_len(_deep(b, c.rhs)) and not is_len(_deep(b, c.lhs)):
            inside += _edges(c, "le")
        elif is_len(_deep(b, c.lhs)) and not is_len(_deep(b, c.rhs)):
            inside += _edges(c, "ge")
    bad = [c.line for c in allocs if not b.must_pass(c.bb, through_edges=inside)]
    R.check(rule, fn + "|handle-checked-against-the-file-length", bool(allocs) and bool(inside) and not bad, where(b),
            "the buffer for a block is allocated only behind `handle-derived end <= file.len()`",
            "allocation at line(s) %s not behind the length test" % bad if bad else "allocations sized by the handle %d, in-range edges %d" % (len(allocs), len(inside)))
    R.floor(rule, "handle-sized allocations in read_block_from_disk", len(allocs), 1)


def _edges(c, rel):
    """edges of comparison c on which `lhs rel rhs` holds (rel in le / ge, implied relations included)"""
    from ..rules import NEG, implies
    out = []
    if implies(c.op, rel):
        out += [(c.bb, t) for t in c.true_t]
    if implies(NEG[c.op], rel):
        out += [(c.bb, t) for t in c.false_t]
    return out


def _deep(b, op, depth=4):
    """origins of an operand with `?` / cast / conversion calls of one argument looked through"""
    out = []
    for o in origins(b, op):
        out.append(o)
        if o.kind == "call" and o.site is not None and len(o.site.args) == 1 and depth > 0:
            out += _deep(b, o.site.args[0], depth - 1)
    return out


def _leaves_calls(b, op, depth=5):
    """call origins of an arithmetic expression, looking through binops and through arithmetic helper calls (saturating_add, ...)"""
    out = []
    for o in _leaves(b, op):
        out.append(o)
        if o.kind == "call" and o.site is not None and depth > 0 and ("::num::" in (o.name or "") or (o.name or "").rsplit("::", 1)[-1] in ("min", "max")):
            for a in o.site.args:
                out += _leaves_calls(b, a, depth - 1)
    return out


# ------------------------------------------------------------------------------------------- MAN-2 the strict reader does not skip a fragment without a start
READ_RECORD = "logs::LogReader::read_record"


def man2_strict_reader_reports_orphan_fragments(P, R, L, rule="MAN-2"):
    """A Middle / Last fragment that does not continue a record is something no writer produces (not even one that dies between
    two fragments): the start of its record was damaged - e.g. the type byte of a Full record, which the fragment checksum
    does not cover (D11), flipped into Middle.  The write-ahead log skips it as documented; the reader used for the
    manifest (`report_damaged_records`) must not: from the `not assembling a record` edge of the Middle and Last arms the
    next physical read is reachable only over the FALSE edge of the reader's strict-mode flag (D24: a one-bit flip in the
    manifest dropped a version edit without any error and the healthy table it named was garbage-collected)."""
    b = P.body(READ_RECORD)
    if b is None:
        return R.missing_anchor(rule, READ_RECORD)
    R.analysed(b)
    enums = P.facts.get("enums", {})
    d = {v: int(x) for (v, x) in enums.get("logs::BlockType", [])}
    phys = [c for c in b.calls() if c.name == READ_PHYS and not b.is_cleanup(c.bb)]
    if "Middle" not in d or "Last" not in d or not phys:
        return R.check(rule, READ_RECORD + "|shape", False, where(b), "BlockType discriminants and the physical read are known", "%s, %d reads" % (sorted(d), len(phys)))
    arms = {}
    for bb in range(b.n):
        for st in b.blocks[bb]["stmts"]:
            if st["k"] == "assign" and st["rv"]["k"] == "discr" and not st["pl"]["p"] and not b.is_cleanup(bb) and \
                    any(isinstance(e, dict) and e.get("n") == "block_type" for e in st["rv"]["pl"]["p"]):
                for sb in _switches_on_local(b, st["pl"]["l"]):
                    for nm in ("Middle", "Last"):
                        t = switch_target(b.term(sb), d[nm])
                        if t is not None:
                            arms[nm] = t
    mode_false, mode_true = [], []
    for bb in range(b.n):
        t = b.term(bb)
        if b.is_cleanup(bb) or t["k"] != "switch" or t["discr"].get("k") not in ("copy", "move"):
            continue
        if b.local_ty(t["discr"]["pl"]["l"]) == "bool" and any(o.kind == "param" and o.name == 1 and o.path for o in origins(b, t["discr"])):
            z = switch_target(t, 0)
            mode_false.append((bb, z))
            mode_true += [(bb, x) for x in b.succ(bb) if x != z and not b.is_cleanup(x)]
    bad, n = [], 0
    flags = b.flag_locals() if hasattr(b, "flag_locals") else set()
    for nm, start in sorted(arms.items()):
        # the `are we assembling a record` test of this arm: the first switch on a bool LOCAL reachable from the arm
        seen, todo, orphan = set(), [start], []
        while todo:
            x = todo.pop(0)
            if x in seen or b.is_cleanup(x):
                continue
            seen.add(x)
            t = b.term(x)
            if t["k"] == "switch" and t["discr"].get("k") in ("copy", "move") and b.local_ty(t["discr"]["pl"]["l"]) == "bool" and \
                    not any(o.kind == "param" for o in origins(b, t["discr"])):
                orphan.append(switch_target(t, 0))
                continue
            if any(c.bb == x for c in phys):
                continue
            todo += b.succ(x)
        n += len(orphan)
        if not orphan:
            bad.append("%s arm: no test of the assembling flag found" % nm)
        for o in orphan:
            for c in phys:
                if c.bb in b.reachable(o) and not b.must_pass(c.bb, through_edges=mode_false, start=o):
                    bad.append("%s without a start: the next fragment is read without consulting the strict-mode flag" % nm)
    R.check(rule, READ_RECORD + "|orphan-fragment-is-damage-in-strict-mode", len(arms) == 2 and bool(mode_false) and not bad, where(b),
            "from the `not assembling` edge of the Middle / Last arms the next read_physical_record is reachable only over the false edge of the strict-mode flag",
            "; ".join(sorted(set(bad))) or "arms %s, orphan edges %d, strict-mode tests %d" % (sorted(arms), n, len(mode_false)))


# =========================================================================================== round 10 (module-focused seeds)

# ------------------------------------------------------------------------------------------- SNAP-1 one list node per snapshot
def snap1_one_node_per_snapshot(P, R, L, rule="SNAP-1"):
    """snapshots::SnapshotList: every new_snapshot pushes a node of its own onto the list and every delete_snapshot removes the
    node of the handle it was given, unconditionally.  A node shared by two handles (`nothing was written in between`) needs a
    release rule that counts references - and any such count is wrong for a shared node that is not the newest one: the
    survivor's state disappears from `oldest()` and a compaction drops what it still has to see."""
    ns = P.body("snapshots::SnapshotList::new_snapshot")
    ds = P.body("snapshots::SnapshotList::delete_snapshot")
    if ns is None or ds is None:
        return R.missing_anchor(rule, "SnapshotList::new_snapshot / delete_snapshot")
    R.analysed(ns, ds)
    is_list = lambda c, ms: "linked_list::LinkedList" in (c.name or "") and (c.name or "").rsplit("::", 1)[-1] in ms
    push = [c for c in ns.calls() if not ns.is_cleanup(c.bb) and is_list(c, ("push", "push_node"))]
    every = bool(push) and all(ns.must_pass(r, through_nodes=[c.bb for c in push]) for r in ns.return_blocks())
    # the handle that is returned wraps the node that was just pushed
    wraps = [c for c in ns.calls() if not ns.is_cleanup(c.bb) and (c.name or "") == "snapshots::Snapshot::new" and c.args]
    fresh = bool(wraps) and all(any(o.kind == "call" and o.site is not None and o.site.bb in {p.bb for p in push} for o in origins(ns, c.args[0])) and
                                not any(o.kind == "call" and (o.name or "").endswith(("::newest", "::oldest", "::tail", "::head")) for o in origins(ns, c.args[0]))
                                for c in wraps)
    R.check(rule, "snapshots::SnapshotList::new_snapshot|pushes-a-node-of-its-own", every and fresh, where(ns),
            "every path pushes a new node and the returned handle wraps exactly that node", "push sites %d (on every path %s), handles %d (all fresh %s)" % (len(push), every, len(wraps), fresh))
    rm = [c for c in ds.calls() if not ds.is_cleanup(c.bb) and is_list(c, ("remove_node",))]
    every_rm = bool(rm) and all(ds.must_pass(r, through_nodes=[c.bb for c in rm]) for r in ds.return_blocks())
    mine = bool(rm) and all(any(o.kind == "param" and o.name == 2 for o in _deep(ds, c.args[1])) for c in rm if len(c.args) > 1)
    R.check(rule, "snapshots::SnapshotList::delete_snapshot|removes-the-node-unconditionally", every_rm and mine, where(ds),
            "every path removes the node of the handle that was passed in", "remove sites %d (on every path %s, of the parameter %s)" % (len(rm), every_rm, mine))


# ------------------------------------------------------------------------------------------- PAIR-8c the turn-around of the merge asks is_valid()
def pair8c_turnaround_decided_by_is_valid(P, R, L, rule="PAIR-8"):
    """MergingIterator::prev, when it turns round, re-seeks every other child to the current key and then either steps it back
    (the child holds an entry >= the key) or puts it on its LAST entry (it holds none).  The two cases are told apart by
    the child's is_valid(): CachingIterator::current() keeps returning the entry it cached last after the child ran off
    its end, so `current().is_some()` sends an exhausted child down the step-back branch and it drops out of the backward
    merge.  seek_to_last() of a child is reached only over the FALSE edge of that is_valid(), prev() of a child inside the
    loop only over its TRUE edge."""
    fn = "<versioning::file_iterators::MergingIterator as iterator::RainDbIterator>::prev"
    b = P.body(fn)
    if b is None:
        return R.missing_anchor(rule, fn)
    R.analysed(b)
    CI = "<iterator::CachingIterator as iterator::RainDbIterator>::"
    tr, fl = [], []
    for c in b.calls():
        if not b.is_cleanup(c.bb) and (c.name or "") == CI + "is_valid":
            for t in bool_tests(b, c.dest["l"]):
                tr += t.ok_edges()
                fl += t.err_edges()
    last = [c for c in b.calls() if not b.is_cleanup(c.bb) and (c.name or "") == CI + "seek_to_last" and in_cycle(b, c.bb)]
    back = [c for c in b.calls() if not b.is_cleanup(c.bb) and (c.name or "") == CI + "prev" and in_cycle(b, c.bb)]
    bad = ["seek_to_last at line %s is not behind `!child.is_valid()`" % c.line for c in last if not b.must_pass(c.bb, through_edges=fl)]
    bad += ["prev at line %s is not behind `child.is_valid()`" % c.line for c in back if not b.must_pass(c.bb, through_edges=tr)]
    R.check(rule, fn + "|turnaround-decided-by-is-valid", bool(last) and bool(back) and not bad, where(b),
            "in the re-seek loop a child is stepped back behind is_valid() and put on its last entry behind !is_valid()", "; ".join(bad) or "seek_to_last sites %d, prev sites %d" % (len(last), len(back)))


# ------------------------------------------------------------------------------------------- OWN-15 who may say `not in this file`
NOT_FOUND_MAY_BE_BUILT_IN = {
    "tables::errors::ReadError": ("tables::table::Table::get",),
    "errors::RainDBError": ("<memtable::SkipListMemTable as memtable::MemTable>::get", "db::DB::get"),
}


def own15_who_may_say_not_found(P, R, L, rule="OWN-15"):
    """`KeyNotFound` makes the caller go on to the next older source (Version::get: the next file / level; DB::get: the next
    memtable / the tables).  It is therefore built only where a source was actually searched and did not hold the key:
    Table::get (index, filter, block), the memtable's get, and DB::get's final answer - never in the table cache or anywhere
    else on the way (a table file that cannot be opened, for whatever reason, is an error: answering `not in this file`
    serves the overwritten value from the file below)."""
    n = 0
    seen = {}
    for p, b in sorted(P.bodies.items()):
        if "as std::clone::Clone>::clone" in p or "as std::fmt::" in p:
            continue
        for bb in range(b.n):
            if b.is_cleanup(bb):
                continue
            for st in b.blocks[bb]["stmts"]:
                if st["k"] == "assign" and st["rv"]["k"] == "aggregate" and st["rv"].get("variant") == "KeyNotFound" and st["rv"].get("adt") in NOT_FOUND_MAY_BE_BUILT_IN:
                    n += 1
                    fnp = p.split("::{closure")[0]
                    seen.setdefault((fnp, st["rv"]["adt"]), st.get("line"))
    for (fnp, adt), line in sorted(seen.items()):
        b = P.body(fnp)
        R.check(rule, "%s|builds=%s::KeyNotFound" % (fnp, adt.rsplit("::", 1)[-1]), fnp in NOT_FOUND_MAY_BE_BUILT_IN[adt], "%s:%s" % (b.file if b is not None else "-", line),
                "KeyNotFound is built only in %s" % ", ".join(x.rsplit("::", 2)[-2] + "::" + x.rsplit("::", 1)[-1] for x in NOT_FOUND_MAY_BE_BUILT_IN[adt]), fnp)
    R.floor(rule, "constructions of KeyNotFound", n, 5)


# ------------------------------------------------------------------------------------------- ERR-5 an I/O error stays an I/O error
def err5_io_errors_keep_their_class(P, R, L, rule="ERR-5"):
    """Every `From<std::io::Error>` of the repository's error enums files the error under the variant that means `the operation
    failed` (IO), on every path and whatever its kind.  The log reader SKIPS what is classified as corruption / a parse
    problem (documented for the WAL): an io::Error of some particular kind re-filed there turns a failed read during
    replay into silently dropped records."""
    n = 0
    for p, b in sorted(P.bodies.items()):
        if "as std::convert::From<std::io::Error>>::from" not in p or b.kind == "closure":
            continue
        adt = p.split(" as ")[0].lstrip("<")
        R.analysed(b)
        n += 1
        built = []
        for bb in range(b.n):
            if b.is_cleanup(bb):
                continue
            for st in b.blocks[bb]["stmts"]:
                if st["k"] == "assign" and st["rv"]["k"] == "aggregate" and st["rv"].get("adt") == adt:
                    built.append((bb, st["rv"].get("variant")))
        kinds = [c for c in b.calls() if not b.is_cleanup(c.bb) and (c.name or "").endswith("io::Error::kind")]
        if adt.endswith("DBIOError"):
            ok = not any(t["k"] == "switch" for t in (b.term(x) for x in range(b.n) if not b.is_cleanup(x)))
            det = "struct conversion, branches: %s" % (not ok)
        else:
            io_blocks = [bb for (bb, v) in built if v == "IO"]
            ok = bool(io_blocks) and all(v == "IO" for (_, v) in built) and all(b.must_pass(r, through_nodes=io_blocks) for r in b.return_blocks())
            det = "variants built %s" % sorted({str(v) for (_, v) in built})
        R.check(rule, p + "|always-the-io-variant", ok, where(b), "an io::Error is converted to the IO variant of %s on every path" % adt.rsplit("::", 1)[-1], det)
    R.floor(rule, "From<io::Error> conversions", n, 5)


# ------------------------------------------------------------------------------------------- BLKW-1 entry headers go through the varint encoder
def blkw1_entry_header_through_the_codec(P, R, L, rule="BLKW-1"):
    """BlockBuilder::add_entry writes three lengths per entry and BlockReader::deserialize_entries reads them back with
    u32::decode_var (AGR-2 checks the codec kind and width site for site).  Every byte that add_entry puts into the block
    buffer is the output of the varint encoder, a slice of the key, or the value: no single byte is pushed by hand (a
    one-byte fast path `value <= 128 => push(value as u8)` writes 0x80 for 128, which the reader takes for a continuation
    byte - the rest of the block is misparsed)."""
    fn = "tables::block_builder::BlockBuilder::<K>::add_entry"
    b = P.body(fn)
    if b is None:
        return R.missing_anchor(rule, fn)
    R.analysed(b)
    def into_buffer(c):
        return bool(c.args) and any("buffer" in o.path for o in origins(b, c.args[0]))
    pushes = [c for c in b.calls() if not b.is_cleanup(c.bb) and strip_generics(c.name or "").endswith(("Vec::push", "Vec::insert")) and into_buffer(c)]
    exts = [c for c in b.calls() if not b.is_cleanup(c.bb) and strip_generics(c.name or "").rsplit("::", 1)[-1] in ("extend", "extend_from_slice", "append") and into_buffer(c)]
    enc = [c for c in exts if len(c.args) > 1 and any(o.kind == "call" and "encode_var" in (o.name or "") for o in origins(b, c.args[1]))]
    R.check(rule, fn + "|no-hand-written-bytes", not pushes and len(enc) >= 3, where(b),
            "the block buffer receives the three lengths as u32::encode_var output and is never pushed a single byte",
            "single-byte pushes at line(s) %s; varint writes %d of %d buffer writes" % ([c.line for c in pushes], len(enc), len(exts)))


# ------------------------------------------------------------------------------------------- AGR-5 filter index = offset / range on both sides
def agr5_filter_index_from_the_plain_offset(P, R, L, rule="AGR-5"):
    """The filter that covers a data block is chosen by `block offset / range size`, by the builder (notify_new_data_block, told
    the offset at which the NEXT block starts) and by the reader (key_may_match, given the handle's offset).  On both sides
    the dividend is the offset that was passed in, unchanged: an adjustment on one side only (the descriptor's 5 bytes
    added once more) files the keys of a block that starts just below a range boundary under the neighbouring filter."""
    n = 0
    for fn, argn in (("tables::filter_block_builder::FilterBlockBuilder::notify_new_data_block", 2), ("tables::filter_block::FilterBlockReader::key_may_match", 2)):
        b = P.body(fn)
        if b is None:
            R.missing_anchor(rule, fn)
            continue
        R.analysed(b)
        divs = []
        for bb in range(b.n):
            if b.is_cleanup(bb):
                continue
            for st in b.blocks[bb]["stmts"]:
                if st["k"] == "assign" and st["rv"]["k"] == "binop" and st["rv"]["op"] in ("Div", "Shr"):
                    divs.append(st)
        good = []
        for st in divs:
            os_ = origins(b, st["rv"]["ops"][0])
            good.append(bool(os_) and all(o.kind == "param" and o.name == argn and not o.path for o in os_))
        n += 1
        R.check(rule, fn + "|dividend-is-the-offset-as-given", bool(divs) and all(good), where(b),
                "the filter index is the offset parameter divided by the range size, with nothing added to or taken from the offset", "divisions %d, plain %d" % (len(divs), sum(good)))
    R.floor(rule, "filter index computations", n, 2)


# ------------------------------------------------------------------------------------------- TS-3 a finalized builder is not abandoned
def ts3_no_abandon_after_finalize(P, R, L, rule="TS-3"):
    """TableBuilder::finalize marks the file closed before it writes the filter, metaindex, index and footer; abandon asserts that
    the file is NOT closed.  So in no function is abandon() reachable after finalize() was called on the builder - also
    not on the path where finalize failed (the assertion would take down the compaction thread with the scheduled flag
    set: every waiter hangs)."""
    FIN, ABN = "tables::table_builder::TableBuilder::finalize", "tables::table_builder::TableBuilder::abandon"
    n = 0
    for p, b in sorted(P.bodies.items()):
        fins = [c for c in b.calls() if not b.is_cleanup(c.bb) and c.name == FIN]
        abns = [c for c in b.calls() if not b.is_cleanup(c.bb) and c.name == ABN]
        if not fins or not abns:
            continue
        R.analysed(b)
        n += 1
        bad = []
        for f_ in fins:
            if f_.target is None:
                continue
            reach = b.reachable(f_.target)
            for a in abns:
                if a.bb in reach and not (f_.bb in b.reachable(a.target) if a.target is not None else False and False):
                    bad.append("abandon at line %s is reachable after finalize at line %s" % (a.line, f_.line))
                elif a.bb in reach:
                    # both in one loop: acceptable only if the builder is replaced in between (not analysed) -> report
                    bad.append("abandon at line %s is reachable after finalize at line %s (loop)" % (a.line, f_.line))
        R.check(rule, p + "|abandon-never-follows-finalize", not bad, where(b), "no abandon() is reachable from behind a finalize() call", "; ".join(sorted(set(bad))) or "finalize sites %d, abandon sites %d" % (len(fins), len(abns)))
    R.floor(rule, "functions that both finalize and abandon a table builder", n, 1)


# ------------------------------------------------------------------------------------------- GRD-38 the group builder only fails where it cannot
def grd38_group_builder_errors_are_unreachable(P, R, L, rule="GRD-38"):
    """DB::apply_changes calls build_group_commit_batch with `?` while the calling writer is the head of the writer queue and has
    not been popped: an Err there returns without handing the queue on, and every later writer parks for ever (ORD-11 lists
    that `?` as its one exception).  The exception is sound only because the helper fails under exactly two conditions
    that its caller has excluded - an empty queue and a head without a batch: every Err the helper builds lies behind the
    None edge of `writer_queue.front()` or of the head's `maybe_batch()`."""
    fn = "db::DB::build_group_commit_batch"
    b = P.body(fn)
    if b is None:
        return R.missing_anchor(rule, fn)
    R.analysed(b)
    from ..rules import option_tests
    none_e = []
    for c in b.calls():
        if b.is_cleanup(c.bb):
            continue
        nm = c.name or ""
        if nm.endswith(("VecDeque::front", "VecDeque::<T, A>::front", "Writer::maybe_batch")) or nm.rsplit("::", 1)[-1] in ("front", "maybe_batch"):
            for t in option_tests(b, c.dest["l"]):
                none_e += t.err_edges()
        if nm.rsplit("::", 1)[-1] == "is_empty" and c.args and any("writer_queue" in o.path for o in origins(b, c.args[0])):
            for t in bool_tests(b, c.dest["l"]):
                none_e += t.ok_edges()      # `no head writer`, spelled as an emptiness test of the queue
    errs = [(bb, st.get("line")) for bb in range(b.n) if not b.is_cleanup(bb) for st in b.blocks[bb]["stmts"]
            if st["k"] == "assign" and st["pl"]["l"] == 0 and not st["pl"]["p"] and _eff_rv(b, st["rv"]).get("variant") == "Err"]
    # `?` inside the helper would be another source of Err
    tries = [c for c in b.calls() if not b.is_cleanup(c.bb) and (c.declared_name or "").endswith("FromResidual::from_residual")]
    bad = ["Err built at line %s is not behind `no head writer` / `head without a batch`" % ln for (bb, ln) in errs if not b.must_pass(bb, through_edges=none_e)]
    bad += ["`?` at line %s" % c.line for c in tries]
    R.check(rule, fn + "|fails-only-where-the-caller-excluded-it", bool(none_e) and not bad, where(b),
            "every Err of the helper lies behind the None edge of writer_queue.front() or maybe_batch()", "; ".join(bad) or "Err sites %d, None edges %d" % (len(errs), len(none_e)))


# ------------------------------------------------------------------------------------------- ITR-3 the collapse loops move one record at a time
def itr3_collapse_loops_only_step(P, R, L, rule="ITR-3"):
    """DatabaseIterator::find_next_client_entry / find_prev_client_entry collapse the records of the merged stream into client
    entries by looking at EVERY record in order: inside them the inner iterator is moved only by next() (resp. prev()).
    A re-seek shortcut (`skip the rest of this key`) lands on a record chosen by arithmetic on sequence numbers and steps
    over the one the snapshot has to see."""
    MI = "<versioning::file_iterators::MergingIterator as iterator::RainDbIterator>::"
    n = 0
    for fn, allowed in (("iterator::DatabaseIterator::find_next_client_entry", "next"), ("iterator::DatabaseIterator::find_prev_client_entry", "prev")):
        b = P.body(fn)
        if b is None:
            R.missing_anchor(rule, fn)
            continue
        R.analysed(b)
        n += 1
        moves = [c for c in b.calls() if not b.is_cleanup(c.bb) and (c.name or "").startswith(MI) and (c.name or "")[len(MI):] in ("seek", "seek_to_first", "seek_to_last", "next", "prev")]
        other = [c for c in moves if (c.name or "")[len(MI):] != allowed]
        R.check(rule, fn + "|moves-only-by-%s" % allowed, bool(moves) and not other, where(b), "the inner iterator is moved only by %s()" % allowed,
                "other movements: %s" % [(c.name or "")[len(MI):] + "@%s" % c.line for c in other] if other else "%d %s() sites" % (len(moves), allowed))
    R.floor(rule, "collapse loops examined", n, 2)


# ------------------------------------------------------------------------------------------- BLKR-1 the block reader parses the whole entry area
def blkr1_reader_consumes_every_entry(P, R, L, rule="BLKR-1"):
    """BlockReader::deserialize_entries walks the entry area of a block with a byte cursor.  It goes on while the cursor is below
    the end of the area (`cursor < buf.len()`, nothing added to either side): prefix compression also covers the 9-byte key
    trailer, so an entry can be as short as 4 bytes and any `at least N bytes left` condition silently drops a short last
    entry of a block (a tombstone with a shared trailer: the lookup falls through to the older file)."""
    fn = "tables::block::BlockReader::<K>::deserialize_entries"
    b = P.body(fn)
    if b is None:
        return R.missing_anchor(rule, fn)
    R.analysed(b)
    is_len = lambda os_: any(o.kind == "call" and (o.name or "").endswith("::len") and o.site is not None and o.site.args and
                             any(x.kind == "param" and x.name == 1 for x in origins(b, o.site.args[0])) for o in os_)
    conds, bad = [], []
    for c in comparisons(b):
        if not in_cycle(b, c.bb):
            continue
        lo, ro = c.lhs_origins(), c.rhs_origins()
        for (a_os, l_os, a_op, op) in ((lo, ro, c.lhs, c.op), (ro, lo, c.rhs, {"lt": "gt", "le": "ge", "gt": "lt", "ge": "le", "eq": "eq", "ne": "ne"}[c.op])):
            if not is_len(l_os) or is_len(a_os):
                continue
            # does this comparison decide whether the loop goes on?  (one of its edges leaves the cycle)
            leaves = [t for t in c.true_t + c.false_t if not (c.bb in b.reachable(t))]
            if not leaves:
                continue
            conds.append(c)
            if op != "lt":
                bad.append("the loop goes on under `cursor %s len` (line %s)" % (op, c.line))
            if any(o.kind in ("binop", "call") for o in a_os if not (o.kind == "call" and False)):
                if any(o.kind == "binop" for o in a_os):
                    # the cursor itself is `cursor += n` (a binop): only a comparison operand that is a fresh expression counts
                    l_ = _plain_local(a_op)
                    if l_ is None or not b.local_name(_copy_root(b, l_)):
                        bad.append("the cursor side of the loop condition is an expression, not the cursor (line %s)" % c.line)
    R.check(rule, fn + "|goes-on-while-cursor-below-the-end", bool(conds) and not bad, where(b),
            "the entry loop runs while `cursor < buf.len()`, with nothing added to the cursor or taken from the length", "; ".join(sorted(set(bad))) or "loop conditions %d" % len(conds))
