"""C11 — exactly the needed files are on disk: deletion guards, who may delete, pending outputs, version pins."""
from ..rules import (comparisons, bool_tests, origin_pred_call, origin_pred_field, sites_reaching, ok_guarded, in_cycle, result_tests)
from ..dataflow import origins
from ..lck import is_release_point, is_unlocked_fair
from .. import pair
from . import common as K

FS = "fs::traits::FileSystem::"
REMOVERS = {FS + "remove_file", FS + "remove_dir", FS + "remove_dir_all"}
STD_REMOVERS = {"std::fs::remove_file", "std::fs::remove_dir", "std::fs::remove_dir_all"}
RELEASE_VERSION = "versioning::version_set::VersionSet::release_version"
RELEASE_INPUTS = "compaction::manifest::CompactionManifest::release_inputs"
SET_INPUT_VERSION = "compaction::manifest::CompactionManifest::set_input_version"

ALLOWED_DELETERS = {
    "db::DB::remove_obsolete_files::{closure#0}": "the garbage collector's deleting section (guards: GRD-5)",
    "db::DB::destroy_database": "destroys the whole database under the lock (C17)",
    "db::DB::build_table_from_iterator": "removes the table file it has just built when it is unusable or empty",
    "db::DB::set_current_file": "removes its own temp file after a failed write/rename",
    "db::DB::initialize_as_new_db": "removes the manifest it has just created after a failed write",
    "versioning::version_set::VersionSet::log_and_apply": "removes the manifest it has just created after a failed write",
}


def grd5(P, R, L):
    R.clause("GRD-5", "in DB::remove_obsolete_files each push onto the deletion list is guarded by its liveness predicate: table/temp "
             "files by `!live_files.contains(n)`, WALs by `n < get_curr_wal_number()` and `n != maybe_prev_wal_number()`, manifests by "
             "`n < get_manifest_file_number()`; live_files = tables_in_use ∪ get_live_files(); get_live_files walks every version of "
             "the list")
    b = P.body(K.REMOVE_OBSOLETE)
    if b is None:
        return R.missing_anchor("GRD-5", K.REMOVE_OBSOLETE)
    R.analysed(b)
    pushes = [c for c in K.normal_sites(b, "std::vec::Vec::push") if "PathBuf" in " ".join(c.t.get("substs") or [])]
    R.floor("GRD-5", "pushes onto files_to_delete", len(pushes), 4)
    cmps = comparisons(b)
    is_curr = origin_pred_call("versioning::version_set::VersionSet::get_curr_wal_number")
    is_prev = origin_pred_call("versioning::version_set::VersionSet::maybe_prev_wal_number")
    is_man = origin_pred_call("versioning::version_set::VersionSet::get_manifest_file_number")
    other = lambda pred: (lambda os: not pred(os))
    e_wal_lt, e_wal_ne, e_man_lt = [], [], []
    for c in cmps:
        e_wal_lt += c.edges_where("lt", other(is_curr), is_curr, exact=True)
        e_wal_ne += c.edges_where("ne", other(is_prev), is_prev, exact=True)
        e_man_lt += c.edges_where("lt", other(is_man), is_man, exact=True)
    # the same test written with a combinator: `maybe_prev_wal_number().map_or(false, |prev| prev == n)` (or `.is_some_and(..)`):
    # the false edge of the call's result establishes "not the previous WAL"
    from .round12 import _value_comparisons
    for c in b.calls():
        nm = (c.name or "").rsplit("::", 1)[-1]
        if b.is_cleanup(c.bb) or nm not in ("map_or", "is_some_and") or c.dest["p"] or not c.args or not is_prev(origins(b, c.args[0])):
            continue
        if nm == "map_or" and not (len(c.args) == 3 and c.args[1].get("k") == "const" and str(c.args[1].get("val")) in ("false", "0")):
            continue
        cb = None
        for o in origins(b, c.args[-1]):
            if o.kind == "agg" and o.name and P.body(o.name) is not None:
                cb = P.body(o.name)
        if cb is None:
            continue
        R.analysed(cb)
        vcs = _value_comparisons(cb)
        if len(vcs) == 1 and vcs[0].op == "eq":
            sides = [origins(cb, vcs[0].lhs), origins(cb, vcs[0].rhs)]
            payload = [any(o.kind == "param" and o.name == 2 for o in s_) for s_ in sides]
            if payload.count(True) == 1 and any(o.kind == "binop" or o.kind == "call" for o in origins(cb, {"l": 0, "p": []})):
                for t in bool_tests(b, c.dest["l"]):
                    e_wal_ne += t.err_edges()
    # contains() tests on the live set
    e_not_live = []
    live_locals = set()
    for c in K.normal_sites(b, "std::collections::HashSet::contains"):
        rl = pair.roots(b, c.args[0])
        live_locals |= rl
        for t in bool_tests(b, c.dest["l"]):
            e_not_live += t.err_edges()
    counts = {"live": 0, "wal": 0, "manifest": 0}
    for p in pushes:
        g_live = bool(e_not_live) and b.must_pass(p.bb, through_edges=e_not_live)
        g_wal = bool(e_wal_lt) and b.must_pass(p.bb, through_edges=e_wal_lt) and _not_prev(b, p, e_wal_ne)
        g_man = bool(e_man_lt) and b.must_pass(p.bb, through_edges=e_man_lt)
        kind = "live" if g_live else "wal" if g_wal else "manifest" if g_man else None
        if kind:
            counts[kind] += 1
        R.check("GRD-5", K.REMOVE_OBSOLETE + "|push-guarded", kind is not None, p.where(),
                "the file is queued for deletion only under its liveness predicate",
                "guard class: %s (live=%s wal=%s manifest=%s)" % (kind, g_live, g_wal, g_man))
    R.check("GRD-5", K.REMOVE_OBSOLETE + "|guard-classes", counts["live"] >= 2 and counts["wal"] >= 1 and counts["manifest"] >= 1,
            K.where(b), "table and temp files use the live-set guard, WALs the WAL guard, manifests the manifest guard", str(counts))
    # live set provenance
    clones = [c for c in b.calls() if c.name == "<std::collections::HashSet<T, S, A> as std::clone::Clone>::clone" and not b.is_cleanup(c.bb)
              and any("tables_in_use" in o.path for o in origins(b, c.args[0]))]
    glf = K.normal_sites(b, "versioning::version_set::VersionSet::get_live_files")
    ins = [c for c in K.normal_sites(b, "std::collections::HashSet::insert")]
    # `live.extend(version_set.get_live_files())` is the loop of inserts in one call
    ext = [c for c in b.calls() if not b.is_cleanup(c.bb) and (c.name or "").endswith("::extend") and len(c.args) > 1 and
           any(o.kind == "call" and o.name == "versioning::version_set::VersionSet::get_live_files" for o in origins(b, c.args[1]))]
    fe = [c for c in b.calls() if not b.is_cleanup(c.bb) and (c.name or "").endswith("::for_each")]
    ok = bool(clones) and bool(glf) and (bool(ins) or bool(ext) or bool(fe))
    if ok:
        live = {c.dest["l"] for c in clones}
        from ..rules import forward_aliases
        la = set()
        for l in live:
            la |= forward_aliases(b, l)
        by_loop = bool(ins) and any(pair.roots(b, i.args[0]) & la for i in ins) and all(in_cycle(b, i.bb) for i in ins if pair.roots(b, i.args[0]) & la)
        by_extend = any(pair.roots(b, e.args[0]) & la for e in ext)
        by_for_each = _live_set_filled_by_for_each(P, b, la)
        ok = (by_loop or by_extend or by_for_each) and bool(live_locals & la)
    R.check("GRD-5", K.REMOVE_OBSOLETE + "|live-set", ok, K.where(b),
            "the set tested by contains() is the clone of tables_in_use extended in a loop with get_live_files()", "clones=%d get_live_files=%d inserts=%d" % (len(clones), len(glf), len(ins)))
    g = P.body("versioning::version_set::VersionSet::get_live_files")
    if g is None:
        R.missing_anchor("GRD-5", "VersionSet::get_live_files")
    else:
        R.analysed(g)
        it = [c for c in g.calls() if c.name == "utils::linked_list::LinkedList::iter" and any("versions" in o.path for o in origins(g, c.args[0]))]
        ins = K.normal_sites(g, "std::collections::HashSet::insert")
        # level range 0..MAX_NUM_LEVELS
        rng = None
        for bb in g.blocks:
            for st in bb["stmts"]:
                if st["k"] == "assign" and st["rv"]["k"] == "aggregate" and (st["rv"].get("adt") or "").endswith("ops::Range"):
                    ops = st["rv"]["ops"]
                    if all(o["k"] == "const" for o in ops):
                        rng = (ops[0].get("val"), ops[1].get("val"))
        n_levels = _const_value(P, "config::MAX_NUM_LEVELS")
        ok = bool(it) and bool(ins) and all(in_cycle(g, i.bb) for i in ins) and rng is not None and rng[0] == "0" and rng[1] == "7"
        R.check("GRD-5", g.path + "|all-versions-all-levels", ok, K.where(g),
                "get_live_files iterates every version of the list and levels 0..MAX_NUM_LEVELS (7)", "iter sites %d, level range %s" % (len(it), rng))


def _live_set_filled_by_for_each(P, b, la):
    """`version_set.get_live_files().into_iter().for_each(|f| { live.insert(f); })`: the loop of inserts as an iterator adapter - the
    receiver chain starts at get_live_files(), the closure written at the call site inserts its argument into the captured live set"""
    GLF = "versioning::version_set::VersionSet::get_live_files"
    for c in b.calls():
        if b.is_cleanup(c.bb) or not (c.name or "").endswith("::for_each") or len(c.args) != 2:
            continue
        recv, from_glf = [c.args[0]], False
        for _ in range(4):
            nxt = []
            for op in recv:
                for o in origins(b, op):
                    if o.kind == "call" and o.name == GLF:
                        from_glf = True
                    elif o.kind == "call" and o.site is not None and o.site.args and (o.name or "").rsplit("::", 1)[-1] in ("into_iter", "iter", "copied", "cloned"):
                        nxt.append(o.site.args[0])
            recv = nxt
        if not from_glf:
            continue
        for ao in origins(b, c.args[1]):
            cb = P.bodies.get(ao.name) if ao.kind == "agg" and ao.extra is not None else None
            if cb is None or cb.kind != "closure":
                continue
            fs = ao.extra[1]["rv"].get("fields") or []
            for i in cb.calls():
                if cb.is_cleanup(i.bb) or i.name != "std::collections::HashSet::insert" or len(i.args) != 2:
                    continue
                ups = [o.name for o in origins(cb, i.args[0]) if o.kind == "upvar"]
                arg_is_item = any(o.kind == "param" and o.name == 2 for o in origins(cb, i.args[1]))
                for u in ups:
                    if u in fs and len(fs) == len(ao.extra[1]["rv"]["ops"]) and arg_is_item and pair.roots(b, ao.extra[1]["rv"]["ops"][fs.index(u)]) & la:
                        return True
    return False


def _const_value(P, path):
    return None


def _not_prev(b, p, e_wal_ne):
    """the push is also behind `wal_number != prev_wal_number` (or the None arm of the match)"""
    if not e_wal_ne:
        return False
    # In the None arm is_being_compacted is the constant false; both arms merge into one bool that is
    # tested once. Passing the false edge of that test is what we require: e_wal_ne holds the edges of the
    # switch on which the Eq was false.
    return b.must_pass(p.bb, through_edges=e_wal_ne)


def _only_called_by_allowed(P, path, depth=3, seen=None):
    """a private helper extracted from an allowed deleter: every (static) caller is an allowed deleter or such a helper"""
    seen = seen or set()
    if path in seen or depth < 0:
        return False
    seen.add(path)
    callers = [c for c in P.callers_of(lambda c: c.callee == path, as_written=True) if not c.body.is_cleanup(c.bb)]
    if not callers:
        return False
    return all(c.body.path in ALLOWED_DELETERS or _only_called_by_allowed(P, c.body.path, depth - 1, seen) for c in callers)


def own4(P, R, L):
    R.clause("OWN-4", "FileSystem::{remove_file, remove_dir, remove_dir_all} are called only from the garbage collector's deleting "
             "section, destroy_database, and the four functions that remove a file they have just created; std::fs::remove_* only "
             "inside the fs module")
    n = 0
    for p, b in sorted(P.bodies_as_written.items()):     # who-may-call: the function-at-a-time view
        for c in b.calls():
            if b.is_cleanup(c.bb):
                continue
            if c.declared_name in REMOVERS and c.t.get("dyn"):
                n += 1
                ok = p in ALLOWED_DELETERS or p == _gc_deleting_closure(P) or _only_called_by_allowed(P, p)
                R.check("OWN-4", "%s|calls=%s" % (p, c.declared_name.rsplit("::", 1)[1]), ok, c.where(),
                        "only the listed owners delete files", ALLOWED_DELETERS.get(p, "not an allowed deleter"))
                R.analysed(b)
            elif c.name in STD_REMOVERS:
                n += 1
                ok = b.file.startswith("src/fs/")
                R.check("OWN-4", "%s|calls=%s" % (p, c.name), ok, c.where(), "std::fs::remove_* is used only by the fs module", b.file)
    R.call_sites += n
    R.floor("OWN-4", "file removal call sites", n, 12)
    # the deleting section deletes exactly the queued list
    cb = P.body(_gc_deleting_closure(P) or "")
    if cb is None:
        R.missing_anchor("OWN-4", "remove_obsolete_files deleting closure")
    else:
        R.analysed(cb)
        rm = [c for c in cb.calls() if c.declared_name == FS + "remove_file" and not cb.is_cleanup(c.bb)]
        ok = bool(rm) and all(any(o.kind == "upvar" and o.name == "files_to_delete" for o in origins(cb, c.args[1])) or
                              any("files_to_delete" in repr(o) for o in origins(cb, c.args[1])) or _from_upvar_iter(cb, c) for c in rm)
        R.check("OWN-4", cb.path + "|deletes-only-queued", ok, K.where(cb), "the deleting section removes only paths taken from files_to_delete", "")


def _gc_deleting_closure(P):
    """the deleting section of the collector: THE closure of DB::remove_obsolete_files that removes files (closures are numbered in
    source order, so the number is not part of its identity; more than one deleting closure is nobody's reviewed section)"""
    host = K.REMOVE_OBSOLETE + "::{closure#"
    cands = [p for p, b in P.bodies_as_written.items() if p.startswith(host) and p.endswith("}") and
             any(c.declared_name in REMOVERS and not b.is_cleanup(c.bb) for c in b.calls())]
    return cands[0] if len(cands) == 1 else None


def _from_upvar_iter(cb, c):
    # path comes from iterating the captured vector: origin chain ends in IntoIterator::next on the upvar
    rl = pair.roots(cb, c.args[1])
    for l in rl:
        for d in cb.defs().get(l, []):
            if d[0] == "call" and "Iterator" in ((d[3].get("resolved") or d[3].get("callee")) or ""):
                return True
    return False


def ord13(P, R, L):
    R.clause("ORD-13", "a new table's number is registered in tables_in_use (mutex held) before the file is built, in "
             "convert_memtable_to_file and open_compaction_output_file, and the registered number is the one the file is built under")
    for fn, build in ((K.CONVERT, "db::DB::build_table_from_iterator"),
                      ("compaction::state::CompactionState::open_compaction_output_file", "tables::table_builder::TableBuilder::new")):
        b = P.body(fn)
        if b is None:
            R.missing_anchor("ORD-13", fn)
            continue
        R.analysed(b)
        ins = [c for c in K.normal_sites(b, "std::collections::HashSet::insert") if any("tables_in_use" in o.path for o in origins(b, c.args[0]))]
        bs = sites_reaching(P, b, build)
        ok = bool(ins) and bool(bs) and all(b.must_pass(x.bb, through_nodes=[i.bb for i in ins]) for x in bs)
        held = all(L.site_state(i) == "held" for i in ins)
        fresh = all(any(o.kind == "call" and o.name == "versioning::version_set::VersionSet::get_new_file_number" for o in origins(b, i.args[1])) for i in ins)
        R.check("ORD-13", fn + "|register-before-build", ok and held and fresh, K.where(b),
                "tables_in_use.insert(new file number) dominates the table build and runs with the DB mutex held",
                "insert sites %s build sites %s held=%s from get_new_file_number=%s" % ([i.line for i in ins], [x.line for x in bs], held, fresh))
    # removal from tables_in_use only after the build returned (convert) / in cleanup_compaction
    b = P.body(K.CONVERT)
    if b is not None:
        rm = [c for c in K.normal_sites(b, "std::collections::HashSet::remove") if any("tables_in_use" in o.path for o in origins(b, c.args[0]))]
        bs = sites_reaching(P, b, "db::DB::build_table_from_iterator")
        ok = bool(rm) and all(b.must_pass(r.bb, through_nodes=[x.bb for x in bs]) for r in rm) and \
            all(b.must_pass(x, through_nodes=[r.bb for r in rm]) for x in K._ok_blocks(b))
        R.check("ORD-13", K.CONVERT + "|unregister-after-build", ok, K.where(b),
                "tables_in_use.remove comes after the build and on every successful return (a number left registered pins nothing useful and a dead file of that number is never collected)", "remove sites %d" % len(rm))
    cl = P.body(K.CLEANUP)
    if cl is not None:
        R.analysed(cl)
        rm = [c for c in K.normal_sites(cl, "std::collections::HashSet::remove") if any("tables_in_use" in o.path for o in origins(cl, c.args[0]))]
        ok = bool(rm) and all(in_cycle(cl, r.bb) for r in rm)
        R.check("ORD-13", K.CLEANUP + "|unregisters-all-outputs", ok, K.where(cl), "cleanup_compaction unregisters every output file of the compaction (loop over get_output_files)", "remove sites %d" % len(rm))
    for p, bd in sorted(P.bodies.items()):
        for c in bd.calls():
            if c.name == "std::collections::HashSet::remove" and not bd.is_cleanup(c.bb) and any("tables_in_use" in o.path for o in origins(bd, c.args[0])):
                ok = p in (K.CONVERT, K.CLEANUP)
                R.check("ORD-13", "%s|unregisters-pending-output" % p, ok, c.where(), "only convert_memtable_to_file and cleanup_compaction unregister pending outputs", p)


def pair1(P, R, L):
    R.clause("PAIR-1", "every version pin (SharedNode<Version> from get_current_version, and every CompactionManifest/CompactionState "
             "that carries one) is discharged by release_version / release_inputs, or handed to an owner that is, on every "
             "flag-feasible path on which a lock-release point or log_and_apply lies between acquisition and drop")
    release_or_install = lambda cs: (is_release_point(cs) or P.site_reaches(cs, [K.LOG_AND_APPLY, "parking_lot::lock_api::MutexGuard::unlocked_fair",
                                                                              "parking_lot::Condvar::wait",
                                                                              "versioning::version_set::VersionSet::append_new_version"], sync_only=True))
    vspec = pair.Spec("version", [K.CUR_VERSION], [RELEASE_VERSION], ["linked_list::Node<versioning::version::Version>"],
                      release_or_install, transfer_ok=[SET_INPUT_VERSION])
    mspec = pair.Spec("manifest", ["versioning::version_set::VersionSet::pick_compaction", "versioning::version_set::VersionSet::compact_range"],
                      [RELEASE_INPUTS], ["compaction::manifest::CompactionManifest", "compaction::state::CompactionState"],
                      release_or_install, transfer_ok=[])
    n_acq = 0
    for spec in (vspec, mspec):
        for p, b in sorted(P.bodies.items()):
            acq = [c for c in b.calls() if c.name in spec.acquire and not b.is_cleanup(c.bb)]
            if spec is mspec:
                acq = [c for c in acq if b.path != "versioning::version_set::VersionSet::compact_range"]
            if not acq:
                continue
            R.analysed(b)
            n_acq += len(acq)
            viol, stats = pair.run_spec(P, b, spec, acq)
            R.paths += stats["explored"]
            if not viol:
                R.check("PAIR-1", "%s|resource=%s" % (p, spec.name), True, K.where(b),
                        "pins are released on every path that crossed a release point",
                        "%d acquisition(s), %d product states explored, transfers %s" % (len(acq), stats["explored"], sorted(set(t[0] for t in stats["transfers"]))))
            seen = set()
            for v in viol:
                k = "%s|resource=%s|acquired-by=%s|%s" % (p, spec.name, v["acq"].name.rsplit("::", 1)[1], v.get("kind", "leak"))
                if k in seen:
                    continue
                seen.add(k)
                R.check("PAIR-1", k, False, v["where"], "pins are released on every path that crossed a release point", v["detail"])
    R.floor("PAIR-1", "pin acquisition sites", n_acq, 16)
    # the iterator's pin: moved into the clean-up callback that releases it, and the callback is registered
    ni = P.body(K.NEW_ITER)
    if ni is None:
        R.missing_anchor("PAIR-1", K.NEW_ITER)
    else:
        reg = K.normal_sites(ni, "versioning::file_iterators::MergingIterator::register_cleanup_method")
        ok = False
        for r in reg:
            for c in r.closure_args() or [x for a in r.args for x in ni.closure_of_operand(a)]:
                if c in P.bodies and P.fn_reaches(c, RELEASE_VERSION):
                    ok = True
        if not ok:
            # boxed: Box::new(closure) then register
            for c in ni.calls():
                if c.name == "std::boxed::Box::new":
                    for cl in c.closure_args():
                        if cl in P.bodies and P.fn_reaches(cl, RELEASE_VERSION) and reg:
                            ok = True
        R.check("PAIR-1", K.NEW_ITER + "|iterator-pin-released-by-cleanup", ok, K.where(ni),
                "the version pinned for an iterator is released by the clean-up callback registered on the merging iterator", "register sites %d" % len(reg))
    # manifests created by VersionSet carry a pin taken via set_input_version(get_current_version())
    for fn in ("versioning::version_set::VersionSet::pick_compaction", "versioning::version_set::VersionSet::compact_range"):
        b = P.body(fn)
        if b is None:
            R.missing_anchor("PAIR-1", fn)
            continue
        siv = K.normal_sites(b, SET_INPUT_VERSION)
        ok = bool(siv) and all(any(o.kind == "call" and o.name == K.CUR_VERSION for o in origins(b, s.args[1])) for s in siv)
        R.check("PAIR-1", fn + "|manifest-pins-current-version", ok, K.where(b),
                "the compaction manifest pins the version its inputs were chosen from", "")


def gc_on_open(P, R, L):
    R.clause("ORD-16", "every successful DB::open runs remove_obsolete_files (orphans of an earlier crash are reclaimed), after recovery; a "
             "successful flush and a successful table compaction run it too")
    o = P.body("db::DB::open")
    if o is None:
        return R.missing_anchor("ORD-16", "db::DB::open")
    R.analysed(o)
    rof = sites_reaching(P, o, K.REMOVE_OBSOLETE)
    oks = K._ok_blocks(o)
    ok = bool(rof) and bool(oks) and all(o.must_pass_fs(x, through_nodes=[r.bb for r in rof]) for x in oks)
    R.check("ORD-16", "db::DB::open|gc-on-every-successful-open", ok, K.where(o),
            "every path to `Ok(db)` passes remove_obsolete_files", "gc sites at lines %s" % [r.line for r in rof])
    # the recovery edit names the WAL that is current after recovery: everything older is garbage from then on
    la_open = [c for c in o.calls() if c.name == K.LOG_AND_APPLY and not o.is_cleanup(c.bb)]
    st = K.field_stores(o, "wal_file_number", adt="versioning::version_manifest::VersionChangeManifest")
    cur = [x[0] for x in st if any("curr_wal_file_number" in org.path for op in x[2]["rv"].get("ops", []) for org in origins(o, op))]
    for a in la_open:
        ok = bool(cur) and o.must_pass(a.bb, through_nodes=cur)
        R.check("ORD-16", "db::DB::open|recovery-edit-records-current-wal", ok, a.where(),
                "the version edit written at the end of recovery carries the number of the WAL that is current after recovery "
                "(also when the last WAL was re-used), so the replayed WALs become garbage",
                "stores of wal_file_number: %d, from curr_wal_file_number: %d" % (len(st), len(cur)))
    R.floor("ORD-16", "log_and_apply sites in DB::open", len(la_open), 1)
    # the opener's garbage collection runs before background work may start: its delete list is computed under the mutex
    # but the files are unlinked without it, so a compaction that was scheduled earlier could re-issue an orphan's number
    sched = [c for c in o.calls() if not o.is_cleanup(c.bb) and P.site_reaches(c, lambda x: x.name == "compaction::worker::CompactionWorker::schedule_task", True)
             and c.name != K.REMOVE_OBSOLETE]
    sched = [c for c in sched if c.name == "compaction::worker::CompactionWorker::schedule_task" or not P.site_reaches(c, lambda x: x.name == K.REMOVE_OBSOLETE, True)]
    okg = bool(rof) and all(o.must_pass(c.bb, through_nodes=[r.bb for r in rof]) for c in sched)
    R.check("ORD-16", "db::DB::open|gc-before-background-work", okg, K.where(o),
            "no compaction is scheduled by DB::open before its remove_obsolete_files ran", "scheduling sites %s" % [c.line for c in sched])
    cm = P.body(K.COMPACT_MEMTABLE)
    if cm is not None:
        R.analysed(cm)
        la = sites_reaching(P, cm, K.LOG_AND_APPLY)
        rof = sites_reaching(P, cm, K.REMOVE_OBSOLETE)
        ok = bool(la) and bool(rof)
        for a in la:
            for t in result_tests(cm, a.dest["l"]):
                for e in t.ok:
                    if not all(cm.must_pass(r, through_nodes=[x.bb for x in rof], start=e) for r in cm.return_blocks()):
                        ok = False
        R.check("ORD-16", K.COMPACT_MEMTABLE + "|gc-after-successful-flush", ok, K.where(cm),
                "after a successfully recorded flush the obsolete WAL is reclaimed", "")


def run(P, R, L):
    gc_on_open(P, R, L)
    grd5(P, R, L)
    own4(P, R, L)
    ord13(P, R, L)
    pair1(P, R, L)
    K.ord3_tables(P, R, L, rule="ORD-13")
    K.cache_eviction(P, R, L)
    R.clause("GRD-4", "nothing is garbage-collected under the sticky error: after a failed install the on-disk manifest may already name the new tables (the record reached the file, the flush reported failure) - the collector must not judge them by the in-memory version")
    from . import c08 as _c08
    R.once(_c08.grd4, P, R, L)
    R.clause("ORD-5", "CURRENT never names a manifest the error path of log_and_apply deletes: the edit is appended to the new manifest before CURRENT is switched")
    from .c02 import ord5_manifest_before_current
    ord5_manifest_before_current(P, R, L)
    R.clause("ROLE-4", "the WAL numbers recorded in every version edit come from the version set's own counters (they decide which WALs are garbage)")
    K.role4_counters(P, R, L)
    R.clause("GRD-20", "an existing database is never re-initialised because CURRENT could not be opened for a reason other than NotFound")
    K.grd20_create_only_when_missing(P, R, L)
    R.clause("GRD-21", "a failed manifest write removes only a manifest created by that very call, never the live one CURRENT names")
    K.grd21_manifest_cleanup(P, R, L)
    R.clause("OWN-12", "release_version unlinks exactly the version node it was given")
    K.own12_release_unlinks_that_version(P, R, L)
    K.fs2_disk_operations_are_their_namesakes(P, R, L)
    R.clause("LIST-1", "a walk over the version list starts at its head and follows the next links: get_live_files sees the files of every linked version")
    K.list1_iteration_covers_the_list(P, R, L)
    from . import blind
    R.clause("LST-1", "the intrusive list behind the version list: remove_node unlinks exactly the given node on both sides (head / tail included), push_node appends behind the old tail")
    blind.lst1_link_repairs(P, R, L)
    R.clause("GRD-24", "a declined manifest re-use leaves manifest_file_number alone (it names the manifest that is kept and that CURRENT points at)")
    K.grd24_reuse_adopts_number_with_file(P, R, L)
    R.clause("GRD-36", "a replacement manifest is written under a fresh file number: the manifest CURRENT names is never truncated")
    K.grd36_new_manifest_number_is_fresh(P, R, L)
    R.clause("GRD-26", "recover reports the manifest as adopted only when maybe_reuse_manifest adopted it (otherwise no new manifest is written and the old one is collected)")
    K.grd26_reused_flag_truthful(P, R, L)
    R.clause("LVL-1", "get_live_files visits every level (files of the deepest level are protected from the collector)")
    K.lvl1_level_loops_cover_all_levels(P, R, L)
    R.clause("ORD-18", "the garbage collection that ends a table compaction runs after the compaction released its input version")
    K.ord18_gc_after_release(P, R, L)
    R.clause("ORD-18b", "the clean-up of a client iterator that releases its version pin also collects the files that became dead with it (known finding D22 on today's tree)")
    blind.ord18b_client_release_collects(P, R, L)
    R.not_decided += ["directory contents for a concrete history", "crash-orphan collection beyond the guards"]
    R.assumptions += ["only the background thread and DB::open run remove_obsolete_files (single deleter)",
                      "a version handle dropped while the mutex was held continuously since acquisition is still current and is "
                      "unlinked later by append_new_version"]
