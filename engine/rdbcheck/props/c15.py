"""C15 — corrupted files are detected, never served as data: verify-before-trust clauses."""
from . import common as K
from . import c08


def run(P, R, L):
    R.clause("ORD-14", "verify before parse: table blocks (checksum equal edge before Ok / decompression / type byte), log fragments (CRC "
             "equal edge before Ok), footers (magic equal edge before Ok)")
    K.ord14(P, R, L)
    R.clause("OWN-5", "block parsers receive only bytes returned by read_block_from_disk; raw table reads happen only in Table::open and "
             "read_block_from_disk")
    K.own5(P, R, L)
    R.clause("COV-1", "checksum coverage on the writer side: bytes fed to the CRC depend on every header byte that steers parsing")
    K.cov1(P, R, L)
    R.clause("MAN-1", "skipping damaged fragments is for the WAL only: the manifest is read in a mode in which a damaged fragment is an error")
    K.man1_manifest_reader_strict(P, R, L)
    R.clause("TS-1", "a fragment dropped for a bad CRC does not leave the reassembly buffer assembling")
    K.ts1(P, R, L)
    R.clause("ERR-1", "parse errors of Batch, VersionChangeManifest and FileMetadata (and every other Result) are not swallowed")
    c08.err1(P, R, L)
    R.clause("ERR-2", "a read error stored by the merging iterator over the compaction inputs (a damaged input table) is consulted on every "
             "path to install_compaction_results — otherwise the damaged input is deleted as 'compacted'")
    K.err2_iterator_status(P, R, L)
    R.clause("GRD-18", "short reads are noticed: outside the file-system layer every read is read_exact or has its byte count compared with the expected length")
    K.grd18_short_reads(P, R, L)
    R.clause("VERD-1", "a damaged table ends a lookup with its error: Version::get never skips it in favour of an older value in a deeper level")
    K.verd1(P, R, L, what=("version", "table"))
    R.clause("ERR-4", "an error that cut next/prev short is parked and handed on through status() by every wrapping iterator, and MergingIterator::get_error includes it")
    K.err4_status_chain(P, R, L)
    R.clause("ERR-3", "a source that could not be positioned (table cannot be opened / block cannot be read) is reported by the merging "
             "iterator's seek methods, not silently dropped from a scan")
    K.err3_merge_seek_reports(P, R, L)
    R.clause("GRD-34", "the batch decoder reads exactly the number of operations stored in the batch header (a truncated batch is an error, not a shorter batch)")
    K.grd34_batch_loop_bounded_by_count(P, R, L)
    K.grd33_decoder_reports_consumed_bytes(P, R, L)
    from . import blind
    R.clause("ORD-23", "a completely read log fragment is counted in the reader's cursor and block offset before it is parsed: a fragment that fails its checksum costs that record, not the reader's alignment")
    R.once(blind.ord23_reader_position_follows_the_file, P, R, L)
    R.clause("GRD-6 (source)", "ErrorKind::UnexpectedEof - which read_record turns into a clean end of the log - is constructed only behind a short read")
    R.once(blind.grd6b_eof_only_from_a_short_read, P, R, L)
    R.clause("GRD-6", "read_record reports a clean end of the log only for ErrorKind::UnexpectedEof from the physical read or the cursor-at-length test made before anything was read: a record that fails to parse is never answered with `end of log` (a flipped bit in the last manifest record would silently drop that version edit)")
    R.once(K.grd6, P, R, L)
    from . import blind as _blind
    R.clause("ENUM-1", "the hand-written tag decoders (Operation, BlockType, compression type, manifest field tags) invert the enums' discriminants")
    R.once(_blind.enum1_tag_decoders, P, R, L)
    R.clause("GRD-37", "a block handle (footer / index entry) is compared with the file length before a buffer of its size is allocated: a damaged handle is an error, not an allocator abort")
    R.once(_blind.grd37_block_handle_within_the_file, P, R, L)
    R.clause("ERR-5", "every From<io::Error> files the error under the IO variant")
    R.once(_blind.err5_io_errors_keep_their_class, P, R, L)
    R.clause("OWN-15", "`not in this file` is built only where a source was searched: a damaged or missing table is an error")
    R.once(_blind.own15_who_may_say_not_found, P, R, L)
    R.clause("MAN-2", "the strict (manifest) reader treats a Middle / Last fragment without a start as damage instead of skipping it")
    R.once(_blind.man2_strict_reader_reports_orphan_fragments, P, R, L)
    R.not_decided += ["detection probability", "behaviour for a concrete flipped byte"]
