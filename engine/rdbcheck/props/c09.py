"""C09 — every operation terminates; the background worker never dies (blocking-structure clauses)."""
from ..lck import is_db_lock, is_wait, is_db_guard_ty, WAIT
from ..rules import (bool_tests, option_tests, result_tests, field_stores, field_reads, in_cycle,
                     return_value_consts, sites_reaching)
from ..dataflow import origins

SHOULD = "db::DB::should_schedule_compaction"
SCHEDULE = "compaction::worker::CompactionWorker::schedule_task"
TASK = "compaction::worker::CompactionWorker::compaction_task"
APPLY = "db::DB::apply_changes"
DROP_DB = "<db::DB as std::ops::Drop>::drop"
NOTIFY_ALL = "parking_lot::Condvar::notify_all"
NOTIFY_WRITER = "writers::Writer::notify_writer"


def lck3(P, R, L):
    """LCK-3: no re-entrant acquisition of the DB mutex, crate wide."""
    R.clause("LCK-3", "no call made while a MutexGuard<GuardedDbFields> is held (own guard region or guard "
             "parameter) reaches Mutex<GuardedDbFields>::lock other than through a closure handed to unlocked_fair")
    ml = L.may_lock()
    n_sites = 0
    n_held_bodies = 0
    for p, b in sorted(P.bodies.items()):
        has_ctx = L.guard_param(b) is not None or L.own_guards(b) or b.kind == "closure"
        if not has_ctx:
            continue
        found = []
        held_sites = 0
        for cs in b.calls():
            if b.is_cleanup(cs.bb):
                continue
            st = L.site_state(cs)
            if st not in ("held", "maybe"):
                continue
            held_sites += 1
            if is_db_lock(cs):
                found.append((cs, "direct lock()", [p]))
                continue
            # callees whose locking counts
            tg = [g for g in L._ml_edges.get(p, ())] if False else []
            t = cs.t
            cands = []
            if t.get("local") and t.get("resolved") in P.bodies and not t.get("dyn"):
                cands.append(t["resolved"])
            elif t.get("dyn") or (t.get("resolved") is None and t.get("callee") in P.trait_impls):
                cands += P.dyn_targets(t)
            for g in cands:
                gb = P.bodies[g]
                if L.guard_param(gb) is not None:
                    continue  # analysed on its own as a held body
                if g in ml:
                    found.append((cs, g, L.lock_witness(g)))
        if held_sites:
            n_held_bodies += 1
            n_sites += held_sites
            R.analysed(b)
        if found:
            for cs, g, chain in found:
                R.check("LCK-3", "%s|callee=%s" % (p, g if g != "direct lock()" else "Mutex::lock"), False, cs.where(),
                        "no acquisition of the DB mutex while it is held",
                        "call at a held site reaches Mutex<GuardedDbFields>::lock via %s" % " -> ".join(chain))
        elif held_sites:
            R.check("LCK-3", p, True, "%s:%d" % (b.file, b.line_lo),
                    "no acquisition of the DB mutex while it is held",
                    "%d call sites in held regions, none reaches lock()" % held_sites)
    R.call_sites += n_sites
    R.floor("LCK-3", "bodies with a held region", n_held_bodies, 25)


def lck4(P, R, L):
    R.clause("LCK-4", "every Condvar::wait on the DB mutex sits in a CFG cycle (its own, or that of every caller "
             "of its wrapper) so the condition is re-tested after wake-up")
    sites = [cs for cs in P.callers_of(WAIT) if not cs.body.is_cleanup(cs.bb)]
    R.floor("LCK-4", "Condvar::wait sites", len(sites), 6)
    for cs in sites:
        b = cs.body
        R.analysed(b)
        if in_cycle(b, cs.bb):
            R.check("LCK-4", b.path + "|wait", True, cs.where(), "wait inside a re-testing loop", "in a CFG cycle")
            continue
        # wrapper: every caller site must be in a cycle
        callers = [c for c in P.callers_of(lambda c: c.callee == b.path) if not c.body.is_cleanup(c.bb)]
        ok = bool(callers) and all(in_cycle(c.body, c.bb) for c in callers)
        R.check("LCK-4", b.path + "|wait", ok, cs.where(), "wait inside a re-testing loop (directly or at every caller of the wrapper)",
                "wrapper called from %s" % [(c.body.path, c.line, in_cycle(c.body, c.bb)) for c in callers])
        for c in callers:
            R.analysed(c.body)


def lck4c(P, R, L):
    R.clause("LCK-4c", "a loop that waits on a condvar re-reads the guarded state it decides on after every wake-up: no switch inside the wait "
             "cycle depends on a value that was read through the mutex guard before the loop was entered")
    from ..rules import comparisons
    from ..dataflow import roots
    n = 0
    for cs in [c for c in P.callers_of(WAIT) if not c.body.is_cleanup(c.bb)]:
        b = cs.body
        if not in_cycle(b, cs.bb):
            continue
        n += 1
        R.analysed(b)
        cyc = {x for x in b.reachable(cs.bb) if cs.bb in b.reachable(x)}
        guard_locals = {l for l in range(len(b.locals)) if is_db_guard_ty(b.local_ty(l))}

        def guarded_read(op, depth=0):
            """does this operand's value come from a read through the DB mutex guard (accessor call or field copy)?"""
            for o in origins(b, op):
                if o.kind == "call" and o.site is not None and o.site.args:
                    if roots(b, o.site.args[0]) & guard_locals:
                        return o.site.bb
                if o.kind in ("param", "field", "local") and o.path and isinstance(o.name, int) and o.name in guard_locals:
                    return -1
            return None
        stale = []
        for c in comparisons(b):
            if c.bb not in cyc:
                continue
            for side in (c.lhs, c.rhs):
                if side["k"] not in ("copy", "move"):
                    continue
                # nearest named local the compared value was kept in
                l = side["pl"]["l"]
                hops = 0
                while b.local_name(l) is None and hops < 6:
                    ds = [d for d in b.defs().get(l, []) if d[0] == "stmt" and d[3]["rv"]["k"] in ("use", "cast") and d[3]["rv"]["ops"][0]["k"] in ("copy", "move")
                          and not d[3]["rv"]["ops"][0]["pl"]["p"]]
                    if len(ds) != 1:
                        break
                    l = ds[0][3]["rv"]["ops"][0]["pl"]["l"]
                    hops += 1
                if b.local_name(l) is None:
                    continue
                defs = b.defs().get(l, [])
                if not defs or any(d[1] in cyc for d in defs):
                    continue
                # every definition lies outside the wait cycle: is it a read of guarded state?
                for d in defs:
                    if d[0] == "call" and d[3]["args"] and roots(b, d[3]["args"][0]) & guard_locals:
                        stale.append("`%s` (read at line %s, compared at line %s)" % (b.local_name(l), d[3].get("line"), c.line))
                    elif d[0] == "stmt" and d[3]["rv"].get("ops") and d[3]["rv"]["ops"][0]["k"] in ("copy", "move") and guarded_read(d[3]["rv"]["ops"][0]) is not None:
                        stale.append("`%s` (read at line %s, compared at line %s)" % (b.local_name(l), d[3].get("line"), c.line))
        R.check("LCK-4c", b.path + "|wait-loop-rereads-state", not stale, cs.where(),
                "every guarded value a wait loop decides on is read inside the loop", "; ".join(sorted(set(stale))) or "cycle of %d blocks" % len(cyc))
    R.floor("LCK-4c", "wait loops", n, 4)


def lck4b(P, R, L):
    R.clause("LCK-4b", "every loop that waits on the background-work condvar for a condition only the worker can establish (flush done, "
             "manual compaction done) also leaves when the sticky background error is set — the worker stops working then")
    for fn in ("db::DB::force_memtable_compaction", "db::DB::force_level_compaction"):
        b = P.body(fn)
        if b is None:
            R.missing_anchor("LCK-4b", fn)
            continue
        R.analysed(b)
        waits = [c for c in b.calls() if is_wait(c) and not b.is_cleanup(c.bb)]
        reads = field_reads(b, "maybe_bad_database_state")
        ok = bool(waits)
        det = []
        for w in waits:
            cyc = {x for x in b.reachable(w.bb) if w.bb in b.reachable(x)}
            # a test of the sticky error inside the wait cycle with an edge that leaves the cycle
            good = False
            for x in cyc & set(reads):
                # find the switch fed by this read: any switch block in the cycle reachable from x before the wait with an exit edge
                for y in cyc:
                    t = b.term(y)
                    if t["k"] == "switch" and y in b.reachable(x) and any(tg not in cyc for _, tg in b.edges(y)):
                        from ..dataflow import origins as _o
                        for o in _o(b, t["discr"]):
                            if "maybe_bad_database_state" in o.path:
                                good = True
                            if o.kind == "call" and o.site is not None and o.site.args and any(
                                    "maybe_bad_database_state" in a.path for a in _o(b, o.site.args[0])):
                                good = True
            # a loop that waits for `background_compaction_scheduled == false` needs no such exit: the worker clears that flag
            # and notifies at the end of every task, error or not (PAIR-4) — the same loop Drop uses (ORD-12)
            for y in cyc & set(field_reads(b, "background_compaction_scheduled")):
                t = b.term(y)
                if t["k"] == "switch" and any(tg not in cyc for _, tg in b.edges(y)):
                    good = True
            if not good:
                ok = False
                det.append("the wait at line %s is in a loop that does not leave on maybe_bad_database_state" % w.line)
        R.check("LCK-4b", fn + "|wait-loop-leaves-on-sticky-error", ok, "%s:%d" % (b.file, b.line_lo),
                "the wait loop has an exit edge controlled by maybe_bad_database_state", "; ".join(det))


def ord10(P, R, L):
    R.clause("ORD-10", "in CompactionWorker::compaction_task every path to return stores "
             "background_compaction_scheduled=false and afterwards calls notify_all on the background-work condvar; "
             "the flag is set only in should_schedule_compaction and cleared only in compaction_task; "
             "set_bad_database_state notifies on its storing path")
    b = P.body(TASK)
    if b is None:
        return R.missing_anchor("ORD-10", TASK)
    R.analysed(b)
    stores = field_stores(b, "background_compaction_scheduled", const=0)
    sblocks = [s[0] for s in stores]
    notifies = [cs for cs in b.calls_to(NOTIFY_ALL) if not b.is_cleanup(cs.bb)]
    rets = b.return_blocks()
    ok1 = bool(stores) and all(b.must_pass(r, through_nodes=sblocks) for r in rets)
    R.check("ORD-10", TASK + "|clear-flag", ok1, "%s:%d" % (b.file, b.line_lo),
            "every return is preceded by background_compaction_scheduled = false",
            "stores in blocks %s, returns %s" % (sblocks, rets))
    ok2 = bool(notifies) and bool(stores) and all(
        b.must_pass(r, through_nodes=[n.bb for n in notifies], start=s) for r in rets for s in sblocks)
    R.check("ORD-10", TASK + "|notify-after-clear", ok2, "%s:%d" % (b.file, b.line_lo),
            "notify_all is called after the flag is cleared on every path to return",
            "notify_all sites at lines %s" % [n.line for n in notifies])
    # once the flag is cleared the task touches no file any more: Drop for DB waits on this flag before it releases the LOCK
    # file, and remove_obsolete_files drops the DB mutex while it unlinks
    FSM = ("fs::traits::FileSystem::create_file", "fs::traits::FileSystem::remove_file", "fs::traits::FileSystem::rename",
           "fs::traits::FileSystem::remove_dir", "fs::traits::FileSystem::remove_dir_all")
    late = []
    for sbk in sblocks:
        for c in b.calls():
            if b.is_cleanup(c.bb) or c.bb == sbk or c.bb not in b.reachable(sbk):
                continue
            if c.name == SCHEDULE or c.name == SHOULD:
                continue
            if P.site_reaches(c, lambda x: (x.declared_name or "") in FSM or x.name == "db::DB::remove_obsolete_files", True):
                late.append("%s at line %s" % (c.name.rsplit("::", 1)[1], c.line))
    R.check("ORD-10", TASK + "|no-file-work-after-clearing-the-flag", not late, "%s:%d" % (b.file, b.line_lo),
            "after background_compaction_scheduled = false the task reaches no file-system mutation (garbage collection included)",
            "; ".join(sorted(set(late))))
    # who writes the flag
    for p, bd in sorted(P.bodies.items()):
        for (bb, i, st) in field_stores(bd, "background_compaction_scheduled"):
            rv = st["rv"]
            val = rv["ops"][0].get("val") if rv["k"] == "use" and rv["ops"][0]["k"] == "const" else "nonconst"
            allowed = (val == "1" and p == SHOULD) or (val == "0" and p == TASK)
            R.check("ORD-10", "flag-writer|%s|val=%s" % (p, val), allowed, "%s:%s" % (bd.file, st["line"]),
                    "flag set only by should_schedule_compaction, cleared only by compaction_task", "store of %s in %s" % (val, p))
    # set_bad_database_state notifies
    sb = P.body("db::DB::set_bad_database_state")
    if sb is None:
        R.missing_anchor("ORD-10", "db::DB::set_bad_database_state")
    else:
        R.analysed(sb)
        st = field_stores(sb, "maybe_bad_database_state")
        nt = sb.calls_to(NOTIFY_ALL)
        ok = bool(st) and bool(nt) and all(
            sb.must_pass(r, through_nodes=[n.bb for n in nt], start=s[0]) for r in sb.return_blocks() for s in st)
        R.check("ORD-10", "db::DB::set_bad_database_state|notify", ok, "%s:%d" % (sb.file, sb.line_lo),
                "storing the sticky error is followed by notify_all on every path", "stores=%d notifies=%d" % (len(st), len(nt)))


def pair4(P, R, L):
    R.clause("PAIR-4", "at each call site of should_schedule_compaction the `true` edge leads, on every path to "
             "return, through CompactionWorker::schedule_task (or, inside compaction_task, returns true to the worker "
             "loop which re-queues the task)")
    sites = [cs for cs in P.callers_of(SHOULD) if not cs.body.is_cleanup(cs.bb)]
    R.floor("PAIR-4", "should_schedule_compaction call sites", len(sites), 6)
    for cs in sites:
        b = cs.body
        R.analysed(b)
        R.call_sites += 1
        key = "%s|should_schedule" % b.path
        if cs.dest["p"]:
            R.check("PAIR-4", key, False, cs.where(), "result tested", "result stored in projection")
            continue
        tests = bool_tests(b, cs.dest["l"])
        if not tests:
            R.check("PAIR-4", key, False, cs.where(), "the bool result is tested and acted upon",
                    "result of should_schedule_compaction is not tested: the scheduled flag may stay set with no task queued")
            continue
        ok = True
        why = []
        sched = [s.bb for s in sites_reaching(P, b, SCHEDULE)]
        for t in tests:
            for tt in t.ok:
                if b.path == TASK:
                    vals = return_value_consts(b, tt)
                    if "nonconst" in vals:
                        # `return needs_follow_up` where the value IS the tested result: true on this edge
                        same = True
                        for x in b.reachable(tt):
                            for st in b.blocks[x]["stmts"]:
                                if st["k"] == "assign" and st["pl"]["l"] == 0 and not st["pl"]["p"] and not (
                                        st["rv"]["k"] == "use" and st["rv"]["ops"][0]["k"] == "const"):
                                    os_ = origins(b, st["rv"]["ops"][0]) if st["rv"].get("ops") else []
                                    if not (os_ and all(o.kind == "call" and o.site is not None and o.site.bb == cs.bb for o in os_)):
                                        same = False
                        if same:
                            vals = (vals - {"nonconst"}) | {"1"}
                    if vals != {"1"}:
                        ok = False
                        why.append("true edge may return %s" % sorted(vals))
                else:
                    for r in b.return_blocks():
                        if not b.must_pass(r, through_nodes=sched, start=tt):
                            ok = False
                            why.append("path from true edge (bb%d) to return avoids schedule_task" % tt)
                            break
        R.check("PAIR-4", key, ok, cs.where(), "true edge always reaches schedule_task(Compaction)",
                "; ".join(why) or "all true-edge paths schedule (sites at bbs %s)" % sched)
    # converse: a compaction task is only ever queued over the true edge of should_schedule_compaction — that call is what
    # sets background_compaction_scheduled, the flag Drop / waiters rely on to know that background work is in flight
    for p_, b in sorted(P.bodies.items()):
        if p_.startswith("compaction::worker::"):
            continue
        ss = [c for c in b.calls() if not b.is_cleanup(c.bb) and c.name == SCHEDULE]
        if not ss:
            continue
        R.analysed(b)
        edges = []
        for cs in b.calls():
            if cs.name == SHOULD and not b.is_cleanup(cs.bb) and not cs.dest["p"]:
                for t in bool_tests(b, cs.dest["l"]):
                    edges += [(t.bb, x) for x in t.ok]
        for c in ss:
            kind = " ".join(str(o.name) for o in origins(b, c.args[1])) if len(c.args) > 1 else ""
            if "Terminate" in kind or "Shutdown" in kind:
                continue
            ok = bool(edges) and b.must_pass(c.bb, through_edges=edges)
            R.check("PAIR-4", "%s|schedule-only-after-flag-set" % p_, ok, c.where(),
                    "schedule_task(Compaction) is reached only over the true edge of should_schedule_compaction (which sets the scheduled flag)",
                    "true edges %d" % len(edges))
    # the worker loop re-queues when compaction_task returns true
    for cs in P.callers_of(TASK):
        b = cs.body
        R.analysed(b)
        tests = bool_tests(b, cs.dest["l"])
        pushes = [c.bb for c in b.calls() if c.name in ("std::collections::VecDeque::push_back", "std::collections::VecDeque::push_front")]
        ok = bool(tests)
        for t in tests:
            for tt in t.ok:
                # from the true edge, before the next compaction_task call / return, a push must happen
                r = b.reachable(tt, removed_nodes=pushes)
                if cs.bb in r or any(x in r for x in b.return_blocks()):
                    ok = False
        R.check("PAIR-4", "%s|requeue" % b.path, ok, cs.where(),
                "worker loop re-queues a Compaction task when compaction_task returns true", "push sites bbs %s" % pushes)


def ord11(P, R, L):
    R.clause("ORD-11", "in DB::apply_changes every path from writer_queue.push_back to return either leaves through "
             "the completed-by-leader exit or passes the pop loop, and after the pop loop the new queue head is notified "
             "when the queue is not empty (one tabled exception: the `?` on build_group_commit_batch)")
    b = P.body(APPLY)
    if b is None:
        return R.missing_anchor("ORD-11", APPLY)
    R.analysed(b)
    pops = [c for c in b.calls_to("std::collections::VecDeque::pop_front") if not b.is_cleanup(c.bb)]
    gres = [c for c in b.calls_to("writers::Writer::get_operation_result") if not b.is_cleanup(c.bb)]
    from . import common as K
    gres += K.sync_closure_sites(P, b, {"writers::Writer::get_operation_result"})     # `is_complete.then(|| w.get_operation_result()..)`
    bg = [c for c in b.calls_to("db::DB::build_group_commit_batch") if not b.is_cleanup(c.bb)]
    if not pops or not gres or not bg:
        return R.missing_anchor("ORD-11", "pop_front/get_operation_result/build_group_commit_batch in apply_changes")
    exc_edges = []
    for c in bg:
        for t in result_tests(b, c.dest["l"]):
            exc_edges += t.err_edges()
    R.allow("ORD-11|%s|?build_group_commit_batch" % APPLY,
            "its two Err conditions (empty queue, head without batch) contradict the dominating tests: this writer is the "
            "queue head and carries a batch")
    through = [c.bb for c in pops] + [c.bb for c in gres]
    bad = [r for r in b.return_blocks() if not b.must_pass(r, through_nodes=through, through_edges=exc_edges)]
    R.check("ORD-11", APPLY + "|pop-or-completed", not bad, "%s:%d" % (b.file, b.line_lo),
            "every return is preceded by the pop loop or the completed-by-leader exit", "returns not covered: %s" % [b.where(r) for r in bad])
    # after the pop loop: is_empty test, false edge -> notify_writer
    emp = [c for c in b.calls_to("std::collections::VecDeque::is_empty") if not b.is_cleanup(c.bb)]
    notif = [c.bb for c in b.calls_to(NOTIFY_WRITER) if not b.is_cleanup(c.bb)]
    ok = False
    detail = "no is_empty test after the pop loop"
    # "the queue is not empty" is established either by `!queue.is_empty()` or by `if let Some(head) = queue.front()`
    cands = [(e, [ft for t in bool_tests(b, e.dest["l"]) for ft in t.err]) for e in emp]
    for fr in [c for c in b.calls_to("std::collections::VecDeque::front") if not b.is_cleanup(c.bb)]:
        cands.append((fr, [x for t in option_tests(b, fr.dest["l"]) for x in t.ok]))
    for e, nonempty in cands:
        if not any(e.bb in b.reachable(p.bb) for p in pops):
            continue
        # every path from pop loop exit to return passes this test
        passes = all(b.must_pass(r, through_nodes=[e.bb] + [g.bb for g in gres], through_edges=exc_edges) for r in b.return_blocks())
        good = passes and bool(nonempty)
        for ft in nonempty:
            for r in b.return_blocks():
                if not b.must_pass(r, through_nodes=notif, start=ft):
                    good = False
                    detail = "non-empty queue edge reaches return without notify_writer"
        if good:
            ok = True
            detail = "emptiness test at line %s; non-empty edge always notifies" % e.line
    R.check("ORD-11", APPLY + "|notify-new-head", ok, "%s:%d" % (b.file, b.line_lo),
            "after popping its group the leader notifies the new head of a non-empty queue", detail)
    # followers popped by the leader are woken: inside the pop loop the not-self edge reaches notify_writer
    pe = [c for c in b.calls_to("std::sync::Arc::ptr_eq") if not b.is_cleanup(c.bb)]
    loop_pe = [c for c in pe if in_cycle(b, c.bb)]
    okf = False
    df = "no Arc::ptr_eq test in the pop loop"
    for c in loop_pe:
        for t in bool_tests(b, c.dest["l"]):
            for ft in t.err:  # not the same writer
                # must reach notify before next pop_front / return
                r = b.reachable(ft, removed_nodes=notif)
                if not any(p.bb in r for p in pops) and not any(x in r for x in b.return_blocks()):
                    okf = True
                    df = "follower edge always notifies (line %s)" % c.line
    R.check("ORD-11", APPLY + "|wake-followers", okf, "%s:%d" % (b.file, b.line_lo),
            "each follower popped by the leader is notified before the loop continues or the function returns", df)
    # the waiting loop: wait_for_turn only while not complete and not first
    R.call_sites += len(pops) + len(gres) + len(emp) + len(pe)


def ord12(P, R, L):
    R.clause("ORD-12", "Drop for DB: the loop waiting on background_compaction_scheduled precedes db_lock.take(); "
             "is_shutting_down is stored before stop_worker_thread; JoinHandle::join is dominated by stop_worker_thread, "
             "which sends Terminate before handing out the handle")
    b = P.body(DROP_DB)
    if b is None:
        return R.missing_anchor("ORD-12", DROP_DB)
    R.analysed(b)
    takes = [c for c in b.calls_to("std::option::Option::take") if not b.is_cleanup(c.bb)
             and any("db_lock" in o.path for o in origins(b, c.args[0]))]
    stops = [c for c in sites_reaching(P, b, "compaction::worker::CompactionWorker::stop_worker_thread")]
    joins = [c for c in b.calls_to("std::thread::JoinHandle::join") if not b.is_cleanup(c.bb)]
    stores = [c for c in b.calls_to("std::sync::atomic::Atomic::store") if not b.is_cleanup(c.bb)
              and any("is_shutting_down" in o.path for o in origins(b, c.args[0]))]
    flag_reads = field_reads(b, "background_compaction_scheduled")
    if not (takes and stops and joins and stores and flag_reads):
        R.check("ORD-12", DROP_DB + "|anchors", False, "%s:%d" % (b.file, b.line_lo),
                "db_lock.take(), stop_worker_thread, join, is_shutting_down.store, flag read all present",
                "takes=%d stops=%d joins=%d stores=%d flag_reads=%d" % (len(takes), len(stops), len(joins), len(stores), len(flag_reads)))
        return
    # wait loop precedes take: the take is reachable only over the flag==false edge of a test of the flag
    ok = False
    for fb in flag_reads:
        t = b.term(fb)
        if t["k"] == "switch" and in_cycle(b, fb):
            f_edge = None
            from ..rules import switch_target
            f_t = switch_target(t, 0)
            if all(b.must_pass(tk.bb, through_edges=[(fb, f_t)]) for tk in takes):
                ok = True
    R.check("ORD-12", DROP_DB + "|wait-before-unlock", ok, takes[0].where(),
            "db_lock.take() only after the loop observed background_compaction_scheduled == false", "flag read blocks %s" % sorted(flag_reads))
    ok = all(b.must_pass(s.bb, through_nodes=[x.bb for x in stores]) for s in stops)
    R.check("ORD-12", DROP_DB + "|shutdown-flag-before-stop", ok, stops[0].where(),
            "is_shutting_down.store(true) dominates stop_worker_thread", "")
    ok = all(b.must_pass(j.bb, through_nodes=[s.bb for s in stops]) for j in joins)
    R.check("ORD-12", DROP_DB + "|stop-before-join", ok, joins[0].where(), "join is dominated by stop_worker_thread", "")
    sw = P.body("compaction::worker::CompactionWorker::stop_worker_thread")
    if sw is None:
        R.missing_anchor("ORD-12", "CompactionWorker::stop_worker_thread")
    else:
        R.analysed(sw)
        sends = [c.bb for c in sw.calls_to("std::sync::mpsc::SyncSender::send")]
        # every return that yields Some(handle): _0 assigned aggregate Some
        some_blocks = [bb for bb in range(sw.n) for st in sw.blocks[bb]["stmts"]
                       if st["k"] == "assign" and st["pl"]["l"] == 0 and st["rv"]["k"] == "aggregate" and st["rv"].get("variant") == "Some"]
        ok = bool(sends) and bool(some_blocks) and all(sw.must_pass(x, through_nodes=sends) for x in some_blocks)
        R.check("ORD-12", sw.path + "|terminate-before-handle", ok, "%s:%d" % (sw.file, sw.line_lo),
                "Terminate is sent before the join handle is returned", "send blocks %s, Some blocks %s" % (sends, some_blocks))
    # the worker thread leaves its loops on Terminate when shutting down
    wk = [bd for p, bd in P.bodies.items() if p.startswith("compaction::worker::CompactionWorker::new::{closure")]
    for bd in wk:
        R.analysed(bd)
        rets = bd.return_blocks()
        R.check("ORD-12", bd.path + "|can-exit", bool(rets) and any(0 in [0] and r in bd.reachable(0) for r in rets), "%s:%d" % (bd.file, bd.line_lo),
                "worker thread closure has a reachable normal exit", "returns %s" % rets)


def run(P, R, L):
    lck3(P, R, L)
    lck4(P, R, L)
    lck4b(P, R, L)
    lck4c(P, R, L)
    ord10(P, R, L)
    pair4(P, R, L)
    ord11(P, R, L)
    ord12(P, R, L)
    from . import common as K
    from . import blind
    R.clause("TRIG-1", "a writer delayed or parked for level-0 relief always has a due level-0 compaction: level 0 is scored by file count / D, due means score >= 1, "
             "and D is not above the slow-down / stop triggers")
    blind.trig1_level0_stall_has_a_due_compaction(P, R, L)
    R.clause("PROG-2", "make_room_for_write rotates the memtable only when a flush was forced or the memtable is not empty: the loop makes progress for every max_memtable_size")
    blind.prog2_rotation_needs_a_non_empty_memtable(P, R, L)
    R.clause("ORD-12 (shared worker)", "Drop for DB stops and joins the compaction thread on every path and never unwraps a sole-ownership test of the worker that client iterators share")
    blind.ord12b_close_does_not_unwrap_shared_ownership(P, R, L)
    R.clause("GRD-38", "build_group_commit_batch fails only under the two conditions its caller excluded (the `?` on it while the writer heads the queue - ORD-11's exception - cannot fire)")
    blind.grd38_group_builder_errors_are_unreachable(P, R, L)
    R.clause("LST-1", "the snapshot / version list repairs every link when a node is removed or pushed: a stale tail leaves `head` None behind a non-empty list and snapshots.oldest() panics on the compaction thread")
    R.once(blind.lst1_link_repairs, P, R, L)
    R.clause("TS-3", "no abandon() of a table builder is reachable from behind its finalize() (abandon asserts that the file was not closed)")
    R.once(blind.ts3_no_abandon_after_finalize, P, R, L)
    from . import round12
    R.clause("ORD-10b", "the compaction thread leaves its task loop only over the Terminate arm: a Compaction task that was scheduled right before the close is still serviced (Drop waits for its scheduled flag before it sends Terminate)")
    round12.ord10b_worker_leaves_only_on_terminate(P, R, L)
    R.clause("ERR-6", "no fallible storage result is answered with unwrap / expect (a panic on the compaction thread leaves the scheduled flag set: every waiter hangs)")
    R.once(round12.err6_no_panic_on_a_fallible_result, P, R, L)
    R.clause("PAIR-10", "a table builder that was finalized/abandoned is removed from the compaction state on every path (a later abandon() of a closed "
             "builder would panic the background thread while the scheduled flag is set)")
    K.pair10_builder_slot(P, R, L)
    R.clause("LCK-5", "version-node RwLocks are never acquired in a conflicting mode while a version-node guard is live in the same body "
             "(class-level: parking_lot RwLock is not re-entrant)")
    K.lck5_version_rwlock(P, R, L)
    R.clause("LCK-6", "lock order: the manual-compaction configuration mutex is acquired only under the DB mutex")
    K.lck6_manual_config_lock_order(P, R, L)
    R.clause("ORD-17", "a manual compaction request observed by a worker run is always consumed (done written, slot cleared)")
    K.ord17_manual_slot(P, R, L)
    R.clause("GRD-14", "the size-bounded input list of a manual compaction keeps at least one file (an empty list trips "
             "`assert!(!files.is_empty())` on the compaction thread, which then never clears the scheduled flag)")
    K.grd14_manual_inputs(P, R, L, parts=("nonempty",))
    R.clause("GRD-16", "a compaction is done as a trivial move only when it has a single input file and no overlapping parent-level file")
    K.grd16_trivial_move(P, R, L)
    R.clause("PAIR-9", "compaction inputs are expanded by their boundary files before the key range that selects the parent-level inputs is computed "
             "(otherwise the output overlaps a remaining parent-level file: the version builder's assertion kills the compaction thread)")
    K.pair9_boundary_inputs(P, R, L)
    K.pair9_levels(P, R, L)
    K.bundle_no_assertion_trips(P, R, L)
    K.pair16_followers_always_completed(P, R, L)
    R.clause("PAIR-16", "followers are marked complete whatever the group's result (their wait loop has no other exit)")
    R.clause("PROG-1", "the read-sampling loop of the client iterator makes progress (its counter accumulates)")
    K.prog1_sampling_loop_progress(P, R, L)
    R.clause("ORD-19", "force_level_compaction withdraws its request only after the background work finished (the compaction thread unwraps the slot at the end of the compaction it was asked for)")
    K.ord19_manual_request_withdrawn_after_work(P, R, L)
    # a blocking flock turns "already open elsewhere" from an error into an open / destroy that never returns
    from .c17 import grd9
    grd9(P, R, L)
    R.not_decided += ["that the background thread never panics (value-level reachability of unwrap/assert/index sites)",
                      "progress of data-dependent loops", "channel capacity / blocking send in schedule_task"]
    R.assumptions += ["one Mutex<GuardedDbFields> instance per database (class-level = instance-level)",
                      "boxed FnOnce clean-up callbacks run by MergingIterator::drop are opaque; their registration site is checked separately",
                      "parking_lot semantics: Mutex is not re-entrant; Condvar::wait releases and re-acquires the guard"]
